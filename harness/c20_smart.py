"""C20 — on-demand sync: remote files stay remote until requested; un-request keeps the remote copy.

Two ties (DESIGN.md section 6, C20):
  (A) MODEL TIE.  lean/Csverif/Model/Smart.lean models, branch by branch, the pre-sync gate (smartsync.py 45-67), the filtered
      pending set (167-204), the request / un-request set operations (105-158), the un-request call path (327-362) and the merged
      listing (246-313, 394-424).  Every call the real engine makes to `SmartSyncManager.pre_sync` and to the
      `SmartSyncState._changeset` filter, every public request / un-request call and every listing call in the runs below is
      intercepted (harness-level wrappers, nothing in /repo changes); the abstract features the code reads are extracted from the
      real entry, the model's decision is computed by the Lean driver (layer `monc20`), and the two are diffed.
  (B) TRACE REFINEMENT.  The real SmartCloudSync is run deterministically (harness/engine.py World(smart=True)) on generated
      histories (remote creates/edits/deletes, local creates/edits, request by path / by oid, un-request by path / by oid, listing
      calls, auto-sync predicates) interleaved with engine steps; the Lean driver replays the record through the executable
      specification of lean/Csverif/Model/Spec/Smart.lean and answers ok / reject.
Step 4 (only after a break): the property's own statements evaluated in Python on the same records (`py_*` oracles).
"""
import os
import random
import sys

sys.path.insert(0, os.path.dirname(os.path.abspath(__file__)))
from histories import *  # noqa
import engine as _engine

PID = "C20"
LAYER = "monc20"

# the engine makes one temp folder per SyncManager; keep them (and the SQLite files) on a memory file system when there is
# one, under a single scratch folder that is removed at exit
import atexit
import shutil
import tempfile
_SCRATCH = tempfile.mkdtemp(prefix="c20_", dir="/dev/shm" if os.path.isdir("/dev/shm") else None)
tempfile.tempdir = _SCRATCH
atexit.register(lambda: shutil.rmtree(_SCRATCH, ignore_errors=True))

FP_SPEC = {"cloudsync/smartsync.py": ["SmartSyncManager.pre_sync", "SmartSyncManager.get_parent_conflicts",
                                      "SmartSyncState._smart_sync_ent", "SmartSyncState.smart_sync_path", "SmartSyncState.smart_sync_oid",
                                      "SmartSyncState._smart_unsync_ent", "SmartSyncState._smart_unsync", "SmartSyncState.smart_unsync_ent",
                                      "SmartSyncState.smart_unsync_oid", "SmartSyncState.smart_listdir_path", "SmartSyncState._changeset",
                                      "SmartSyncState.changes", "SmartEventManager._fill_event_path",
                                      "SmartCloudSync._get_smartinfo", "SmartCloudSync._sync_one_entry", "SmartCloudSync._smart_unsync_ent",
                                      "SmartCloudSync.smart_unsync_oid", "SmartCloudSync.smart_unsync_path", "SmartCloudSync._smart_sync_ent",
                                      "SmartCloudSync.smart_sync_oid", "SmartCloudSync.smart_sync_path", "SmartCloudSync.smart_listdir_path",
                                      "SmartCloudSync._ensure_path_remote", "SmartCloudSync.smart_delete_path"],
           "cloudsync/sync/manager.py": ["SyncManager.pre_sync", "SyncManager.sync", "SyncManager._sync_one_entry", "SyncManager.do",
                                         "SyncManager.embrace_change", "SyncManager.handle_hash_diff", "SyncManager.upload_synced",
                                         "SyncManager.create_synced", "SyncManager._create_synced", "SyncManager.delete_synced",
                                         "SyncManager.finished", "SyncManager._get_parent_conflict"],
           "cloudsync/sync/state.py": ["SyncState.change", "SyncState.finished", "SyncState.updated", "SyncState.unconditionally_get_latest",
                                       "SyncEntry.get_latest", "SyncEntry.is_latest", "SideState.clear", "SyncState.get_kids",
                                       "SyncState.lookup_path", "SyncState.lookup_oid"]}


# --------------------------------------------------------------------------------------------------------------------
# harness-level completion of engine.OrderedSet: smartsync.py also uses set.intersection / set.union (engine.py's ordered
# replacement lacks them and may not be edited); insertion order is kept, as for the other operations.

def _os_intersection(self, *others):
    keep = list(self)
    for o in others:
        o = list(o)
        keep = [x for x in keep if any(x is y or x == y for y in o)]
    return _engine.OrderedSet(keep)


def _os_union(self, *others):
    r = _engine.OrderedSet(self)
    for o in others:
        r.update(o)
    return r


_engine.OrderedSet.intersection = _os_intersection
_engine.OrderedSet.union = _os_union


# --------------------------------------------------------------------------------------------------------------------
# probes: class-level wrappers (installed once) that record what the real gate / filter / notification code did

class _Probe:
    sink = None          # the SmartRun currently recording (None = probes inert)
    pending = None       # features captured when the base pre_sync returned


PROBE = _Probe()


def _ntype_name(n):
    return {"sync_discarded": "D", "sync_smart_skipped": "U"}.get(n.ntype.value, "?" + n.ntype.value)


def install_probes():
    import_repo()
    import cloudsync.smartsync as ss
    import cloudsync.sync.manager as mg
    import cloudsync.notification as nt
    from cloudsync.types import DIRECTORY
    if getattr(ss, "_c20_probed", False):
        return
    ss._c20_probed = True

    orig_notify = nt.NotificationManager.notify

    def notify(self, e):
        run = PROBE.sink
        if run is not None and e is not None:
            run.notes.append(e)
        return orig_notify(self, e)
    nt.NotificationManager.notify = notify

    base_pre = mg.SyncManager.pre_sync

    def base_pre_sync(self, sync):
        r = base_pre(self, sync)
        if PROBE.sink is not None and isinstance(self, ss.SmartSyncManager):
            loid = sync[LOCAL].oid
            PROBE.pending = {"superFinished": bool(r), "localOid": bool(loid),
                             "localExists": bool(loid and self.providers[LOCAL]._mock_fs.get(loid) is not None
                                                 and self.providers[LOCAL]._mock_fs.get(loid).exists),
                             "requested": sync in self.state.requestset, "remoteDir": sync[REMOTE].otype == DIRECTORY}
        return r
    mg.SyncManager.pre_sync = base_pre_sync

    smart_pre = ss.SmartSyncManager.pre_sync

    def smart_pre_sync(self, sync):
        run = PROBE.sink
        if run is None:
            return smart_pre(self, sync)
        n0 = len(run.notes)
        PROBE.pending = None
        r = smart_pre(self, sync)
        f = PROBE.pending
        PROBE.pending = None
        if f is not None:
            lp, rp = sync[LOCAL].path, sync[REMOTE].path
            tp = self.translate(REMOTE, lp) if lp else None
            f.update({"remotePath": bool(rp), "localPath": bool(lp), "translates": bool(tp)})
            notes = []
            for n in run.notes[n0:]:
                if id(n) in run.filter_note_ids:
                    continue          # sent by the filter (evaluated inside SyncState.finished), not by the gate
                if rp and n.path == rp:
                    frm = "r"
                elif tp and n.path == tp:
                    frm = "t"
                elif lp and n.path == lp:
                    frm = "l"
                else:
                    frm = "?"
                notes.append("%s%s%s" % (_ntype_name(n), {0: "L", 1: "R", 2: "S"}[n.source.value], frm))
            run.gate_records.append((f, bool(r), notes, sync[REMOTE].path or sync[LOCAL].path))
        return r
    ss.SmartSyncManager.pre_sync = smart_pre_sync

    prop = ss.SmartSyncState.__dict__["_changeset"]

    def filtered(self):
        run = PROBE.sink
        if run is None or run.in_filter:
            return prop.fget(self)
        run.in_filter = True
        try:
            pre = []
            for ent in list(self._changeset_storage):
                rp = ent[REMOTE].path
                lp = ent[LOCAL].path
                pre.append((ent, {
                    "inExclude": ent in self.excludeset, "localChanged": bool(ent[LOCAL].changed), "inRequest": ent in self.requestset,
                    "remoteDir": ent[REMOTE].otype == DIRECTORY, "remoteChanged": bool(ent[REMOTE].changed), "isLatest": bool(ent.is_latest()),
                    "localOid": bool(ent[LOCAL].oid), "remotePath": bool(rp),
                    "callbacks": [bool(cb(rp)) for cb in self._callbacks] if rp else [False for _ in self._callbacks],
                    "localPath": bool(lp), "localPathExists": bool(lp and self.providers[LOCAL].exists_path(lp))}, rp))
            n0 = len(run.notes)
            res = prop.fget(self)
            skipped = [n.path for n in run.notes[n0:]]
            run.filter_note_ids.update(id(n) for n in run.notes[n0:])
            by_path = {}
            for ent, f, rp in pre:
                by_path.setdefault(rp, []).append(f)
            for ent, f, rp in pre:
                out = {"included": ent in res, "reqAfter": ent in self.requestset, "exclAfter": ent in self.excludeset,
                       "cleared": bool(f["localPath"] and not ent[LOCAL].path)}
                # a skip notification carries the entry's remote path (possibly None): when several pending entries share that
                # path the notifications cannot be attributed to one of them; the group is then compared by count
                if len(by_path[rp]) == 1:
                    out["notified"] = (rp in skipped)
                    if out["notified"]:
                        skipped.remove(rp)
                else:
                    out["notified"] = None
                run.filter_records.append((f, out))
                if out["reqAfter"] and not f["inRequest"]:
                    run.set_history.setdefault(id(ent), [ent, []])[1].append("q")
            for rp, fs in by_path.items():
                if len(fs) > 1:
                    n = skipped.count(rp)
                    skipped = [x for x in skipped if x != rp]
                    run.filter_groups.append((fs, n))
            if skipped:
                run.filter_records.append(({"unexpected_notifications": skipped}, {}))
            return res
        finally:
            run.in_filter = False
    ss.SmartSyncState._changeset = property(filtered, prop.fset)

    base_gl = ss.SyncState.unconditionally_get_latest

    def get_latest_probe(self, ent, side):
        r = base_gl(self, ent, side)
        run = PROBE.sink
        if run is not None and run.unsync_log is not None:
            newer = bool(ent[side].hash != ent[side].sync_hash or ent[side].parent.paths_differ(side))
            run.unsync_log.append(("G", side, len(run.w.calls), id(ent), newer))
        return r
    ss.SyncState.unconditionally_get_latest = get_latest_probe
    import cloudsync.sync.state as st
    st.SyncState.unconditionally_get_latest = get_latest_probe

    s1 = ss.SmartCloudSync._sync_one_entry

    def sync_one_probe(self, sync):
        run = PROBE.sink
        if run is not None and run.unsync_log is not None:
            run.unsync_log.append(("F", len(run.w.calls), id(sync)))
        try:
            return s1(self, sync)
        finally:
            if run is not None and run.unsync_log is not None:
                run.unsync_log.append(("f", len(run.w.calls)))
    ss.SmartCloudSync._sync_one_entry = sync_one_probe

    import cloudsync.providers.mock as mk
    info0 = mk.MockProvider.info_path

    def info_probe(self, path, use_cache=True):
        run = PROBE.sink
        if run is not None and run.unsync_log is not None and self is run.w.provs[0]:
            run.unsync_log.append(("I", len(run.w.calls), path))
        return info0(self, path, use_cache)
    mk.MockProvider.info_path = info_probe

    su0 = ss.SmartSyncState._smart_unsync_ent

    def state_unsync_probe(self, ent):
        run = PROBE.sink
        if run is not None and run.unsync_log is not None:
            lp = ent[LOCAL].path
            # the features the state part reads, at the moment it reads them (a flush may have changed the entry)
            run.unsync_log.append(("S", id(ent), bool(lp), bool(lp and self.providers[LOCAL].exists_path(lp)), lp))
        return su0(self, ent)
    ss.SmartSyncState._smart_unsync_ent = state_unsync_probe

    clear0 = st.SideState.clear

    def clear_probe(self):
        run = PROBE.sink
        if run is not None and run.unsync_log is not None:
            run.unsync_log.append(("C", self.side, len(run.w.calls), id(self.parent)))
        return clear0(self)
    st.SideState.clear = clear_probe


# --------------------------------------------------------------------------------------------------------------------
# the recorded run

def data_of(tag):
    """content for a version tag; tag 0 is the empty file"""
    return b"" if tag == 0 else b"v%d" % tag


def tag_of_data(d):
    if d == b"":
        return 0
    return tag_of(d)


def enc_tree20(t):
    out = []
    for k in sorted(t):
        v = t[k]
        out.append("%s=%s" % (enc_rel(k), "D" if v[0] == "d" else "F%d" % tag_of_data(v[1])))
    return " ".join(out) if out else ""


PREDICATES = {
    "none": None,
    "auto": lambda p: "auto" in p,
    "txt": lambda p: p.endswith(".txt"),
    "all": lambda p: True,
    "never": lambda p: False,
    "d1": lambda p: "/d1/" in p,
}


class SmartRun:
    """drives a World(smart=True) through a history and records what the monitors and the model tie need"""

    def __init__(self, flavour, rng, storage="mock", pred="none", pred2=None, translate=None, alt_hash=False):
        install_probes()
        self.rng = rng
        self.notes = []
        self.gate_records, self.filter_records, self.set_records, self.unsync_records, self.list_records = [], [], [], [], []
        self.syncent_records = []
        self.filter_groups = []
        self.info_records = []
        self.info_errors = {}
        self.known_oids = {}
        self.tree_obligations = True
        self.quiet_listing = True
        self.in_filter = False
        self.filter_note_ids = set()
        self.unsync_log = None
        self.w = World(flavour, smart=True, storage=storage, translate=translate)
        PROBE.sink = self
        self.alt_hash = alt_hash
        if alt_hash:
            # the two providers hash differently (as real back ends do); files are created after this point
            import hashlib as _hl
            self.w.provs[1]._hash_func = lambda a: _hl.sha1(b"remote:" + a).digest()
        self.cs = self.w.cs
        self.flavour, self.storage, self.pred_name, self.pred2_name = flavour, storage, pred, pred2
        self.preds = [PREDICATES[x] for x in (pred, pred2) if x and PREDICATES[x]]
        for fn in self.preds:
            self.cs.register_auto_sync_callback(fn)
        self.trace = []
        self.next_tag = 1
        self.next_name = 1
        self.files = {}       # rel -> {"origin": 'R'|'L', "last": 'R'|'L', "dirty": None|'R'|'L', "protected": bool, "alive": bool}
        self.dirs = {""}      # rel paths of folders created so far (both sides eventually)
        self.ops = []         # spec tokens
        self.checks = []      # (line, kind)
        self.api_errors = []
        self.used_tags = []
        self.hard = []        # hard failures (no quiet, unexpected exception)
        self.engine_steps = 0
        self.set_history = {}   # id(entry) -> [entry, calls]

    def close(self):
        PROBE.sink = None
        self.w.close()

    # ---- helpers ----------------------------------------------------------------------------------------------------
    def auto(self, rel):
        rp = self.w.roots[1] + rel
        return any(fn(rp) for fn in self.preds)

    def fresh_tag(self, protected_ok=False):
        r = self.rng.random()
        if r < 0.08:
            return 0
        t = self.next_tag
        self.next_tag += 1
        return t

    def fresh_name(self, parent):
        stem = self.rng.choice(["f", "f", "auto", "x"])
        ext = self.rng.choice(["", "", ".txt", ".auto"])
        n = self.next_name
        self.next_name += 1
        return "%s/%s%d%s" % (parent, stem, n, ext)

    def trees(self):
        return self.w.tree(0), self.w.tree(1)

    def summary(self, extra=None):
        d = {"flavour": self.flavour, "storage": self.storage, "remote_hash": "sha1-salted" if self.alt_hash else "md5 (same as local)", "auto_sync_predicates": [x for x in (self.pred_name, self.pred2_name) if x],
             "schedule": self.trace[-200:], "local": tree_lines(self.w.tree(0)), "remote": tree_lines(self.w.tree(1)), "property": PID}
        if extra:
            d.update(extra)
        return d

    # ---- user operations ----------------------------------------------------------------------------------------------
    def user(self, side, kind, rel, tag=None):
        w = self.w
        args = [w.roots[side] + rel]
        if kind in ("create", "write"):
            args.append(data_of(tag))
        err = w.user(side, kind, *args)
        self.trace.append("U%s:%s:%s%s%s" % ("LR"[side], kind, rel, "" if tag is None else ":%d" % tag, "!" + err if err else ""))
        if err:
            return False
        sd = "LR"[side]
        if kind == "create":
            self.files[rel] = {"origin": sd, "last": sd, "dirty": sd, "protected": False, "alive": True}
            self.ops.append("%sC:%s:%d" % (sd, enc_rel(rel), tag))
        elif kind == "write":
            self.files[rel]["last"] = sd
            self.files[rel]["dirty"] = sd
            self.ops.append("%sW:%s:%d" % (sd, enc_rel(rel), tag))
        elif kind == "mkdir":
            self.dirs.add(rel)
            self.ops.append("%sM:%s" % (sd, enc_rel(rel)))
        elif kind == "delete":
            self.files[rel]["alive"] = False
            self.files[rel]["dirty"] = sd
            self.files[rel]["last"] = sd
            self.ops.append("%sD:%s" % (sd, enc_rel(rel)))
        return True

    def step(self, which):
        r = self.w.step(which)
        self.engine_steps += 1
        self.trace.append(which)
        self.check_step()
        self.instant()
        return r

    def instant(self):
        """the listing law at THIS instant: every folder's merged listing, smart_info_path of every known path and
        smart_info_oid of every remote id ever seen, each compared with the Lean listing model on the state as it is now"""
        self.listings(False)
        self.infos()

    def quiesce(self, cap=300):
        quiet_rounds = 0
        n = 0
        while n < cap:
            seq = list("LRS")
            self.rng.shuffle(seq)
            for x in seq:
                self.step(x)
                n += 1
            if not self.w.busy():
                quiet_rounds += 1
                if quiet_rounds >= 2:
                    for f in self.files.values():
                        f["dirty"] = None
                        f["req_err"] = False
                    self.check_quiet()
                    return True
            else:
                quiet_rounds = 0
        self.hard.append(self.summary({"failure": "engine did not go quiet within %d steps" % cap}))
        return False

    # ---- request / un-request (both routes) -----------------------------------------------------------------------------
    def _ents_for(self, rel):
        st = self.cs.state
        return list(st.lookup_path(REMOTE, self.w.roots[1] + rel))

    def _membership(self, ents):
        st = self.cs.state
        return [(e in st.requestset, e in st.excludeset) for e in ents]

    def api(self, fn, *a):
        self.w.by = "engine"
        self.w.clock.advance(0.001)
        try:
            return ("ok", fn(*a))
        except Exception as e:  # noqa
            return (type(e).__name__, None)
        finally:
            self.w.by = "user"

    def remote_oid(self, rel):
        info = self.w.provs[1].info_path(self.w.roots[1] + rel)
        return info.oid if info else None

    def request(self, rel, route):
        """route: 'pl' by local path, 'pr' by remote path, 'o' by remote oid"""
        ents = self._ents_for(rel)
        before = self._membership(ents)
        feats = [self._sync_ent_features(e) for e in ents]
        self.unsync_log = []
        if route == "o":
            oid = self.remote_oid(rel) or "nosuchoid"
            known = self.cs.state.lookup_oid(REMOTE, oid)
            if known is not None and known not in ents:
                ents.append(known)
                before = self._membership(ents)
                feats = [self._sync_ent_features(e) for e in ents]
            targets = [known] if known is not None else []
            res, _ = self.api(self.cs.smart_sync_oid, oid)
        elif route == "pl":
            targets = list(ents)
            res, _ = self.api(self.cs.smart_sync_path, self.w.roots[0] + rel, LOCAL)
        else:
            targets = list(ents)
            res, _ = self.api(self.cs.smart_sync_path, self.w.roots[1] + rel, REMOTE)
        after = self._membership(ents)
        log, self.unsync_log = self.unsync_log, None
        # `_smart_sync_ent` (state level) runs before the first `_sync_one_entry`: a clear of the local side logged before it
        first_f = ([n for n, x in enumerate(log) if x[0] == "F"] + [len(log)])[0]
        cleared_ids = {x[3] for x in log[:first_f] if x[0] == "C" and x[1] == LOCAL}
        for e, b, a, f in zip(ents, before, after, feats):
            if res != "CloudFileNotFoundError" and e in targets:
                self.syncent_records.append((b, f, a, id(e) in cleared_ids))
            if res == "CloudFileNotFoundError":
                # nothing was looked up (unknown / untranslatable path, unknown id): no set operation took place
                self.set_records.append(("nocall", True, b, a, f, {"res": res}))
                continue
            self.set_records.append(("request", e in targets, b, a, f, {"res": res}))
            self.set_history.setdefault(id(e), [e, []])[1].append("q" if e in targets else "n")
        out = "ok" if res == "ok" else ("nf" if res == "CloudFileNotFoundError" else "err")
        if out == "err":
            self.api_errors.append(("request", rel, route, res))
            if rel in self.files:
                self.files[rel]["req_err"] = True
        self.trace.append("Q+%s:%s=%s" % (route, rel, res))
        self.ops.append("Q+:%s:%s" % (enc_rel(rel), out))
        self.check_step()
        return out

    def _sync_ent_features(self, e):
        lp = e[LOCAL].path
        return {"localPath": bool(lp), "localPathExists": bool(lp and self.w.provs[0].exists_path(lp))}

    def unrequest(self, rel, route):
        """route: 'pl' by local path, 'pr' by remote path, 'o' by remote oid.  Records the un-request obligation."""
        st = self.cs.state
        ents = self._ents_for(rel)
        oid = None
        if route == "o":
            oid = self.remote_oid(rel) or "nosuchoid"
            known = st.lookup_oid(REMOTE, oid)
            ents = [known] if known is not None else []
        before = self._membership(ents)
        lb, rb = self.trees()
        f = self.files.get(rel)
        last = f["last"] if f else "R"
        ncalls = len(self.w.calls)
        feats = [{"requested": e in st.requestset, "localPath": bool(e[LOCAL].path), "id": id(e), "lpath": e[LOCAL].path,
                  "localInfo": bool(e[LOCAL].path and self.w.provs[0].exists_path(e[LOCAL].path))} for e in ents]
        self.unsync_log = []
        if route == "o":
            res, val = self.api(self.cs.smart_unsync_oid, oid)
        elif route == "pl":
            res, val = self.api(self.cs.smart_unsync_path, self.w.roots[0] + rel, LOCAL)
        else:
            res, val = self.api(self.cs.smart_unsync_path, self.w.roots[1] + rel, REMOTE)
        log, self.unsync_log = self.unsync_log, None
        after = self._membership(ents)
        writes = [(i, c) for i, c in enumerate(self.w.calls[ncalls:], ncalls) if c.method in MUTATORS]
        self.unsync_records.append({"route": route, "found": bool(ents), "ents": feats, "log": log, "res": res, "none": val is None,
                                    "moved": [b[0] and a == (False, True) for b, a in zip(before, after)],
                                    "writes": [(i, "LR"[c.side], c.method, bool(c.error)) for i, c in writes]})
        translates = True if route != "pl" else bool(self.cs.translate(REMOTE, self.w.roots[0] + rel))
        self.unsync_records[-1]["translates"] = translates
        for e, b, a in zip(ents, before, after):
            aborted = res not in ("ok", "TypeError") or not translates
            self.set_records.append(("unrequest-aborted" if aborted else "unrequest", True, b, a, None, {"res": res}))
            if not aborted:
                self.set_history.setdefault(id(e), [e, []])[1].append("u")
        la, ra = self.trees()
        out = "ok" if res == "ok" else ("nf" if res == "CloudFileNotFoundError" else "err")
        self.trace.append("Q-%s:%s=%s" % (route, rel, res))
        line = "unsync | %s | %s | %s | %s | %s | %s | %s | %s | %s" % (" ".join(self.ops), self.auto_tokens(), enc_rel(rel), last, enc_tree20(lb),
                                                                       enc_tree20(rb), enc_tree20(la), enc_tree20(ra), out)
        self.checks.append((line, "unsync", len(self.trace)))
        self.ops.append("Q-:%s:%s" % (enc_rel(rel), out))
        if out == "err":
            self.api_errors.append(("unrequest", rel, route, res))
        self.check_step()
        return out

    # ---- listing ----------------------------------------------------------------------------------------------------------
    def listing(self, drel, quiet):
        cs, w = self.cs, self.w
        lpath = w.roots[0] + drel
        res, items = self.api(lambda: list(cs.smart_listdir_path(lpath)))
        tl, tr = self.trees()

        def kids(t):
            return sorted(k[len(drel) + 1:] for k in t if k.startswith(drel + "/") and "/" not in k[len(drel) + 1:])
        if res != "ok":
            self.hard.append(self.summary({"failure": "smart_listdir_path(%s) raised %s" % (lpath, res)}))
            return
        ents = ["%s:%s" % (enc_str(i.name), enc_bool(i.is_synced)) for i in items]
        if items:
            self.checks.append(("ghost | " + " ".join(self.ghost_row(i) for i in items), "ghost", len(self.trace)))
        line = "listing | %s | %s | %s | %s" % ("Q" if quiet else "S", " ".join(enc_str(k) for k in kids(tl)),
                                                " ".join(enc_str(k) for k in kids(tr)), " ".join(ents))
        self.checks.append((line, "listing", len(self.trace)))
        # model tie: the per-name features the merge reads, extracted from the real provider / state
        local, remote = cs.providers
        rpath = cs.translate(REMOTE, lpath)
        ldir = {}
        try:
            for de in local.listdir_path(lpath):
                ldir[de.name] = de
        except Exception:  # noqa
            pass
        rents = {}
        if rpath:
            for ent in cs.state.smart_listdir_path(REMOTE, rpath):
                if cs.translate(LOCAL, ent[REMOTE].path):
                    rents[remote.basename(ent[REMOTE].path)] = ent
        got = {}
        for i in items:
            got.setdefault(i.name, []).append(bool(i.is_synced))
        from cloudsync.sync.state import TRASHED, MISSING
        for name in list(ldir) + [n for n in rents if n not in ldir]:
            lent, rent = ldir.get(name), rents.get(name)
            f = {"hasLocal": lent is not None, "hasRent": rent is not None, "rentLocalPath": False, "pathsMatch": False,
                 "localGone": False, "remoteGone": False, "localVisible": False, "remoteVisible": False}
            if rent is not None:
                f["rentLocalPath"] = bool(rent[LOCAL].path)
                f["pathsMatch"] = bool(local.paths_match(cs.translate(LOCAL, rent[REMOTE].path), rent[LOCAL].path))
                f["localGone"] = rent[LOCAL].exists in (TRASHED, MISSING)
                f["remoteGone"] = rent[REMOTE].exists in (TRASHED, MISSING)
                f["remoteVisible"] = bool(rent[REMOTE].mtime or rent[REMOTE].size)
            if lent is not None:
                f["localVisible"] = bool(lent.mtime or lent.size)
            self.list_records.append((f, got.get(name, [])))

    def remote_known_gone(self, info):
        """what the ENGINE knows (its state entry, found through the reported remote id, else through the reported path)
        about the remote side of a reported object: True = known TRASHED/MISSING"""
        from cloudsync.sync.state import TRASHED, MISSING
        st = self.cs.state
        ent = st.lookup_oid(REMOTE, info.remote_oid) if getattr(info, "remote_oid", None) else None
        if ent is None and info.path:
            try:
                rp = self.cs.translate(REMOTE, info.path)
                es = st.lookup_path(REMOTE, rp, stale=True) if rp else []
                ent = es[0] if es else None
            except Exception:  # noqa
                ent = None
        return bool(ent is not None and ent[REMOTE].exists in (TRASHED, MISSING))

    def ghost_row(self, info):
        return "%s:%s:%s" % (enc_str(info.name or "?"), enc_bool(info.is_synced), enc_bool(self.remote_known_gone(info)))

    def _list_features(self, lent, rent):
        from cloudsync.sync.state import TRASHED, MISSING
        cs = self.cs
        local = cs.providers[0]
        f = {"hasLocal": lent is not None, "hasRent": rent is not None, "rentLocalPath": False, "pathsMatch": False,
             "localGone": False, "remoteGone": False, "localVisible": False, "remoteVisible": False}
        if rent is not None:
            f["rentLocalPath"] = bool(rent[LOCAL].path)
            f["pathsMatch"] = bool(local.paths_match(cs.translate(LOCAL, rent[REMOTE].path), rent[LOCAL].path))
            f["localGone"] = rent[LOCAL].exists in (TRASHED, MISSING)
            f["remoteGone"] = rent[REMOTE].exists in (TRASHED, MISSING)
            f["remoteVisible"] = bool(rent[REMOTE].mtime or rent[REMOTE].size)
        if lent is not None:
            f["localVisible"] = bool(lent.mtime or lent.size)
        return f

    def infos(self):
        """smart_info_path of every known path and smart_info_oid of every remote id ever seen, at this instant"""
        cs, w = self.cs, self.w
        tl = w.tree(0)
        tr = w.tree(1, with_oid=True)
        for k, v in tr.items():
            self.known_oids[v[2]] = k
        paths = sorted(set(self.files) | set(tl) | set(tr) | set(self.known_oids.values()))
        for rel in paths:
            lpath = w.roots[0] + rel
            # the inputs the call reads, taken before the call
            try:
                lent = cs.providers[0].info_path(lpath)
                rp = cs.translate(REMOTE, lpath)
                rents = cs.state.lookup_path(REMOTE, rp) if rp else []
                rent = rents[0] if rents else None
                f = self._list_features(lent, rent) if (rent is not None and rent[REMOTE].path) or rent is None else None
            except Exception:  # noqa
                f = None
            res, info = self.api(cs.smart_info_path, lpath)
            if res != "ok":
                self.info_errors[("path", res)] = self.info_errors.get(("path", res), 0) + 1
                continue
            if info is not None:
                self.checks.append(("ghost | " + self.ghost_row(info), "ghost", len(self.trace)))
            if f is not None:
                self.info_records.append(("info", "info " + _b(*[f[k] for k in LIST_ORDER]),
                                          "-" if info is None else enc_bool(info.is_synced), {"features": f, "path": lpath}))
        for oid in sorted(self.known_oids):
            try:
                rent = cs.state.lookup_oid(REMOTE, oid)
                tr_ok = bool(rent is not None and rent[REMOTE].path and cs.translate(LOCAL, rent[REMOTE].path))
                f = self._list_features(None, rent) if (rent is not None and rent[REMOTE].path) else None
            except Exception:  # noqa
                rent, tr_ok, f = None, False, None
            res, info = self.api(cs.smart_info_oid, oid)
            if res != "ok":
                self.info_errors[("oid", res)] = self.info_errors.get(("oid", res), 0) + 1
                continue
            if info is not None:
                self.checks.append(("ghost | " + self.ghost_row(info), "ghost", len(self.trace)))
            if rent is None:
                f = {k: False for k in LIST_ORDER}
            if f is not None:
                self.info_records.append(("infooid", "infooid %s %s" % (_b(rent is not None, tr_ok), _b(*[f[k] for k in LIST_ORDER])),
                                          "-" if info is None else enc_bool(info.is_synced), {"features": f, "oid": oid}))

    def listings(self, quiet):
        tl, tr = self.trees()
        ds = {""} | {k for k, v in tl.items() if v[0] == "d"} | {k for k, v in tr.items() if v[0] == "d"}
        for d in sorted(ds):
            self.listing(d, quiet)

    # ---- obligations ----------------------------------------------------------------------------------------------------
    def auto_tokens(self):
        return " ".join(enc_rel(p) for p in sorted(self.files) if self.auto(p))

    def check_step(self):
        if not self.tree_obligations:
            return
        tl = self.w.tree(0)
        line = "step | %s | %s | %s" % (" ".join(self.ops), self.auto_tokens(), enc_tree20(tl))
        self.checks.append((line, "step", len(self.trace)))

    def check_quiet(self):
        if not self.tree_obligations:
            self.listings(self.quiet_listing)
            return
        tl, tr = self.trees()
        line = "quiet | %s | %s | %s | %s" % (" ".join(self.ops), self.auto_tokens(), enc_tree20(tl), enc_tree20(tr))
        self.checks.append((line, "quiet", len(self.trace)))
        self.listings(True)


# --------------------------------------------------------------------------------------------------------------------
# the property's own statements in Python (the step-4 oracle; also used to calibrate the generators).  Same line format
# as the Lean monitor; mirrors lean/Csverif/Model/Spec/Smart.lean.

def _sections(line):
    return [x.split() for x in line.split("|")]


def _dec_tree(toks):
    t = {}
    for x in toks:
        k, v = x.split("=")
        t[k] = v
    return t


class SpecState:
    """status of a file path: 'unreq' (must stay remote-only), 'req' / 'local' / 'auto' (must be present locally and equal at
    quiescence), 'maybe' (either).  Mirrors Spec.Smart.run in Lean."""

    def __init__(self, ops, auto=()):
        self.auto = set(auto)
        self.status, self.content, self.dirs = {}, {}, set()
        for o in ops:
            self.apply(o)

    def apply(self, o):
        f = o.split(":")
        k = f[0]
        if k in ("RC", "RW", "LC", "LW"):
            self.content[f[1]] = "F" + f[2]
            if k == "LC":
                self.status[f[1]] = "local"
            elif k == "RC":
                self.status[f[1]] = "auto" if f[1] in self.auto else "unreq"
        elif k in ("RD", "LD"):
            self.content.pop(f[1], None)
        elif k in ("RM", "LM"):
            self.dirs.add(f[1])
        elif k == "Q+":
            if f[2] == "ok":
                self.status[f[1]] = "req"
            elif f[2] == "err":
                self.status[f[1]] = "maybe"
        elif k == "Q-":
            st = self.st(f[1])
            if st == "req":
                self.status[f[1]] = ("maybe" if f[1] in self.auto else "unreq") if f[2] == "ok" else "maybe"
            elif st == "auto":
                self.status[f[1]] = "maybe"

    def st(self, p):
        return self.status.get(p, "unreq")

    def justified(self, p):
        return self.st(p) != "unreq"

    def must_have(self, p):
        return self.st(p) in ("req", "local", "auto")


def _diff(a, b):
    return sorted(set(a.items()) ^ set(b.items()))[0][0]


def py_check(line):
    s = _sections(line)
    kind = s[0][0]
    if kind == "step":
        sp, tl = SpecState(s[1], s[2]), _dec_tree(s[3])
        for p, v in tl.items():
            if v != "D" and not sp.justified(p):
                return "reject unrequested-file-present-locally %s" % p
        return "ok"
    if kind == "quiet":
        sp, tl, tr = SpecState(s[1], s[2]), _dec_tree(s[3]), _dec_tree(s[4])
        exp_r = dict(sp.content)
        for d in sp.dirs:
            exp_r[d] = "D"
        if tr != exp_r:
            return "reject remote-differs %s" % _diff(tr, exp_r)
        for d in sp.dirs:
            if tl.get(d) != "D":
                return "reject folder-not-mirrored %s" % d
        for p, v in tl.items():
            if v == "D" and p not in sp.dirs:
                return "reject extra-local-folder %s" % p
            if v != "D" and p not in sp.content:
                return "reject extra-local-file %s" % p
        for p, v in sp.content.items():
            have = tl.get(p)
            if sp.must_have(p):
                if have != v:
                    return "reject %s-not-in-sync %s" % ({"local": "local-creation", "req": "requested", "auto": "auto-synced"}[sp.st(p)], p)
            elif sp.justified(p):
                if have not in (None, v):
                    return "reject stale-local-copy %s" % p
            elif have is not None:
                return "reject unrequested-file-present-locally %s" % p
        return "ok"
    if kind == "unsync":
        sp, p, last, lb, rb, la, ra, res = SpecState(s[1], s[2]), s[3][0], s[4][0], _dec_tree(s[5]), _dec_tree(s[6]), _dec_tree(s[7]), _dec_tree(s[8]), s[9][0]
        for q in rb:
            if q not in ra:
                return "reject remote-deleted %s" % q
        st = sp.st(p)
        newest = lb.get(p) if (last == "L" and p in lb) else rb.get(p)
        exp_l = {k: v for k, v in lb.items() if k != p}
        exp_r = dict(rb)
        if newest is not None:
            exp_r[p] = newest
        removed_exactly = (la == exp_l and ra == exp_r)
        if st == "req" and res == "ok":
            if la != exp_l:
                return "reject local-copy-not-removed-exactly %s" % _diff(la, exp_l)
            if ra != exp_r:
                return "reject remote-not-newest %s" % _diff(ra, exp_r)
            return "ok"
        # not (explicitly) requested, or the call failed: nothing may be lost, nothing else may change
        for q in ra:
            if ra[q] != rb.get(q) and ra[q] != lb.get(q):
                return "reject remote-changed %s" % q
        if st in ("unreq", "local"):
            if la != lb:
                return "reject local-changed-by-noop-unrequest %s" % _diff(la, lb)
            return "ok"
        if removed_exactly or la == lb:
            return "ok"
        if newest is not None and la.get(p) != newest and ra.get(p) != newest:
            return "reject newest-lost %s" % p
        if {k: v for k, v in la.items() if k != p} != exp_l:
            return "reject other-local-changed %s" % _diff({k: v for k, v in la.items() if k != p}, exp_l)
        return "ok"
    if kind == "ghost":
        for row in s[1]:
            n, sy, g = row.split(":")
            if sy == "F" and g == "T":
                return "reject deleted-remote-file-listed %s" % n
        return "ok"
    if kind == "listing":
        quiet, lk, rk = s[1][0] == "Q", s[2], s[3]
        ents = [x.split(":") for x in s[4]]
        for n in lk:
            if [n, "T"] not in ents:
                return "reject local-not-reported-synced %s" % n
        for n, fl in ents:
            if n not in lk and fl != "F":
                return "reject remote-only-reported-synced %s" % n
        if quiet:
            for n in rk:
                if n not in lk and [n, "F"] not in ents:
                    return "reject remote-only-not-listed %s" % n
        return "ok"
    return "bad-op"


# --------------------------------------------------------------------------------------------------------------------
# history generators.  Syntactic restrictions (by construction, see DELIVERY_C20.md): names are never reused; a file is
# never changed on one side while a change of the other side to the same file is still unsynchronised (conflicts are
# C02/C05's business); files sharing their content with another file are never deleted (delete + create of equal content
# is the engine's rename heuristic); requests / un-requests address files, not folders.

ROUTES = ("pl", "pr", "o")


def pick_tag(run, rel_protect=None):
    """fresh tag, or (sometimes) the empty content / the content of another live file (both marked undeletable)"""
    rng = run.rng
    r = rng.random()
    if r < 0.08:
        return 0, True
    if r < 0.16:
        tl, tr = run.trees()
        live = [p for p, f in run.files.items() if f["alive"] and p in tr]
        if live:
            q = rng.choice(live)
            run.files[q]["protected"] = True
            return tag_of_data(tr[q][1]), True
    t = run.next_tag
    run.next_tag += 1
    return t, False


def random_op(run, kinds=None):
    rng = run.rng
    tl, tr = run.trees()
    kinds = kinds or ["rcreate", "rcreate", "rwrite", "rwrite", "rdelete", "rmkdir", "lcreate", "lwrite", "lwrite", "lmkdir",
                      "request", "request", "request", "unrequest", "unrequest", "listing"]
    for _ in range(10):
        k = rng.choice(kinds)
        if k in ("rcreate", "lcreate"):
            side = 1 if k == "rcreate" else 0
            t = tr if side else tl
            parents = [""] + [d for d, v in t.items() if v[0] == "d"]
            name = run.fresh_name(rng.choice(parents))
            tag, prot = pick_tag(run)
            if run.user(side, "create", name, tag):
                run.files[name]["protected"] = prot or tag == 0
                return k
        elif k in ("rwrite", "lwrite"):
            side = 1 if k == "rwrite" else 0
            t = tr if side else tl
            other = "L" if side else "R"
            c = [p for p, f in run.files.items() if f["alive"] and p in t and t[p][0] == "f" and f["dirty"] != other]
            if c:
                p = rng.choice(c)
                tag, prot = pick_tag(run)
                if run.user(side, "write", p, tag):
                    run.files[p]["protected"] = run.files[p]["protected"] or prot or tag == 0
                    return k
        elif k == "rdelete":
            # no remote delete of a file that has a local copy and a user change since the last quiescence: on providers whose
            # remote ids are paths the generic engine can resurrect such a file from the local copy (observed, see DELIVERY_C20.md;
            # reproduces on the plain CloudSync as well — C03's business)
            c = [p for p, f in run.files.items() if f["alive"] and p in tr and not f["protected"]
                 and (f["dirty"] is None or (f["dirty"] == "R" and p not in tl))]
            if c:
                if run.user(1, "delete", rng.choice(c)):
                    return k
        elif k in ("rmkdir", "lmkdir"):
            side = 1 if k == "rmkdir" else 0
            t = tr if side else tl
            parents = [""] + [d for d, v in t.items() if v[0] == "d" and d.count("/") < 2]
            name = "%s/d%d" % (rng.choice(parents), run.next_name)
            run.next_name += 1
            if run.user(side, "mkdir", name):
                return k
        elif k == "request":
            c = sorted(run.files)
            if c and rng.random() < 0.9:
                run.request(rng.choice(c), rng.choice(ROUTES))
            else:
                run.request("/noexist%d" % rng.randint(0, 3), rng.choice(ROUTES))
            return k
        elif k == "unrequest":
            sp = SpecState(run.ops, run.auto_tokens().split())
            # known finding `unrequest-before-first-look-hides-remote-file`: no un-request of a file whose request raised
            # (other than not-found) until the engine was quiet again
            c = sorted(p for p, f in run.files.items() if not f.get("req_err"))
            req = [p for p in c if sp.st(enc_rel(p)) in ("req", "auto", "maybe")]
            if req and rng.random() < 0.7:
                run.unrequest(rng.choice(sorted(req)), rng.choice(ROUTES))
            elif c and rng.random() < 0.9:
                run.unrequest(rng.choice(c), rng.choice(ROUTES))
            else:
                run.unrequest("/noexist%d" % rng.randint(0, 3), rng.choice(ROUTES))
            return k
        elif k == "listing":
            run.listings(False)
            return k
    return None


def fam_random(run, nops, interleave=3, mid_quiesce=0.25, kinds=None):
    for _ in range(nops):
        random_op(run, kinds)
        for _ in range(run.rng.randint(0, interleave)):
            run.step(run.rng.choice("LRS"))
        if run.rng.random() < mid_quiesce:
            if not run.quiesce():
                return False
    return run.quiesce()


# ---- systematic scenarios (enumerated parameters; the order is shuffled by the seed, a tier takes a prefix) --------------

GAPS = ("", "L", "R", "S", "LR", "RL", "LS", "RS", "LRS", "SLR", "Q")


def gap(run, g):
    if g == "Q":
        return run.quiesce()
    for x in g:
        run.step(x)
    return True


def place(run, where, side=1):
    """a fresh file path at the root or inside a (new) folder made on `side`"""
    if where == "root":
        return run.fresh_name("")
    d = "/d%d" % run.next_name
    run.next_name += 1
    run.user(side, "mkdir", d)
    return run.fresh_name(d)


def scen_rur(run, r1, r2, r3, g1, g2, g3, where, tag0):
    """request -> un-request -> request again, then a REMOTE edit: the edit must reach the local copy"""
    p = place(run, where)
    run.user(1, "create", p, tag0)
    run.files[p]["protected"] = True
    if not run.quiesce():
        return
    run.request(p, r1)
    gap(run, g1)
    run.unrequest(p, r2)
    gap(run, g2)
    run.request(p, r3)
    gap(run, g3)
    if run.files[p]["dirty"] != "L":
        run.user(1, "write", p, run.next_tag + 100)
    run.quiesce()
    run.listings(True)


def scen_edit_unsync(run, r1, r2, g0, g1, g2, where, twice, tag1):
    """a local edit followed by un-request before (or after) the engine took the event in / uploaded it"""
    p = place(run, where)
    run.user(1, "create", p, 1)
    run.files[p]["protected"] = True
    if not run.quiesce():
        return
    run.request(p, r1)
    if not gap(run, g0):
        return
    for f in run.files.values():
        if g0 == "Q":
            f["dirty"] = None
    if p not in run.w.tree(0):
        return
    if run.files[p]["dirty"] == "R" and g0 != "Q":
        if not run.quiesce():
            return
    run.user(0, "write", p, tag1)
    gap(run, g1)
    if twice:
        run.user(0, "write", p, tag1 + 1)
        gap(run, twice)
    run.unrequest(p, r2)
    gap(run, g2)
    run.quiesce()


def scen_never(run, kind, route, g, where):
    """un-request of a file that was never requested (remote-only / locally created / unknown / not yet seen by the engine)"""
    if kind == "remote":
        p = place(run, where)
        run.user(1, "create", p, 1)
        gap(run, g)
    elif kind == "local":
        p = place(run, where, side=0)
        run.user(0, "create", p, 1)
        gap(run, g)
    elif kind == "localedit":
        p = place(run, where, side=0)
        run.user(0, "create", p, 1)
        if not run.quiesce():
            return
        run.user(0, "write", p, 2)
        gap(run, g)
    else:
        p = "/noexist"
        gap(run, g)
    run.unrequest(p, route)
    run.quiesce()


def scen_delete(run, pre, post, route, g1, g2, where):
    """remote deletes while unrequested / requested / un-requested, followed by request or un-request calls"""
    p = place(run, where)
    run.user(1, "create", p, 1)
    if not run.quiesce():
        return
    if pre in ("req", "requn"):
        run.request(p, route)
        gap(run, g1)
    if pre == "requn":
        run.unrequest(p, route)
        gap(run, g1)
    if run.files[p]["dirty"] == "L":
        return
    run.user(1, "delete", p)
    gap(run, g2)
    if post == "request":
        run.request(p, route)
    elif post == "unrequest":
        run.unrequest(p, route)
    run.quiesce()


def scen_early(run, route, g, depth, tag):
    """request of a file whose folder is not mirrored yet (parent conflicts), or that the engine has not seen yet"""
    d = "/d%d" % run.next_name
    run.next_name += 1
    run.user(1, "mkdir", d)
    if depth == 2:
        d = d + "/e"
        run.user(1, "mkdir", d)
    p = run.fresh_name(d)
    run.user(1, "create", p, tag)
    gap(run, g)
    run.request(p, route)
    run.step("S")
    run.quiesce()


def scen_localdir(run, g1, g2, n):
    """local creations inside fresh local folders, interleaved with engine steps: all must be uploaded"""
    d = "/d%d" % run.next_name
    run.next_name += 1
    run.user(0, "mkdir", d)
    gap(run, g1)
    for i in range(n):
        run.user(0, "create", run.fresh_name(d), run.next_tag + i)
        gap(run, g2)
    run.quiesce()


def scen_window(run, pre, op, route, where, g1, later):
    """remote delete / rename / edit of a never-requested (`none`), requested (`req`) or un-requested (`requn`) file; then the
    remote intake ALONE, then the sync step: listings and info queries are taken after each of the two steps (the window in
    which the engine knows about the change but has not acted on it), then after everything that follows"""
    p = place(run, where)
    q = place(run, where) if where == "root" else run.fresh_name(p.rsplit("/", 1)[0])    # a second, untouched file
    run.user(1, "create", p, 1)
    run.user(1, "create", q, 2)
    run.files[p]["protected"] = False
    if not run.quiesce():
        return
    if pre in ("req", "requn"):
        run.request(p, route)
        if not run.quiesce():
            return
    if pre == "requn":
        run.unrequest(p, route)
        if not run.quiesce():
            return
    if op == "delete":
        run.user(1, "delete", p)
    elif op == "edit":
        run.user(1, "write", p, 7)
    else:
        # a remote rename: the specification has no rename operation, so from here on only the listing obligations
        # (folder listings, ghost rows) and the model tie are evaluated, not the tree obligations
        run.tree_obligations = False
        if pre == "requn":
            # known finding `unrequested-file-remote-rename-stale-name`: the quiescence clause "every remote-only file is listed" is
            # not generated for this shape (the instant clauses and the ghost obligation still are)
            run.quiet_listing = False
        err = run.w.user(1, "rename", run.w.roots[1] + p, run.w.roots[1] + p + "r")
        run.trace.append("UR:rename:%s%s" % (p, "!" + err if err else ""))
    gap(run, g1)
    run.step("R")
    run.step("S")
    gap(run, later)
    run.quiesce()


def scen_cases(rng):
    import itertools
    c = []
    c += [("rur",) + x for x in itertools.product(ROUTES, ROUTES, ROUTES, ("", "S", "LRS", "Q"), ("", "L", "RS", "Q"), ("", "R", "Q"),
                                                  ("root", "dir"), (1, 0))]
    c += [("edit",) + x for x in itertools.product(ROUTES, ROUTES, ("Q", "LRS", ""), ("", "L", "R", "LR", "LL"), ("", "S", "LRS"),
                                                   ("root", "dir"), (None, "", "L"), (5, 0))]
    c += [("never",) + x for x in itertools.product(("remote", "local", "localedit", "unknown"), ROUTES, GAPS, ("root", "dir"))]
    c += [("delete",) + x for x in itertools.product(("none", "req", "requn"), ("none", "request", "unrequest"), ROUTES,
                                                     ("", "S", "Q"), ("", "R", "RS", "Q"), ("root", "dir"))]
    c += [("early",) + x for x in itertools.product(ROUTES, GAPS, (1, 2), (1, 0))]
    c += [("window",) + x for x in itertools.product(("none", "req", "requn"), ("delete", "rename", "edit"), ROUTES, ("root", "dir"),
                                                     ("", "L", "S"), ("", "R", "LS", "SS"))]
    c += [("localdir",) + x for x in itertools.product(GAPS, GAPS, (1, 2, 3))]
    rng.shuffle(c)
    # round-robin over the scenario kinds so that every prefix covers all of them
    by = {}
    for x in c:
        by.setdefault(x[0], []).append(x)
    out = []
    while any(by.values()):
        for k in sorted(by):
            if by[k]:
                out.append(by[k].pop())
    return out


SCEN = {"window": scen_window, "rur": scen_rur, "edit": scen_edit_unsync, "never": scen_never, "delete": scen_delete, "early": scen_early,
        "localdir": scen_localdir}


# ---- model-tie probe family: wider feature combinations for the gate / filter / listing / un-request models -----------------
# These runs leave the generator's restrictions on purpose (untranslatable names, renames, deletes behind the engine's back,
# state-level calls); only the MODEL TIE is evaluated on them, no property obligation.

def _no_translate(cs, side, path):
    from cloudsync import CloudSync
    if "nt" in path.split("/")[-1]:
        return None
    return CloudSync.translate(cs, side, path)


def fam_probe(run, nops):
    rng, w, cs = run.rng, run.w, run.cs

    def gate_all():
        w.by = "engine"
        try:
            with cs.state.lock:
                for ent in list(cs.state.get_all(discarded=True)):
                    try:
                        cs.smgr.pre_sync(ent)
                    except Exception:  # noqa
                        pass
        finally:
            w.by = "user"
    for _ in range(nops):
        tl, tr = run.trees()
        k = rng.choice(["rcreate", "rcreate", "lcreate", "rmkdir", "lmkdir", "rwrite", "lwrite", "rdelete", "ldelete", "lrename", "rrename",
                        "hide", "request", "request", "unrequest", "unrequest", "staterequest", "stateunrequest", "gate", "gate",
                        "listing", "busy", "step", "step", "step", "quiesce"])
        try:
            if k in ("rcreate", "lcreate"):
                side = 1 if k == "rcreate" else 0
                t = tr if side else tl
                par = rng.choice([""] + [d for d, v in t.items() if v[0] == "d"])
                name = "%s/%s%d" % (par, rng.choice(["f", "nt", "auto", "g"]), run.next_name)
                run.next_name += 1
                run.user(side, "create", name, rng.choice([0, run.next_tag]))
                run.next_tag += 1
            elif k in ("rmkdir", "lmkdir"):
                side = 1 if k == "rmkdir" else 0
                name = "/%s%d" % (rng.choice(["d", "ntd"]), run.next_name)
                run.next_name += 1
                run.user(side, "mkdir", name)
            elif k in ("rwrite", "lwrite", "rdelete", "ldelete"):
                side = 1 if k[0] == "r" else 0
                t = tr if side else tl
                fs = [p for p, v in t.items() if v[0] == "f"]
                if fs:
                    p = rng.choice(fs)
                    if k.endswith("write"):
                        w.user(side, "write", w.roots[side] + p, data_of(run.next_tag))
                        run.next_tag += 1
                    else:
                        w.user(side, "delete", w.roots[side] + p)
                    run.trace.append("U%s:%s:%s" % ("LR"[side], k[1:], p))
            elif k in ("lrename", "rrename"):
                side = 1 if k[0] == "r" else 0
                t = tr if side else tl
                fs = [p for p, v in t.items() if v[0] == "f"]
                if fs:
                    p = rng.choice(fs)
                    w.user(side, "rename", w.roots[side] + p, w.roots[side] + p + "r")
                    run.trace.append("U%s:rename:%s" % ("LR"[side], p))
            elif k == "hide":
                fs = [v[2] for p, v in w.tree(0, with_oid=True).items() if v[0] == "f"]
                if fs:
                    w.provs[0]._delete(rng.choice(fs), without_event=True)
                    run.trace.append("UL:hidden-delete")
            elif k in ("request", "unrequest"):
                names = sorted(set(tl) | set(tr)) or ["/none"]
                p = rng.choice(names)
                run.files.setdefault(p, {"origin": "R", "last": "R", "dirty": None, "protected": True, "alive": True})
                (run.request if k == "request" else run.unrequest)(p, rng.choice(ROUTES))
            elif k in ("staterequest", "stateunrequest"):
                ents = [e for e in cs.state.get_all() if e[REMOTE].oid]
                if ents:
                    e = rng.choice(ents)
                    b = run._membership([e])[0]
                    if k == "staterequest":
                        f = run._sync_ent_features(e)
                        run.api(cs.state.smart_sync_oid, e[REMOTE].oid)
                        run.set_records.append(("request", True, b, run._membership([e])[0], f, {"res": "ok"}))
                        run.set_history.setdefault(id(e), [e, []])[1].append("q")
                    else:
                        rs, _ = run.api(cs.state.smart_unsync_oid, e[REMOTE].oid)
                        run.trace.append("state.smart_unsync_oid=%s" % rs)
                        if rs == "ok":
                            run.set_records.append(("unrequest", True, b, run._membership([e])[0], None, {"res": "ok"}))
                            run.set_history.setdefault(id(e), [e, []])[1].append("u")
                        else:     # the local delete raised (e.g. a non-empty folder): the sets are not touched
                            run.set_records.append(("unrequest-aborted", True, b, run._membership([e])[0], None, {"res": rs}))
            elif k == "gate":
                gate_all()
            elif k == "listing":
                run.listings(False)
            elif k == "busy":
                w.busy()
            elif k == "step":
                for _ in range(rng.randint(1, 3)):
                    w.step(rng.choice("LRS"))
                    run.trace.append("step")
            elif k == "quiesce":
                w.run_to_quiet(cap=90, rng=rng)
        except HarnessError:
            raise
        except Exception as e:  # noqa
            run.trace.append("probe-op %s raised %s" % (k, type(e).__name__))
    gate_all()
    run.listings(False)
    run.checks = []
    run.hard = []


# ---- transient provider faults (one-shot) ------------------------------------------------------------------------------

class Fault:
    """raises CloudTemporaryError at the nth engine-issued provider call matching (side, method); one shot"""

    def __init__(self, run, side=None, method=None, nth=0, exc="CloudTemporaryError"):
        self.run, self.side, self.method, self.nth, self.fired, self.exc = run, side, method, nth, None, exc
        run.w.fault_hook = self

    def __call__(self, side, method, args):
        if self.fired is not None:
            return
        if (self.side is None or side == self.side) and (self.method is None or method == self.method):
            if self.nth > 0:
                self.nth -= 1
                return
            self.fired = (side, method)
            self.run.trace.append("FAULT:%s:%s" % ("LR"[side], method))
            import cloudsync.exceptions as ex
            raise getattr(ex, self.exc)("injected")

    def disarm(self):
        self.run.w.fault_hook = None


def scen_fault_unsync(run, r1, r2, g1, target, where, again, edit2=False):
    """a transient fault strikes the upload (or the local delete) inside the un-request: the local edit must not be lost"""
    p = place(run, where)
    run.user(1, "create", p, 1)
    run.files[p]["protected"] = True
    if not run.quiesce():
        return
    run.request(p, r1)
    if not run.quiesce():
        return
    run.user(0, "write", p, 7)
    gap(run, g1)
    f = Fault(run, *target)
    run.unrequest(p, r2)
    f.disarm()
    if again is not None:
        if edit2 and p in run.w.tree(0):
            run.user(0, "write", p, 8)          # a second user edit before the retry
        gap(run, again)
        run.unrequest(p, r2)
    run.quiesce()


def scen_fault_request(run, r1, target, where, g):
    """a transient fault strikes the download / local create inside the request"""
    p = place(run, where)
    run.user(1, "create", p, 1)
    if not run.quiesce():
        return
    f = Fault(run, *target)
    run.request(p, r1)
    f.disarm()
    gap(run, g)
    if run.files[p]["dirty"] != "L":
        run.user(1, "write", p, 9)
    run.quiesce()


def fam_random_fault(run, nops, nth):
    """random history; one transient fault at the nth engine-issued provider call"""
    Fault(run, None, None, nth)
    return fam_random(run, nops)


def fault_cases(rng):
    import itertools
    c = []
    c += [("funsync",) + x for x in itertools.product(ROUTES, ROUTES, ("", "L", "LS"), ((1, "upload"), (0, "delete"), (0, "download")),
                                                      ("root", "dir"), (None, "", "LRS"), (False, True))]
    c += [("frequest",) + x for x in itertools.product(ROUTES, ((1, "download"), (0, "create"), (0, "mkdir")), ("root", "dir"), ("", "S", "Q"))]
    rng.shuffle(c)
    return c


SCEN.update({"funsync": scen_fault_unsync, "frequest": scen_fault_request})


# --------------------------------------------------------------------------------------------------------------------
# model tie: records of what the real code did -> (driver line, what the real code answered)

def _b(*xs):
    return "".join("T" if x else "F" for x in xs) or "-"


GATE_ORDER = ("superFinished", "localOid", "localExists", "requested", "remoteDir", "remotePath", "localPath", "translates")
FILTER_ORDER = ("inExclude", "localChanged", "inRequest", "remoteDir", "remoteChanged", "isLatest", "localOid", "remotePath")
LIST_ORDER = ("hasLocal", "hasRent", "rentLocalPath", "pathsMatch", "localGone", "remoteGone", "localVisible", "remoteVisible")


def filter_line(f):
    return "filter %s %s %s" % (_b(*[f[k] for k in FILTER_ORDER]), _b(*f["callbacks"]), _b(f["localPath"], f["localPathExists"]))


def tie_lines(run):
    """-> list of (kind, driver line, real answer, detail)"""
    out = []
    for f, fin, notes, path in run.gate_records:
        real = "%s %s" % (_b(fin), "-" if not notes else "+".join(notes))
        out.append(("gate", "gate " + _b(*[f[k] for k in GATE_ORDER]), real, {"features": f, "path": path}))
    for f, o in run.filter_records:
        if "unexpected_notifications" in f:
            out.append(("filter", "filter FFFFFFFF - FF", "unexpected skip notifications %r" % (f["unexpected_notifications"],), f))
            continue
        line = filter_line(f)
        real = _b(o["included"]) + ("?" if o["notified"] is None else _b(o["notified"])) + _b(o["reqAfter"], o["exclAfter"], o["cleared"])
        out.append(("filter", line, real, {"features": f}))
    for fs, n in run.filter_groups:
        # one pass of the filter over several entries with the same remote path: number of skip notifications
        for f in fs:
            out.append(("filtergroup", filter_line(f), "%d/%d" % (n, len(fs)), {"group": id(fs), "features": fs}))
    for kind, targeted, before, after, f, extra in run.set_records:
        pre = {(False, False): [], (True, False): ["q0"], (False, True): ["q0", "u0"]}.get(before)
        if pre is None:
            out.append(("sets", "sets", "entry in both sets before the call", {"before": before}))
            continue
        call = [("q" if kind == "request" else "u") + ("0" if targeted else "1")]
        if kind in ("unrequest-aborted", "nocall"):
            call = []          # an exception inside the flush / the local delete leaves both sets as they were
        want = {(False, False): "-;-", (True, False): "0;-", (False, True): "-;0"}.get(after, "both")
        line = ("sets " + " ".join(pre + call)).strip()
        # the model answers for entries 0 and 1; project on entry 0
        out.append(("sets", line, want, {"call": kind, "targeted": targeted, "before": before, "after": after}))
    for b, f, a, cleared in run.syncent_records:
        out.append(("syncent", "syncent " + _b(b[0], b[1], f["localPath"], f["localPathExists"]), _b(a[0], a[1], cleared), {"features": f}))
    st = run.cs.state
    for ident, (ent, calls) in run.set_history.items():
        line = "sets " + " ".join(c + "0" if c != "n" else "q1" for c in calls)
        after = (ent in st.requestset, ent in st.excludeset)
        want = {(False, False): "-;-", (True, False): "0;-", (False, True): "-;0"}.get(after, "both")
        out.append(("setseq", line, want, {"calls": calls}))
    for r in run.unsync_records:
        real = real_unsync_actions(r)
        if real is None:
            continue
        ents = r["ents"]
        newer = {e[3]: e[4] for e in r["log"] if e[0] == "G" and e[1] == LOCAL}
        at_state = {e[1]: e for e in r["log"] if e[0] == "S"}
        for e in ents:
            if e["id"] in at_state:
                e["localPath"], e["localInfo"] = at_state[e["id"]][2], at_state[e["id"]][3]
                if at_state[e["id"]][4]:
                    e["lpath"] = at_state[e["id"]][4]
        real = real_unsync_actions(r)
        fe = [_b(e["requested"], e["localPath"], e["localInfo"], newer.get(e["id"], False)) for e in ents]
        if r["route"] == "o":
            line = "unsyncoid %s %s" % (_b(r["found"]), fe[0] if fe else "FFFF")
        else:
            line = "unsyncpath %s %s" % (_b(r.get("translates", True)), " ".join(fe))
        out.append(("unsync", line.strip(), real, {"route": r["route"], "result": r["res"]}))
    out.extend(run.info_records)
    for f, got in run.list_records:
        real = "-" if not got else ("T" if got == [True] else "F" if got == [False] else "multiple:%r" % got)
        out.append(("list", "list " + _b(*[f[k] for k in LIST_ORDER]), real, {"features": f}))
    return out


def real_unsync_actions(r):
    """program-order action string of one real un-request call, in the model's vocabulary (None = outside the model:
    more than one requested entry at the path)"""
    ents = r["ents"]
    if r["route"] != "o" and len([e for e in ents if e["requested"]]) > 1:
        return None
    idx = {e["id"]: i for i, e in enumerate(ents)}
    lpaths = {e["lpath"]: i for i, e in enumerate(ents) if e["lpath"]}
    ev = []          # (position in world.calls, order, token)
    windows = []
    open_w = None
    for n, e in enumerate(r["log"]):
        if e[0] == "G" and e[1] == LOCAL and open_w is None:
            ev.append((e[2], n, "G%d" % idx.get(e[3], 9)))
        elif e[0] == "F":
            open_w = e[1]
            ev.append((e[1], n, "F%d" % idx.get(e[2], 9)))
        elif e[0] == "f":
            windows.append((open_w, e[1]))
            open_w = None
        elif e[0] == "C" and open_w is None and e[1] == LOCAL:
            ev.append((e[2], n, "C%d" % idx.get(e[3], 9)))
        elif e[0] == "I" and open_w is None and e[2] in lpaths:
            ev.append((e[1], n, "I%d" % lpaths[e[2]]))
    toks = [t for _p, _n, t in sorted(ev, key=lambda x: x[1])]
    # direct provider writes (outside every flush window), placed by their position among the logged events
    direct = [(i, s, m) for (i, s, m, _err) in r["writes"] if not any(a <= i < b for a, b in windows)]
    merged = []
    evs = sorted(ev, key=lambda x: x[1])
    di = 0
    for pos, _n, t in evs:
        while di < len(direct) and direct[di][0] < pos:
            merged.append("w%s%s0" % (direct[di][1], direct[di][2]))
            di += 1
        merged.append(t)
    while di < len(direct):
        merged.append("w%s%s0" % (direct[di][1], direct[di][2]))
        di += 1
    # a direct write is attributed to the entry whose local side is cleared next
    for i, t in enumerate(merged):
        if t.startswith("w"):
            nxt = [x for x in merged[i + 1:] if x.startswith("C")]
            if nxt:
                merged[i] = t[:-1] + nxt[0][1:]
    out = []
    for t in merged:
        out.append(t)
        if t.startswith("C"):
            i = int(t[1:])
            if i < len(r["moved"]) and r["moved"][i]:
                out.append("M%s" % t[1:])
    for i, mv in enumerate(r["moved"]):
        if mv and ("M%d" % i) not in out:
            out.append("M%d" % i)
    if r["res"] == "ok":
        out.append("none" if (r["none"] and r["route"] != "o") else "ok")
    elif r["res"] == "CloudFileNotFoundError":
        out.append("!NotFound")
    elif r["res"] == "TypeError":
        out.append("!TypeError")
    else:
        out.append("!" + r["res"])
    return " ".join(out)


def group_disagreements(ties, answers):
    """skip notifications of filter passes over entries sharing a remote path: compare the count"""
    groups = {}
    for kind, line, real, detail in ties:
        if kind == "filtergroup":
            g = groups.setdefault(detail["group"], {"want": int(real.split("/")[0]), "got": 0, "lines": [], "detail": detail})
            g["got"] += 1 if answers[line][1] == "T" else 0
            g["lines"].append(line)
    return [{"kind": "filtergroup", "driver_line": " ; ".join(g["lines"]), "model": "%d skip notifications" % g["got"],
             "implementation": "%d skip notifications" % g["want"], "detail": {"features": g["detail"]["features"]}}
            for g in groups.values() if g["got"] != g["want"]]


def tie_agrees(kind, model, real):
    if kind == "filtergroup":
        return True          # decided per group by group_disagreements
    if kind == "filter" and "?" in real:
        return all(r == "?" or r == m for r, m in zip(real, model)) and len(real) == len(model)
    if kind in ("sets", "setseq"):
        model = ";".join("0" if "0" in x.split(",") else "-" for x in model.split(";"))
        return model == real
    if kind == "unsync":
        rt = real.split()
        if rt and rt[-1].startswith("!") and rt[-1] not in ("!NotFound", "!TypeError"):
            # the call was cut short by an exception raised inside it (provider fault): program order up to there
            return model.split()[:len(rt) - 1] == rt[:-1]
        return model == real
    return model == real


# --------------------------------------------------------------------------------------------------------------------
# known findings (exact replays on the plain engine)

def replay_unrequest_folder():
    """request + un-request of a FOLDER: the local folder is deleted and stays unmirrored at quiescence"""
    run = SmartRun("oid-oid", random.Random(1))
    try:
        run.user(1, "mkdir", "/d")
        if not run.quiesce():
            return None
        if run.w.tree(0).get("/d") != ("d", None):
            return None
        r1 = run.api(run.cs.smart_sync_path, run.w.roots[0] + "/d", LOCAL)[0]
        r2 = run.api(run.cs.smart_unsync_path, run.w.roots[0] + "/d", LOCAL)[0]
        run.checks = []
        q = run.quiesce()
        run.user(1, "create", "/d/f", 3)
        q = run.quiesce() and q
        tl, tr = run.trees()
        return bool(r1 == "ok" and r2 == "ok" and q and "/d" in tr and "/d" not in tl)
    finally:
        run.close()


def replay_hidden_after_early_unrequest():
    """step R; remote create /f2; step R; request by id (raises AttributeError: the entry has no path yet, but it already
    entered the request set); un-request by id; quiescence: the remote-only file is missing from the merged listing"""
    run = SmartRun("oid-oid", random.Random(1))
    try:
        run.step("R")
        run.user(1, "create", "/f2", 2)
        run.step("R")
        a = run.request("/f2", "o")
        b = run.unrequest("/f2", "o")
        run.checks = []
        q = run.quiesce()
        names = [i.name for i in run.cs.smart_listdir_path(run.w.roots[0])]
        tl, tr = run.trees()
        return bool(a == "err" and b == "ok" and q and "/f2" in tr and "/f2" not in tl and "f2" not in names)
    finally:
        run.close()


def replay_stale_name_after_rename():
    """oid-oid: remote mkdir /d1, create /d1/f2; quiesce; request by id; quiesce; un-request by id; quiesce; remote rename
    /d1/f2 -> /d1/f2r; quiesce: the listing of /local/d1 shows `f2` (a name that exists on neither side) and not `f2r`"""
    run = SmartRun("oid-oid", random.Random(1))
    try:
        run.user(1, "mkdir", "/d1")
        run.user(1, "create", "/d1/f2", 1)
        if not run.quiesce():
            return None
        a = run.request("/d1/f2", "o")
        run.quiesce()
        b = run.unrequest("/d1/f2", "o")
        run.quiesce()
        run.tree_obligations = False
        run.w.user(1, "rename", run.w.roots[1] + "/d1/f2", run.w.roots[1] + "/d1/f2r")
        q = run.quiesce()
        names = sorted(i.name for i in run.cs.smart_listdir_path(run.w.roots[0] + "/d1"))
        tl, tr = run.trees()
        return bool(a == "ok" and b == "ok" and q and "/d1/f2r" in tr and "/d1/f2" not in tr and not [k for k in tl if k.startswith("/d1/")]
                    and "f2r" not in names and "f2" in names)
    finally:
        run.close()


KNOWN = {"unrequested-file-remote-rename-stale-name": replay_stale_name_after_rename,
         "unrequest-folder-unmirrors": replay_unrequest_folder,
         "unrequest-before-first-look-hides-remote-file": replay_hidden_after_early_unrequest}


# --------------------------------------------------------------------------------------------------------------------
# the check

FLAVOURS_C20 = list(FLAVOURS)          # calibrated: see DELIVERY_C20.md


def plan(tier, seed):
    """-> list of (family, flavour, storage, pred, pred2, case, run seed)"""
    rng = rng_for(seed, "c20-plan")
    n_scen, n_rand, n_fault, n_rfault, n_probe = (420, 260, 110, 60, 90) if tier == "quick" else (7000, 5000, 1620, 1100, 1800)
    preds = list(PREDICATES)
    out = []
    scen = scen_cases(rng)
    fcs = fault_cases(rng)

    def env(i):
        fl = FLAVOURS_C20[i % len(FLAVOURS_C20)] if rng.random() < 0.6 else rng.choice(["oid-oid", "oid-oid", "path-oidf"])
        return fl, rng.choice(["mock", "mock", "sqlite"]), rng.choice(preds), rng.choice([None, None, "txt"])
    for i in range(n_scen):
        out.append(("scen",) + env(i) + (scen[i % len(scen)], rng.getrandbits(30)))
    for i in range(n_rand):
        out.append(("random",) + env(i) + ((rng.randint(2, 10),), rng.getrandbits(30)))
    for i in range(n_fault):
        out.append(("scen",) + env(i) + (fcs[i % len(fcs)], rng.getrandbits(30)))
    for i in range(n_rfault):
        out.append(("rfault",) + env(i) + ((rng.randint(2, 9), i % 9), rng.getrandbits(30)))
    for i in range(n_probe):
        out.append(("probe",) + env(i) + ((rng.randint(8, 22),), rng.getrandbits(30)))
    return out


def execute(item):
    fam, fl, storage, pred, pred2, case, rseed = item
    run = SmartRun(fl, random.Random(rseed), storage=storage, pred=pred, pred2=pred2, translate=_no_translate if fam == "probe" else None,
                   alt_hash=bool(rseed & 1))
    run.family, run.case = fam, case
    try:
        if fam == "scen":
            SCEN[case[0]](run, *case[1:])
        elif fam == "random":
            fam_random(run, case[0])
        elif fam == "probe":
            fam_probe(run, case[0])
        else:
            fam_random_fault(run, case[0], case[1])
        run.ties = tie_lines(run)
        run.final_summary = run.summary({"family": fam, "case": list(case), "run_seed": rseed})
    finally:
        run.close()
    return run


def hist_add(h, k, n=1):
    h[k] = h.get(k, 0) + n


def replay_file(res, path):
    """./check C20 --replay <file>: re-executes the recorded run (family, flavour, storage, predicates, case, run seed) on the
    real code and lets the Lean monitor decide its obligations again"""
    import json
    d = json.load(open(path if os.path.isabs(path) or os.path.exists(path) else os.path.join(VERIF, path)))
    if "run_seed" not in d:
        print("replay file names no run (%s)" % d.get("kind"))
        return
    preds = d.get("auto_sync_predicates") or []
    pred = preds[0] if preds else "none"
    pred2 = preds[1] if len(preds) > 1 else None

    def tup(x):
        return tuple(tup(y) for y in x) if isinstance(x, list) else x
    r = execute((d["family"], d["flavour"], d["storage"], pred, pred2, tup(d["case"]), d["run_seed"]))
    lines = [c[0] for c in r.checks]
    verdicts = run_driver(LAYER, lines) if lines else []
    bad = [(c, v) for c, v in zip(r.checks, verdicts) if v != "ok"]
    print("replayed %s/%s on %s: %d obligations, %d rejected, %d hard failures" % (d["family"], d["case"], d["flavour"], len(lines), len(bad), len(r.hard)))
    for (line, kind, pos), v in bad[:3]:
        print("  %s: %s   after: %s" % (kind, v, " ".join(r.trace[:pos][-12:])))
        res.violation(dict(r.final_summary, monitor_verdict=v, obligation=kind, schedule_until_violation=r.trace[:pos]))
    for h in r.hard[:1]:
        res.violation(h)


def run(res, tier, seed, proof_broken, replay):
    if replay:
        replay_file(res, replay)
        return
    opens, fixed = load_known_findings(PID)
    # 2. known findings, replayed exactly on the real code
    for ident, fn in KNOWN.items():
        if ident in opens:
            hit = fn()
            if hit:
                res.known.append("%s :: %s" % (ident, opens[ident]))
            else:
                res.notes.append("known finding %s no longer reproduces (stale)" % ident)
    # 3. model tie + trace refinement
    items = plan(tier, seed)
    model_lines, model_real = {}, []         # line -> index ; (kind, line, real, detail, run)
    spec_lines, spec_meta = {}, []
    hists = {k: {} for k in ("family", "flavour", "storage", "predicates", "user_ops", "api_calls", "check_kinds", "gate_vectors",
                             "filter_vectors", "listing_vectors", "unsync_actions", "scenario_kinds")}
    hard, keys, nontrivial = [], set(), set()
    n_runs = 0
    for item in items:
        r = execute(item)
        n_runs += 1
        hist_add(hists["family"], r.family)
        hist_add(hists["flavour"], r.flavour)
        hist_add(hists["storage"], r.storage)
        hist_add(hists["predicates"], "%s+%s" % (r.pred_name, r.pred2_name))
        if r.family == "scen":
            hist_add(hists["scenario_kinds"], r.case[0])
        useq = []
        for t in r.trace:
            if t.startswith("U"):
                hist_add(hists["user_ops"], t.split(":")[0] + ":" + t.split(":")[1])
                useq.append(t)
            elif t.startswith("Q"):
                hist_add(hists["api_calls"], t.split(":")[0] + "=" + t.split("=")[-1])
                useq.append(t)
            elif t.startswith("FAULT"):
                hist_add(hists["api_calls"], t)
        key = (r.flavour, r.pred_name, r.pred2_name, tuple(useq))
        keys.add(key)
        if any(x.startswith("Q") and x.endswith("=ok") for x in useq) or any(fin for _f, fin, _n, _p in r.gate_records):
            nontrivial.add(key)
        for kind, line, real, detail in r.ties:
            model_lines.setdefault(line, len(model_lines))
            model_real.append((kind, line, real, detail, r))
            if kind == "gate":
                hist_add(hists["gate_vectors"], line.split()[1] + "->" + real.replace(" ", ""))
            elif kind == "filter":
                hist_add(hists["filter_vectors"], "/".join(line.split()[1:]) + "->" + real)
            elif kind in ("list", "info", "infooid"):
                hist_add(hists["listing_vectors"], kind + ":" + "/".join(line.split()[1:]) + "->" + real)
            elif kind == "unsync":
                hist_add(hists["unsync_actions"], real.replace(" ", ","))
        for line, kind, pos in r.checks:
            hist_add(hists["check_kinds"], kind)
            if line not in spec_lines:
                spec_lines[line] = len(spec_meta)
                spec_meta.append((line, kind, pos, r))
        for h in r.hard:
            hard.append(h)
    ml = list(model_lines)
    manswers = dict(zip(ml, run_driver(LAYER, ml))) if ml else {}
    sl = [m[0] for m in spec_meta]
    sanswers = run_driver(LAYER, sl) if sl else []
    disagreements = []
    for kind, line, real, detail, r in model_real:
        if not tie_agrees(kind, manswers[line], real):
            disagreements.append({"kind": kind, "driver_line": line, "model": manswers[line], "implementation": real, "detail": detail,
                                  "run": r.final_summary})
            if len(disagreements) >= 5:
                break
    seen_groups = set()
    by_run = {}
    for kind, line, real, detail, r in model_real:
        if kind == "filtergroup":
            by_run.setdefault(id(r), (r, []))[1].append((kind, line, real, detail))
    for r, ties in by_run.values():
        for d in group_disagreements(ties, manswers):
            d["run"] = r.final_summary
            disagreements.append(d)
    rejects = []
    bad_proto = [(l, v) for l, v in zip(sl, sanswers) if v != "ok" and not v.startswith("reject")]
    if bad_proto:
        raise HarnessError("driver protocol error on %r -> %r" % bad_proto[0])
    for (line, kind, pos, r), v in zip(spec_meta, sanswers):
        if v != "ok":
            d = dict(r.final_summary)
            d.update({"monitor_verdict": v, "obligation": kind, "monitor_line": line, "schedule_until_violation": r.trace[:pos]})
            rejects.append(d)
    res.coverage.update({
        "evaluations": len(model_real) + sum(hists["check_kinds"].values()), "programs": n_runs,
        "traces_validated_against_impl": n_runs, "monitor_lines_distinct": len(sl), "model_lines_distinct": len(ml),
        "distinct_nontrivial": len(nontrivial), "distinct_runs": len(keys),
        "rule": "runs of the real SmartCloudSync (deterministic World, smart=True) over 8 provider flavours x dict/SQLite storage x 0-2 "
                "auto-sync predicates: enumerated scenarios (request->un-request->request->remote edit; local edit then un-request "
                "before/after event intake and upload; un-request of never-requested / locally created / unknown files; remote deletes "
                "while unrequested, requested, un-requested; requests before the folder is mirrored or the engine saw the file; local "
                "creations in new local folders), all three call routes (local path, remote path, remote id), random interleaved "
                "histories, and one-shot transient provider faults inside request / un-request / engine steps.  Every engine step, "
                "API call and quiescence is an obligation decided by the Lean monitor; every real pre_sync gate call, filter "
                "evaluation, set operation, un-request call and listing row is diffed against the Lean model.  distinct = distinct "
                "(flavour, predicates, user operations and API calls with results); non-trivial = a request/un-request took effect "
                "or the gate finished an entry without transfer",
        "samples": [{"run": spec_meta[0][3].final_summary, "monitor_line": spec_meta[0][0]}] if spec_meta else [],
        "disagreements_checked": len(disagreements) + len(rejects) + len(hard),
        "model_tie_evaluations": {k: len([1 for m in model_real if m[0] == k]) for k in ("gate", "filter", "filtergroup", "sets", "setseq", "syncent", "unsync", "list", "info", "infooid")},
        "histograms": {k: (dict(sorted(v.items(), key=lambda kv: -kv[1])[:60])) for k, v in hists.items()},
        "distinct_feature_vectors": {k: len(hists[k]) for k in ("gate_vectors", "filter_vectors", "listing_vectors", "unsync_actions")},
        "fingerprints": fingerprints(FP_SPEC),
    })
    res.assumptions += [
        "step-atomic engine semantics: user operations and API calls interleave between, not inside, engine steps",
        "harness determinisation (sequential ids, virtual clock, insertion-ordered sets incl. intersection/union) selects one admissible behaviour",
        "generator restrictions by construction: names never reused; no change to a file on one side while a change of the other side is "
        "unsynchronised; files sharing content with another file are never deleted; requests address files, not folders; no un-request of a "
        "file whose request raised before the next quiescence (known findings cover the excluded shapes)",
        "the generic engine (SyncManager.sync) is not modelled: it enters the gate as `superFinished` and the un-request path as `flush`; "
        "what it does is checked only through the trace-refinement obligations",
        "engine restarts are outside the property's quantifier (request / exclude sets are in-memory only)"]
    # 4. verdicts
    for d in rejects[:3]:
        res.violation(d)
    for h in hard[:3]:
        res.violation(h)
    broken = list(proof_broken)
    if disagreements:
        broken.append("model tie: %s" % {k: disagreements[0][k] for k in ("kind", "driver_line", "model", "implementation")})
    if broken and not rejects and not hard:
        hit = search_oracle(tier, seed)
        if hit:
            hit["broken"] = broken
            hit["first_disagreements"] = disagreements[:2]
            res.violation(hit)
        else:
            res.violation({"property": PID, "kind": "proof obligation or model tie no longer checks", "broken": broken,
                           "first_disagreements": disagreements[:3]}, no_input=True)


def search_oracle(tier, seed):
    """step 4: the property's own statements (py_check) on the implementation over a widened generator"""
    for k in range(1, 4 if tier == "quick" else 8):
        for item in plan("quick", seed + 7919 * k):
            r = execute(item)
            for h in r.hard:
                return dict(h, kind="property statement fails on implementation")
            for line, kind, pos in r.checks:
                v = py_check(line)
                if v != "ok":
                    d = dict(r.final_summary)
                    d.update({"kind": "property statement fails on implementation", "oracle_verdict": v, "obligation": kind,
                              "schedule_until_violation": r.trace[:pos]})
                    return d
    return None


if __name__ == "__main__":
    standard_main(PID, run)
