"""C16 — offline-runnable providers honour the provider contract.

Correspondence (step 3):
  * MockProvider in its four flavours (oid_is_path x case_sensitive) vs the Lean model `CS.MockFS`
    (driver layer `mockfs`): random call sequences, every return value / error class, the drained
    `events()` stream, cursors, and a dump of the whole object table (`MockFS._objects`, tombstones
    and stale keys included) are compared.  Object ids of id-style flavours are `str(id(obj))` in
    the code; the harness substitutes a MockFSObject subclass with sequential ids.
  * FileSystemProvider on a real temporary directory vs the reference tree `CS.Tree` (driver layer
    `tree`) directly; its hash functions vs `CS.FsHash` (layer `fshash`, digest symbolic: the driver
    prints the byte string the digest is applied to and blake2b is applied here); watchdog events
    are asynchronous: polled with a deadline, labelled partial.
  * Provider.connect/disconnect/reconnect vs `CS.Conn` (layer `connect`).
Oracle (step 4, only after a break): the contract statements evaluated on the implementation
against a pure-Python reference tree (independent of the Lean model), under exactly the theorems'
guards."""
import hashlib
import io
import os
import shutil
import sys
import tempfile
import time

sys.path.insert(0, os.path.dirname(os.path.abspath(__file__)))
from common import *  # noqa

PID = "C16"
FLAVOURS = [(True, True), (True, False), (False, True), (False, False)]       # (oid_is_path, case_sensitive)
# the four flavours, plus the two event-translation switches of MockProvider (filter_events, oidless_folder_trash_events)
MOCK_CONFIGS = [f + (False, False) for f in FLAVOURS] * 3 + [(False, True, True, False), (False, False, False, True)]
NAMES = ["a", "A", "b", "B", "c", "é", "É", "中", "a.b", "A.B", ".x", "x.", "...", " ", "ab", "Ab"]
MOCK_ONLY_NAMES = [".", ".."]
BAD_MOCK = "a`b"
NOT_INTS = ["3", 1.0, b"1", (1,)]           # values current_cursor must refuse with CloudCursorError
LONG = "L" * 300
FP_SPEC = {
    "cloudsync/providers/mock.py": [
        "MockFS.store", "MockFS.unstore", "MockFS.get", "MockFS.fs_objects", "MockFS.register_event",
        "MockFSObject.__init__", "MockFSObject.hash", "MockFSObject.size", "MockEvent.__init__", "MockEvent.serialize",
        "MockProvider._store_object", "MockProvider._unstore_object", "MockProvider._translate_event",
        "MockProvider.events", "MockProvider.upload", "MockProvider.listdir", "MockProvider.create",
        "MockProvider.download", "MockProvider.rename", "MockProvider._rename_single_object", "MockProvider.mkdir",
        "MockProvider._delete", "MockProvider.exists_oid", "MockProvider.exists_path", "MockProvider.hash_oid",
        "MockProvider.hash_data", "MockProvider.info_path", "MockProvider.info_oid", "MockProvider.connect_impl"],
    "cloudsync/provider.py": ["Provider.connect", "Provider.reconnect", "Provider.disconnect",
                              "Provider._verify_parent_folder_exists"],
    "cloudsync/providers/filesystem.py": [
        "get_hash", "FileSystemProvider._fast_hash_data", "FileSystemProvider._fast_hash_path", "FileSystemProvider.hash_data",
        "FileSystemProvider.upload", "FileSystemProvider.create", "FileSystemProvider.download", "FileSystemProvider.rename",
        "FileSystemProvider.mkdir", "FileSystemProvider.delete", "FileSystemProvider.listdir", "FileSystemProvider.exists_oid",
        "FileSystemProvider.exists_path", "FileSystemProvider.__info_path", "FileSystemProvider.__exit__",
        "FileSystemProvider._convert_watchdog_event", "FileSystemProvider.events"],
}


# ------------------------------------------------------------------ contents (opaque tokens)

class Contents:
    """token <-> bytes; size classes 0, <1 KiB, 1-2 KiB, >2 KiB, with the 1024/2048 boundaries and
    pairs that agree on their first and last KiB (what the filesystem provider's fast hash reads)."""

    def __init__(self, rng):
        rb = lambda n: bytes(rng.getrandbits(8) for _ in range(n))
        head, tail = rb(1024), rb(1024)
        self.vals = [b"", b"x", rb(rng.randint(2, 1023)), rb(1023), rb(1024), rb(1025), rb(rng.randint(1026, 2046)),
                     rb(2047), rb(2048), rb(2049), head + rb(952) + tail, head + rb(952) + tail,
                     head + tail, head + b"\x00" + tail, rb(4097), rb(5000), b"y"]
        assert len(set(self.vals)) == len(self.vals)
        self.tok = {v: i for i, v in enumerate(self.vals)}
        self.md5 = {hashlib.md5(v).digest(): i for i, v in enumerate(self.vals)}
        self.b2b = {hashlib.blake2b(v, digest_size=32).digest(): i for i, v in enumerate(self.vals)}

    def size_class(self, t):
        n = len(self.vals[t])
        return "0" if n == 0 else "<1K" if n < 1024 else "1-2K" if n <= 2048 else ">2K"

    def hash_tok(self, h, table):
        if h is None:
            return "~"
        return "h%d" % table[h] if h in table else "h?" + (h.hex() if isinstance(h, bytes) else repr(h))

    def data_tok(self, b):
        return str(self.tok.get(b, "?%d" % len(b)))


# ------------------------------------------------------------------ real providers

def err_tok(e):
    n = type(e).__name__
    return {"CloudFileNotFoundError": "!NotFound", "CloudFileExistsError": "!Exists", "CloudFileNameError": "!Name",
            "CloudDisconnectedError": "!Disconnected", "CloudTokenError": "!Token", "CloudCursorError": "!Cursor",
            "AssertionError": "!Other", "ValueError": "!Other"}.get(n, "!Other:" + n)


class RealMock:
    """MockProvider with sequential object ids (the only harness-level change)."""

    def __init__(self):
        import_repo()
        import cloudsync.providers.mock as mm
        self.mm = mm
        self.orig = mm.MockFSObject
        counter = self.counter = [0]

        class SeqObj(self.orig):
            def __init__(s, path, object_type, oid_is_path, hash_func, contents=None, mtime=None):
                super().__init__(path, object_type, oid_is_path, hash_func, contents, mtime)
                if not oid_is_path:
                    s.oid = str(counter[0])
                counter[0] += 1
        mm.MockFSObject = SeqObj
        self.kind = "mock"

    def new(self, oip, cs, filt=False, oidless=False):
        self.counter[0] = 0
        p = self.mm.MockProvider(oip, cs, filter_events=filt, oidless_folder_trash_events=oidless)
        p._forbidden_chars = ["`"]
        p.connect(p._test_creds)
        self.p, self.oip, self.cs = p, oip, cs
        return p

    def restore(self):
        self.mm.MockFSObject = self.orig

    # canonicalisation hooks
    def oid_out(self, oid):
        return oid

    def oid_in(self, oid):
        return oid

    def hash_table(self, ct):
        return ct.md5


class RealFS:
    """FileSystemProvider on a fresh namespace directory under one temporary directory."""

    def __init__(self):
        import_repo()
        from cloudsync.providers.filesystem import FileSystemProvider
        self.cls = FileSystemProvider
        shm = "/dev/shm" if os.path.isdir("/dev/shm") and os.access("/dev/shm", os.W_OK) else None
        self.base = os.path.realpath(tempfile.mkdtemp(prefix="c16_", dir=shm))     # /tmp is slow in the sandbox
        self._old_tempdir = tempfile.tempdir
        tempfile.tempdir = self.base            # FileSystemProvider.upload stages its data in tempfile.gettempdir()
        self.n = 0
        self.p = None
        self.kind = "fs"
        self.oip, self.cs = True, True
        # exceptions in watchdog's observer threads (Observer.on_any_event iterates a set that
        # ObserverPool.discard mutates) are recorded, not printed
        import threading
        self.thread_errors = []
        self._old_hook = threading.excepthook
        threading.excepthook = lambda args: self.thread_errors.append("%s: %s" % (args.exc_type.__name__, args.exc_value))

    def new(self):
        """a fresh, empty namespace directory.  One provider object is kept for the whole run (one inotify
        instance): the namespace is switched once the previous directory's events have quiesced, because
        ObserverPool.discard races with the observer thread iterating its callbacks."""
        self.n += 1
        ns = os.path.join(self.base, "ns%d" % self.n)
        if self.p is None:
            self.p = self.cls()
            self.p.namespace_id = ns
            self.p.connect({"k": "v"})
        else:
            self.quiesce()
            self.p.namespace_id = ns
        self.ns = self.p.namespace_id
        return self.p

    def wait_watching(self):
        """the observer of a fresh namespace starts asynchronously: wait until it demonstrably reports (a probe file's
        creation and deletion), then drain"""
        probe = os.path.join(self.ns, ".c16probe")
        deadline = time.monotonic() + 3.0
        with open(probe, "wb"):
            pass
        seen = False
        while not seen and time.monotonic() < deadline:
            seen = any(e.oid == probe for e in self.p.events())
            if not seen:
                time.sleep(0.005)
        os.unlink(probe)
        self.quiesce()
        list(self.p.events())

    def quiesce(self):
        self.settle()
        list(self.p.events())

    def settle(self):
        """wait until no more events arrive (does not consume them)"""
        last, same = -1, 0
        for _ in range(400):
            cur = self.p.latest_cursor
            same = same + 1 if cur == last else 0
            if same >= 2:
                break
            last = cur
            time.sleep(0.012)

    def close(self):
        if self.p is not None:
            try:
                self.quiesce()
                self.p.disconnect()
            except Exception:  # noqa
                pass
            self.p = None

    def cleanup(self):
        self.close()
        time.sleep(0.05)
        import threading
        threading.excepthook = self._old_hook
        tempfile.tempdir = self._old_tempdir
        shutil.rmtree(self.base, ignore_errors=True)

    def oid_out(self, oid):
        if oid is None:
            return None
        if oid == self.ns:
            return "/"
        if oid.startswith(self.ns + "/"):
            return oid[len(self.ns):]
        return "?" + oid

    def oid_in(self, oid):
        return self.ns if oid == "/" else self.ns + oid

    def hash_table(self, ct):
        return ct.b2b


def info_line(be, ct, i, with_name=True):
    kind = "D" if i.otype.value == "dir" else "F"
    size = i.size if (kind == "F" or be.kind == "mock") else 0
    name = (i.name or "") if with_name else ""
    return "info %s %s %s %s %d %s" % (kind, enc_str(be.oid_out(i.oid)), ct.hash_tok(i.hash, be.hash_table(ct)),
                                       enc_str(i.path), size, enc_str(name))


def entry_tok(be, ct, i):
    kind = "D" if i.otype.value == "dir" else "F"
    return ",".join([kind, enc_str(be.oid_out(i.oid)), ct.hash_tok(i.hash, be.hash_table(ct)), enc_str(i.path),
                     str(i.size), enc_str(i.name or "")])


def event_tok(be, e):
    kind = "D" if e.otype.value == "dir" else "F"
    return ",".join([kind, enc_str(be.oid_out(e.oid)), enc_str(e.path), enc_bool(bool(e.exists)),
                     enc_str(be.oid_out(e.prior_oid)), str(e.new_cursor)])


def real_apply(be, ct, op):
    """Run one operation on the real provider, return the canonical result line."""
    p = be.p
    try:
        k = op[0]
        if k == "create":
            return info_line(be, ct, p.create(op[1], io.BytesIO(ct.vals[op[2]])), be.kind == "mock")
        if k == "mkdir":
            return "oid " + enc_str(be.oid_out(p.mkdir(op[1])))
        if k == "upload":
            return info_line(be, ct, p.upload(be.oid_in(op[1]), io.BytesIO(ct.vals[op[2]])), be.kind == "mock")
        if k == "download":
            f = io.BytesIO()
            p.download(be.oid_in(op[1]), f)
            return "data " + ct.data_tok(f.getvalue())
        if k == "rename":
            return "oid " + enc_str(be.oid_out(p.rename(be.oid_in(op[1]), op[2])))
        if k == "delete":
            r = p.delete(be.oid_in(op[1]))
            return "unit" if r is None else "?delete-returned"
        if k == "infop":
            i = p.info_path(op[1])
            return "none" if i is None else info_line(be, ct, i, be.kind == "mock")
        if k == "infoo":
            i = p.info_oid(be.oid_in(op[1]))
            return "none" if i is None else info_line(be, ct, i, be.kind == "mock")
        if k == "existsp":
            return enc_bool(p.exists_path(op[1]))
        if k == "existso":
            return enc_bool(p.exists_oid(be.oid_in(op[1])))
        if k == "listdir":
            return " ".join(["list"] + sorted(entry_tok(be, ct, i) for i in list(p.listdir(be.oid_in(op[1])))))
        if k == "hasho":
            try:
                return "hash " + ct.hash_tok(p.hash_oid(be.oid_in(op[1])), be.hash_table(ct))
            except Exception as e:  # noqa
                # FileSystemProvider.hash_oid raises for a missing path where Provider.hash_oid (and the mock)
                # answer None; both mean "no such file": canonicalised
                if be.kind == "fs" and err_tok(e) == "!NotFound":
                    return "hash ~"
                raise
        if k == "hashd":
            return "hash " + ct.hash_tok(p.hash_data(io.BytesIO(ct.vals[op[1]])), be.hash_table(ct))
        if k == "events":
            return " ".join(["events"] + [event_tok(be, e) for e in p.events()])
        if k == "latest":
            return "cur %d" % (p.latest_cursor + 1)
        if k == "current":
            return "cur %d" % (p.current_cursor + 1)
        if k == "setcur":
            # model value = Python value + 1 (the initial cursor -1 is 0); "x" = something that is not an int
            p.current_cursor = None if op[1] is None else (NOT_INTS[len(str(p.latest_cursor)) % len(NOT_INTS)] if op[1] == "x"
                                                           else op[1] - 1)
            return "unit"
        if k == "dump":
            rows = []
            for key, o in p._mock_fs._objects.items():
                rows.append(",".join([enc_str(key), enc_str(o.oid), enc_str(o.path), enc_bool(o.exists),
                                      "D" if o.type == o.DIR else "F",
                                      "~" if o.contents is None else ct.data_tok(o.contents)]))
            return " ".join(["dump"] + sorted(rows))
    except Exception as e:  # noqa
        return err_tok(e)
    raise HarnessError("bad op %r" % (op,))


def op_line(op, ct, target_none=False):
    k = op[0]
    c = lambda t: "%d %d" % (t, len(ct.vals[t]))
    if k == "create":
        return "create %s %s" % (enc_str(op[1]), c(op[2]))
    if k in ("mkdir", "infop", "existsp"):
        return "%s %s" % (k, enc_str(op[1]))
    if k == "upload":
        return "upload %s %s" % (enc_str(op[1]), c(op[2]))
    if k in ("download", "delete", "infoo", "existso", "listdir", "hasho"):
        return "%s %s" % (k, enc_str(op[1]))
    if k == "rename":
        return "rename %s %s" % (enc_str(op[1]), enc_str(op[2]))
    if k == "hashd":
        return "hashd %s" % c(op[1])
    if k == "setcur":
        return "setcur %s" % ("~" if op[1] is None else op[1])
    return k


def canon_model(line):
    if line.startswith("list") or line.startswith("dump"):
        t = line.split(" ")
        return " ".join([t[0]] + sorted(t[1:]))
    return line


# ------------------------------------------------------------------ pure-Python reference tree (the contract)

class RefNode:
    def __init__(self, kind, tok, disp, oid):
        self.kind, self.tok, self.disp, self.oid = kind, tok, disp, oid


class RefTree:
    """The provider contract as a plain dictionary: folded path tuple -> node.  Independent of the Lean
    model.  Object ids are opaque: the tree records the id the implementation handed out."""

    def __init__(self, oip, cs, bad, name_first=True):
        self.oip, self.cs, self.bad, self.name_first = oip, cs, bad, name_first
        self.nodes = {(): RefNode("D", None, (), None)}

    @staticmethod
    def parts(path):
        return tuple(x for x in path.split("/") if x)

    def key(self, parts):
        return parts if self.cs else tuple(x.lower() for x in parts)

    def pathstr(self, parts):
        return "/" + "/".join(parts)

    def by_oid(self, oid):
        for k, n in self.nodes.items():
            if n.oid == oid:
                return k
        return None

    def children(self, k):
        return [c for c in self.nodes if len(c) == len(k) + 1 and c[:len(k)] == k]

    def parent_err(self, k):
        par = k[:-1]
        if not par:
            return None
        if par not in self.nodes:
            return "!NotFound"
        return None if self.nodes[par].kind == "D" else "!Exists"

    def is_bad(self, parts):
        return any(self.bad(x) for x in parts)

    # each method returns ("err", class) or ("ok", payload); the tree is mutated only on "ok"
    def create(self, path, tok):
        parts = self.parts(path)
        k = self.key(parts)
        if self.name_first and self.is_bad(parts):
            return ("err", "!Name")
        if k in self.nodes:
            return ("err", "!Exists")
        e = self.parent_err(k)
        if e:
            return ("err", e)
        if self.is_bad(parts):
            return ("err", "!Name")
        self.nodes[k] = RefNode("F", tok, parts, None)
        return ("ok", k)

    def mkdir(self, path):
        parts = self.parts(path)
        k = self.key(parts)
        e = self.parent_err(k)
        if e:
            return ("err", e)
        if self.is_bad(parts):
            return ("err", "!Name")
        if k in self.nodes:
            if self.nodes[k].kind == "F":
                return ("err", "!Exists")
            return ("ok", (k, False))
        self.nodes[k] = RefNode("D", None, parts, None)
        return ("ok", (k, True))

    def upload(self, k, tok):
        if k is None:
            return ("err", "!NotFound")
        if self.nodes[k].kind == "D":
            return ("err", "!Exists")
        self.nodes[k].tok = tok
        return ("ok", k)

    def download(self, k):
        if k is None:
            return ("err", "!NotFound")
        if self.nodes[k].kind == "D":
            return ("err", "!Exists")
        return ("ok", self.nodes[k].tok)

    def delete(self, k):
        if k is None:
            return ("ok", None)
        if self.nodes[k].kind == "D" and self.children(k):
            return ("err", "!Exists")
        n = self.nodes.pop(k)
        return ("ok", n)

    def rename(self, sk, path):
        """returns ("ok", (new key, replaced node or None, moved?))"""
        if sk is None:
            return ("err", "!NotFound")
        parts = self.parts(path)
        dk = self.key(parts)
        sn = self.nodes[sk]
        conflict = None if dk == sk else self.nodes.get(dk)
        e = self.parent_err(dk)
        if e:
            return ("err", e)
        if conflict is not None:
            if conflict.kind != sn.kind or conflict.kind == "F" or self.children(dk):
                return ("err", "!Exists")
            del self.nodes[dk]
        if sn.disp == parts:
            return ("ok", (sk, conflict, False))
        moved = {}
        for k in list(self.nodes):
            if k[:len(sk)] == sk:
                n = self.nodes.pop(k)
                n.disp = parts + n.disp[len(sk):]
                moved[dk + k[len(sk):]] = n
        self.nodes.update(moved)
        return ("ok", (dk, conflict, True))


class GenState:
    """what the generator knows: the shadow reference tree plus ids it has seen (live and stale)"""

    def __init__(self, rng, be, ct, names, bad_names):
        self.rng, self.be, self.ct, self.names, self.bad_names = rng, be, ct, names, bad_names
        self.seen_oids = []
        self.saved_cursors = []        # model values (Python value + 1) returned by current_cursor / latest_cursor
        self.after_setcur = False
        self.last_oid = {}             # path -> the id last handed out for it (live or since trashed)
        self.touched = set()           # every path mentioned in this sequence (swept after mutations)

    def resolve(self, ref, arg):
        """('@', path) stands for "the id of whatever is / was last at path" (a stale or bogus id if nothing is)"""
        if not (isinstance(arg, tuple) and arg and arg[0] == "@"):
            return arg
        path = arg[1]
        n = ref.nodes.get(ref.key(ref.parts(path)))
        if n is not None and n.oid is not None:
            return n.oid
        if path in self.last_oid:
            return self.last_oid[path]
        return path if self.be.kind == "fs" or ref.oip else "nope"

    def collision_dst(self, ref, src_oid):
        """a rename destination chosen to collide: an occupied name of any kind, the object's own path, a case variant of an
        existing name (occupied or not), a name that is a prefix / extension of an existing one, a trashed name"""
        rng = self.rng
        alls = [n.disp for k, n in ref.nodes.items() if k != ()]
        sk = ref.by_oid(src_oid)
        own = ref.nodes[sk].disp if sk is not None else None
        r = rng.random()
        if own is not None and r < 0.12:
            return tuple(own)
        if own and r < 0.27:
            return tuple(own[:-1]) + (own[-1].swapcase(),)
        if alls and r < 0.60:
            return tuple(rng.choice(alls))
        if alls and r < 0.72:
            q = rng.choice(alls)
            return tuple(q[:-1]) + (q[-1].swapcase(),)
        if alls and r < 0.82:
            q = rng.choice(alls)
            nm = rng.choice([q[-1] + "b", q[-1][:-1] or "a", q[-1] + ".b"])
            if nm in (".", "..") and self.be.kind == "fs":        # special to the OS, not names
                nm = "a"
            return tuple(q[:-1]) + (nm,)
        trashed = [pth for pth in self.last_oid if ref.nodes.get(ref.key(ref.parts(pth))) is None]
        if trashed and r < 0.92:
            return ref.parts(rng.choice(trashed))
        return self.rand_parts(ref)

    def rand_parts(self, ref, want_new=None):
        rng = self.rng
        dirs = [n.disp for n in ref.nodes.values() if n.kind == "D"]
        alls = [n.disp for n in ref.nodes.values()]
        r = rng.random()
        if r < 0.45 and dirs:                      # fresh or colliding name in an existing folder
            return tuple(rng.choice(dirs)) + (rng.choice(self.names),)
        if r < 0.70 and alls:                      # something that exists, possibly in another case
            p = rng.choice(alls)
            if rng.random() < 0.3:
                p = tuple(x.swapcase() if rng.random() < 0.5 else x for x in p)
            return tuple(p)
        if r < 0.78 and alls:                      # below a file or below something missing
            return tuple(rng.choice(alls)) + (rng.choice(self.names), rng.choice(self.names))[:rng.randint(1, 2)]
        if r < 0.82 and dirs and self.bad_names:
            return tuple(rng.choice(dirs)) + (rng.choice(self.bad_names),)
        return tuple(rng.choice(self.names) for _ in range(rng.randint(0, 3)))

    def rand_path(self, ref):
        return "/" + "/".join(self.rand_parts(ref))

    def rand_oid(self, ref):
        rng = self.rng
        live = [n.oid for k, n in ref.nodes.items() if n.oid is not None]
        r = rng.random()
        if r < 0.75 and live:
            return rng.choice(live)
        if r < 0.90 and self.seen_oids:
            return rng.choice(self.seen_oids)
        if r < 0.95:
            return self.rand_path(ref)
        return rng.choice(["nope", "17", "/", ""]) if self.be.kind == "mock" else rng.choice(["/nope", "/a/nope"])


OP_WEIGHTS = [("mkdir", 14), ("create", 15), ("upload", 8), ("download", 5), ("rename", 17), ("delete", 10), ("infop", 5),
              ("infoo", 5), ("existsp", 3), ("existso", 3), ("listdir", 7), ("hasho", 2), ("hashd", 1), ("events", 5),
              ("latest", 2), ("current", 2), ("setcur", 5)]
FS_OPS = {"mkdir", "create", "upload", "download", "rename", "delete", "infop", "infoo", "existsp", "existso", "listdir",
          "hasho", "hashd"}


def gen_op(gs, ref, allowed=None):
    rng = gs.rng
    names, weights = zip(*[(n, w) for n, w in OP_WEIGHTS if allowed is None or n in allowed])
    k = rng.choices(names, weights)[0]
    tok = lambda: rng.randrange(len(gs.ct.vals))
    if k == "create":
        return ("create", gs.rand_path(ref), tok())
    if k in ("mkdir", "infop", "existsp"):
        return (k, gs.rand_path(ref))
    if k == "upload":
        return ("upload", gs.rand_oid(ref), tok())
    if k == "rename":
        src = gs.rand_oid(ref)
        if rng.random() < 0.5:
            return ("rename", src, "/" + "/".join(gs.collision_dst(ref, src)))
        return ("rename", src, gs.rand_path(ref))
    if k == "hashd":
        return ("hashd", tok())
    if k == "setcur":
        # rewind / fast-forward: a previously saved cursor, the initial cursor (-1 -> 0), the cursor after exactly one
        # event (0 -> 1), 1 -> 2, the latest cursor, None, beyond the end, or something that is not an int
        r = rng.random()
        if r < 0.35 and gs.saved_cursors:
            return ("setcur", rng.choice(gs.saved_cursors))
        return ("setcur", rng.choice([0, 1, 1, 2, None, "x", gs.saved_cursors[-1] if gs.saved_cursors else 0,
                                      rng.randint(0, 12)]))
    if k in ("events", "latest", "current"):
        return (k,)
    return (k, gs.rand_oid(ref))


def cursor_class(v, gs):
    if v is None:
        return "None"
    if v == "x":
        return "not-int"
    return {0: "-1", 1: "0", 2: "1"}.get(v, "saved" if v in gs.saved_cursors else "other-int")


def shadow_update(gs, ref, op, res):
    """Keep the generator's shadow tree in step with what the *implementation* answered (never used for a
    verdict in step 3; only to aim the generator)."""
    k = op[0]
    be = gs.be
    try:
        if res.startswith("!") or res.startswith("?"):
            return
        if k == "create":
            r = ref.create(op[1], op[2])
            if r[0] == "ok":
                ref.nodes[r[1]].oid = dec_str(res.split(" ")[2])
                gs.seen_oids.append(ref.nodes[r[1]].oid)
                gs.last_oid[op[1]] = ref.nodes[r[1]].oid
        elif k == "mkdir":
            r = ref.mkdir(op[1])
            if r[0] == "ok":
                ref.nodes[r[1][0]].oid = dec_str(res.split(" ")[1])
                gs.seen_oids.append(ref.nodes[r[1][0]].oid)
                gs.last_oid[op[1]] = ref.nodes[r[1][0]].oid
        elif k == "upload":
            ref.upload(ref.by_oid(op[1]), op[2])
        elif k == "delete":
            ref.delete(ref.by_oid(op[1]))
        elif k == "rename":
            sk = ref.by_oid(op[1])
            new_oid = dec_str(res.split(" ")[1])
            r = ref.rename(sk, op[2])
            if r[0] == "ok":
                dk = r[1][0]
                if ref.oip:
                    for kk, n in ref.nodes.items():
                        if kk[:len(dk)] == dk:
                            n.oid = ref.pathstr(n.disp)
                    ref.nodes[dk].oid = new_oid
                gs.seen_oids.append(new_oid)
                gs.last_oid[op[2]] = new_oid
    except Exception:  # noqa  (the shadow is best effort)
        pass


MUTATING = {"create", "mkdir", "upload", "rename", "delete"}


def op_paths(op):
    """the paths a (possibly symbolic) call mentions"""
    out = []
    for i, x in enumerate(op[1:], 1):
        if isinstance(x, tuple) and x and x[0] == "@":
            out.append(x[1])
        elif isinstance(x, str) and x.startswith("/") and (op[0] in ("create", "mkdir", "infop", "existsp") or (op[0] == "rename" and i == 2)):
            out.append(x)
    return out


def sweep_ops(gs, ref):
    """after a mutating call: info of every path mentioned so far in the sequence, the bytes of every file and the listing
    of every folder the shadow tree believes is there (a lost or altered object shows either way)"""
    ops = []
    for path in sorted(gs.touched | {"/"}):
        ops.append(("infop", path))
        n = ref.nodes.get(ref.key(ref.parts(path)))
        if n is not None and n.oid is not None:
            ops.append(("download", n.oid) if n.kind == "F" else ("listdir", n.oid))
    return ops


def run_sequences(be, ct, rng, nseq, nlen, flavours, layer, names, bad_names, allowed=None, with_dump=False,
                  programs=None, sweep=0.0, one_namespace=False):
    """Adaptive generation against the real provider (or the given symbolic programs); returns (driver lines, real
    results, per-line meta).  `sweep`: probability of a full read-back of every mentioned path after a mutating call."""
    lines, reals, ops_meta = [], [], []
    nseq = len(programs) if programs is not None else nseq
    for s in range(nseq):
        fl = flavours[s % len(flavours)] if programs is None else programs[s][0]
        if one_namespace and s > 0:
            pass                                   # programs live in their own top-level folders of one namespace
        elif be.kind == "mock":
            be.new(*fl)
            lines.append("reset " + " ".join(enc_bool(x) for x in (tuple(fl) + (False, False))[:4]))
            ref = RefTree(fl[0], fl[1], lambda x: "`" in x)
            ref.nodes[()].oid = "/" if fl[0] else "0"
        else:
            be.new()
            lines.append("reset T F F")
            ref = RefTree(True, True, lambda x: len(x) > 255, name_first=False)
            ref.nodes[()].oid = "/"
        if not (one_namespace and s > 0):
            reals.append("unit")
            ops_meta.append(("reset", fl))
        gs = GenState(rng, be, ct, names, bad_names)
        prog = None if programs is None else programs[s][1]
        n = rng.randint(3, nlen) if prog is None else len(prog)

        def emit(op, tag=None):
            res = real_apply(be, ct, op)
            lines.append(op_line(op, ct))
            reals.append(res)
            ops_meta.append((tag or (op[0] if op[0] != "setcur" else "setcur:" + cursor_class(op[1], gs)), fl))
            return res

        for i in range(n):
            if prog is None:
                op = gen_op(gs, ref, allowed)
                if gs.after_setcur and rng.random() < 0.75:
                    op = ("events",)               # a rewind is followed by a drain
            else:
                op = prog[i]
            if op[0] == "sweep":
                for sop in sweep_ops(gs, ref):
                    if be.kind == "fs" and not fs_op_ok(ref, sop):
                        continue
                    emit(sop, "sweep")
                continue
            gs.touched.update(op_paths(op))
            op = tuple(gs.resolve(ref, x) for x in op)
            gs.after_setcur = op[0] == "setcur"
            if be.kind == "fs" and (op[0] not in FS_OPS or not fs_op_ok(ref, op)):
                continue
            if be.kind == "mock" and not mock_op_deterministic(be, op):
                ops_meta.append(("skipped-set-order", fl))
                lines.append("current")
                reals.append(real_apply(be, ct, ("current",)))
                continue
            res = emit(op)
            if op[0] in ("current", "latest") and res.startswith("cur "):
                gs.saved_cursors.append(int(res.split(" ")[1]))
            shadow_update(gs, ref, op, res)
            if op[0] in MUTATING and sweep and (sweep >= 1.0 or rng.random() < sweep):
                for sop in sweep_ops(gs, ref):
                    if be.kind == "fs" and not fs_op_ok(ref, sop):
                        continue
                    emit(sop, "sweep")
        if with_dump:
            lines.append("dump")
            reals.append(real_apply(be, ct, ("dump",)))
            ops_meta.append(("dump", fl))
    return lines, reals, ops_meta


def prefixed(prog, pre):
    """the same program inside its own top-level folder `pre` (one namespace can then host many programs)"""
    def fix(x):
        if isinstance(x, tuple) and x and x[0] == "@":
            return ("@", pre + x[1])
        return pre + x if isinstance(x, str) and x.startswith("/") else x
    return [("mkdir", pre)] + [tuple([op[0]] + [fix(x) for x in op[1:]]) for op in prog]


def collision_programs():
    """Every kind of name collision, as small symbolic programs (ids are written ('@', path) = "whatever is / was at path").
    rename: source kind (file, empty folder, non-empty folder) x destination state (free, file, empty folder, non-empty
    folder, trashed file, trashed folder, the object itself, a case variant of itself, a case variant occupied by a file /
    an empty folder / a non-empty folder, a name that is a prefix or an extension of the source's, below a file, below a
    missing folder), for three name pairs; create / mkdir / upload / delete over occupied, trashed and case-variant names."""
    progs = []
    pairs = [("a", "A"), ("é", "É"), ("a.b", "A.B")]

    def make(kind, path, tok):
        if kind == "F":
            return [("create", path, tok)]
        if kind == "D0":
            return [("mkdir", path)]
        return [("mkdir", path), ("create", path + "/k", tok + 1), ("mkdir", path + "/sub")]

    for pi, (x, X) in enumerate(pairs):
        first = len(progs)
        # a folder whose children were created through another spelling of its name (and of its parent's), then moved
        for tag, dst in (("free", "/p/zz"), ("free-other-folder", "/q/" + x), ("case-of-self", "/p/" + X)):
            progs.append(("rename:Dv->%s" % tag,
                          [("mkdir", "/p"), ("mkdir", "/q"), ("mkdir", "/p/" + x), ("create", "/p/" + X + "/k", 4),
                           ("mkdir", "/P/" + x + "/sub"), ("create", "/P/" + X + "/sub/deep", 5), ("events",),
                           ("rename", ("@", "/p/" + x), dst), ("events",), ("sweep",), ("listdir", ("@", dst)),
                           ("infop", dst + "/k"), ("infop", dst + "/sub/deep"), ("rename", ("@", dst), "/p/" + x),
                           ("events",), ("sweep",)]))
        for sk in ("F", "D0", "D1"):
            src = "/p/" + x
            base = [("mkdir", "/p"), ("mkdir", "/q")] + make(sk, src, 3)
            dsts = [
                ("free", [], "/p/zz"), ("free-other-folder", [], "/q/" + x),
                ("file", make("F", "/p/b", 10), "/p/b"), ("empty-folder", make("D0", "/p/b", 0), "/p/b"),
                ("non-empty-folder", make("D1", "/p/b", 11), "/p/b"),
                ("trashed-file", make("F", "/p/b", 10) + [("delete", ("@", "/p/b"))], "/p/b"),
                ("trashed-folder", make("D0", "/p/b", 0) + [("delete", ("@", "/p/b"))], "/p/b"),
                ("self", [], src), ("case-of-self", [], "/p/" + X),
                ("case-variant-file", make("F", "/p/" + X, 12), "/p/" + X),
                ("case-variant-empty-folder", make("D0", "/p/" + X, 0), "/p/" + X),
                ("case-variant-non-empty-folder", make("D1", "/p/" + X, 13), "/p/" + X),
                ("extension-occupied", make("F", "/p/" + x + "b", 9), "/p/" + x + "b"),
                ("prefix-occupied", make("D0", "/p/" + x[:1], 0) if len(x) > 1 else make("D0", "/p/" + x + x, 0),
                 "/p/" + (x[:1] if len(x) > 1 else x + x)),
                ("below-file", make("F", "/p/f", 2), "/p/f/in"), ("below-missing", [], "/p/none/in"),
                ("into-empty-folder", make("D0", "/q/t", 0), "/q/t/" + X),
            ]
            for tag, setup, dst in dsts:
                progs.append(("rename:%s->%s" % (sk, tag),
                              base + setup + [("events",), ("rename", ("@", src), dst), ("events",), ("sweep",),
                                              ("listdir", ("@", "/p")), ("listdir", ("@", "/q")),
                                              ("rename", ("@", dst), src), ("events",), ("delete", ("@", "/p/b")), ("sweep",)]))
        # create / mkdir / upload / delete over occupied, trashed and case-variant names
        for tk in ("F", "D0", "D1"):
            tgt = "/p/" + x
            base = [("mkdir", "/p")] + make(tk, tgt, 4)
            progs.append(("create-over:%s" % tk, base + [("create", tgt, 5), ("create", "/p/" + X, 6), ("create", tgt + "/in", 7),
                                                         ("events",), ("sweep",)]))
            progs.append(("mkdir-over:%s" % tk, base + [("mkdir", tgt), ("mkdir", "/p/" + X), ("mkdir", tgt + "/in"), ("events",), ("sweep",)]))
            progs.append(("upload-to:%s" % tk, base + [("upload", ("@", tgt), 8), ("upload", ("@", "/p/" + X), 9), ("events",), ("sweep",)]))
            progs.append(("delete:%s" % tk, base + [("delete", ("@", tgt)), ("events",), ("delete", ("@", tgt)),
                                                    ("upload", ("@", tgt), 8), ("create", tgt, 9), ("mkdir", tgt),
                                                    ("delete", ("@", "/p/" + X)), ("events",), ("sweep",)]))
        progs[first:] = [("p%d|%s" % (pi, t), o) for t, o in progs[first:]]
    return progs


def mock_op_deterministic(be, op):
    """`rename` of a folder iterates `set(fs_objects())`, whose order is the interpreter's (object addresses).
    Each object beneath the folder gives up its old keys and takes new ones, and the loop stops at the first object
    whose path key is missing.  The outcome depends on the order only in degenerate tables (stale raw-oid keys of a
    path-style case-insensitive provider, a destination beneath the source).  The loop's effect on the key table is
    replayed here for several orders; a call whose outcome differs between them is not compared."""
    if op[0] != "rename":
        return True
    p = be.p
    objs = p._mock_fs._objects
    o = objs.get(op[1])
    if o is None or not o.exists or o.type != o.DIR or o.path is None:
        return True
    kids = []
    for key, v in objs.items():
        if key.startswith("/") and v.path is not None and not any(v is k for k in kids) and v is not o:
            kids.append(v)
    if len(kids) < 2:
        return True

    def simulate(order):
        keys = {k: id(v) for k, v in objs.items()}
        paths = {id(v): v.path for v in kids}
        oids = {id(v): v.oid for v in kids}
        for v in order:
            i = id(v)
            try:
                if not p.is_subpath(o.path, paths[i], strict=True):
                    continue
                newp = p.replace_path(paths[i], o.path, op[2]).rstrip("/")
            except Exception:  # noqa
                return ("raise", sorted(keys.items()), sorted(paths.items()))
            nk = p.normalize_path(paths[i])
            if nk not in keys:
                return ("raise", sorted(keys.items()), sorted(paths.items()))
            del keys[nk]
            keys.pop(oids[i], None)
            paths[i] = newp
            if p.oid_is_path:
                oids[i] = newp
            keys[p.normalize_path(newp)] = i
            keys.setdefault(oids[i], i)
        return ("ok", sorted(keys.items()), sorted(paths.items()))

    import random as _r
    base = simulate(kids)
    orders = [list(reversed(kids))]
    rr = _r.Random(len(kids))
    for _ in range(4):
        sh = list(kids)
        rr.shuffle(sh)
        orders.append(sh)
    return all(simulate(x) == base for x in orders)


def fs_op_ok(ref, op):
    """Calls the reference tree does not define for the filesystem provider (left to the OS) are not generated:
    '.'/'..' never occur in the alphabet; a rename onto a path below the source (EINVAL); deleting or renaming
    the namespace root; a too-long name anywhere but as the leaf of create/mkdir; create/mkdir/download/hash_oid
    through a file."""
    k = op[0]
    paths = [x for x in op[1:] if isinstance(x, str)]
    for p in paths:
        parts = RefTree.parts(p)
        if any(x in (".", "..") for x in parts):
            return False
        if any(len(x) > 255 for x in parts[:-1]):
            return False
        if parts and len(parts[-1]) > 255 and k not in ("create", "mkdir"):
            return False
    if k in ("create", "mkdir"):
        # a path that runs *through* a file (an ancestor other than the parent is a file): ENOTDIR from the OS
        # (-> Exists) where the tree says NotFound (parent missing); left undefined
        parts = ref.key(RefTree.parts(op[1]))
        for j in range(1, len(parts) - 1):
            n = ref.nodes.get(parts[:j])
            if n is not None and n.kind == "F":
                return False
    if k in ("download", "hasho"):
        # FileSystemProvider.download / hash_oid of a path below a *file* let open() raise ENOTDIR (-> Exists)
        # where the tree (and the mock) say NotFound / None; left undefined
        parts = ref.key(RefTree.parts(op[1]))
        for j in range(1, len(parts)):
            n = ref.nodes.get(parts[:j])
            if n is not None and n.kind == "F":
                return False
    if k == "delete" and RefTree.parts(op[1]) == ():
        return False
    if k == "rename":
        s, d = RefTree.parts(op[1]), RefTree.parts(op[2])
        if s == () or (len(d) > len(s) and d[:len(s)] == s):
            return False
    return True


def diff(lines, reals, model, layer, canon_real=lambda x: x):
    dis = []
    for i, (r, m) in enumerate(zip(reals, model)):
        if canon_real(r) != canon_model(m):
            j = i
            while not lines[j].startswith("reset"):
                j -= 1
            seq = lines[j:i + 1]
            if len(seq) > 80:                      # many programs share one namespace: keep the start and the recent calls
                seq = seq[:1] + ["... %d earlier calls ..." % (len(seq) - 61)] + seq[-60:]
            dis.append({"layer": layer, "sequence": seq, "implementation": r, "model": canon_model(m)})
            if len(dis) >= 5:
                break
    return dis


# ------------------------------------------------------------------ filesystem hash functions vs CS.FsHash

def b2(x):
    return hashlib.blake2b(x, digest_size=32).digest()


def fshash_correspondence(fsb, rng, tier):
    """_fast_hash_data / hash_data / _fast_hash_path (with its cache) on real files vs the model.  The model's
    digest is symbolic: it prints the bytes the digest is applied to."""
    p = fsb.new()
    lens = [0, 1, 2, 100, 1023, 1024, 1025, 1026, 1500, 2047, 2048, 2049, 2050, 3000, 4096, 5000]
    lens += [rng.randint(0, 6000) for _ in range(10 if tier == "quick" else 200)]
    lines, reals = [], []
    fpath = os.path.join(fsb.ns, "hashfile")
    mt = 1000
    for n in lens:
        data = bytes(rng.getrandbits(8) for _ in range(n))
        hx = data.hex() or "-"
        fh, final = p._fast_hash_data(io.BytesIO(data))
        lines.append("fast " + hx)
        reals.append((fh, enc_bool(final)))
        lines.append("data " + hx)
        reals.append((p.hash_data(io.BytesIO(data)), None))
        # the cached path hash: same file name, explicit mtimes; sometimes the mtime is kept and only the middle changes
        with open(fpath, "wb") as f:
            f.write(data)
        keep = rng.random() < 0.3
        if not keep:
            mt += 1
        os.utime(fpath, (mt, mt))
        lines.append("path %d %s" % (mt, hx))
        reals.append((p._fast_hash_path(fpath), None))
        if n > 2100 and rng.random() < 0.5:
            d2 = bytearray(data)
            d2[1050] ^= 0xFF
            with open(fpath, "wb") as f:
                f.write(bytes(d2))
            os.utime(fpath, (mt, mt))          # same mtime, same first and last KiB: the cache answers
            lines.append("path %d %s" % (mt, bytes(d2).hex()))
            reals.append((p._fast_hash_path(fpath), None))
        if rng.random() < 0.3:
            p._clear_hash_cache(fpath)
            lines.append("clear")
            reals.append(None)
    os.unlink(fpath)
    model = run_driver("fshash", lines)
    dis = []
    for ln, r, m in zip(lines, reals, model):
        if r is None:
            ok = m == "unit"
        else:
            t = m.split(" ")
            pre = b"" if t[0] == "-" else bytes.fromhex(t[0])
            ok = b2(pre) == r[0] and (r[1] is None or t[1] == r[1])
        if not ok:
            dis.append({"layer": "fshash", "line": ln[:80], "implementation": repr(r)[:80], "model": m[:80]})
    return len(lines), dis


def fs_hash_law(fsb, sizes):
    """the hash law on the real FileSystemProvider: hash_data(bytes) == hash reported by info for a file with
    exactly those bytes.  Returns the list of failing sizes."""
    p = fsb.new()
    bad = []
    for i, n in enumerate(sizes):
        data = bytes((j * 7 + n) % 251 for j in range(n))
        info = p.create("/h%d" % i, io.BytesIO(data))
        hd = p.hash_data(io.BytesIO(data))
        hi = p.info_path("/h%d" % i).hash
        if not (hd == info.hash == hi == p.hash_oid(info.oid)):
            bad.append(n)
    return bad


# ------------------------------------------------------------------ filesystem events (asynchronous; partial)

def fs_events_check(fsb, ct, rng, rounds):
    """every successful mutation is eventually reported with the right id and existence flag; polled with a
    deadline because watchdog delivers asynchronously.  Returns (checked, right, mangled, missing): `mangled`
    counts reports that carry exactly the signature of the open finding fs-events-non-move-treated-as-move
    (oid "/" , exists False, the real id in prior_oid)."""
    p = fsb.new()
    fsb.quiesce()
    right, mangled, missing = 0, [], []

    def wait_for(oid, exists, prior, what):
        nonlocal right
        seen, mang = [], False
        deadline = time.monotonic() + 5.0
        while time.monotonic() < deadline:
            for e in p.events():
                t = (fsb.oid_out(e.oid), bool(e.exists), fsb.oid_out(e.prior_oid))
                seen.append(t)
                if t[0] == oid and t[1] == exists and (prior is None or t[2] == prior):
                    right += 1
                    return
                if e.oid == "/" and not e.exists and t[2] == oid:
                    mang = True
            if mang:
                mangled.append(what)
                return
            time.sleep(0.01)
        missing.append({"expected": what, "seen": seen[-6:]})

    for r in range(rounds):
        d = "/d%d" % r
        p.mkdir(d)
        wait_for(d, True, None, "mkdir %s -> event(oid=%s, exists=True)" % (d, d))
        f = d + "/f"
        info = p.create(f, io.BytesIO(ct.vals[rng.randrange(len(ct.vals))]))
        wait_for(f, True, None, "create %s -> event(oid=%s, exists=True)" % (f, f))
        p.upload(info.oid, io.BytesIO(b"changed%d" % r))
        wait_for(f, True, None, "upload %s -> event(oid=%s, exists=True)" % (f, f))
        g = d + "/g"
        p.rename(info.oid, g)
        wait_for(g, True, f, "rename %s -> %s: event(oid=%s, prior_oid=%s, exists=True)" % (f, g, g, f))
        p.delete(fsb.oid_in(g))
        wait_for(g, False, None, "delete %s -> event(oid=%s, exists=False)" % (g, g))
    return rounds * 5, right, mangled, missing


# ------------------------------------------------------------------ filesystem cursors vs CS.FsCursor

def fscursor_correspondence(fsb, ct, rng, rounds):
    """FileSystemProvider.latest_cursor / current_cursor (getter and setter) / events() on a dedicated provider object
    vs the model `CS.FsCursor` (layer `fscursor`).  How many events watchdog delivers for a mutation is the OS's
    business: the harness waits until `latest_cursor` is stable and tells the model how many arrived (`recv n`);
    a comparison during which more events arrived is discarded and counted."""
    from cloudsync.exceptions import CloudCursorError
    p = fsb.cls()
    ns = os.path.join(fsb.base, "cursor_ns")
    p.namespace_id = ns
    p.connect({"k": "v"})
    lines, reals, discarded = ["reset"], ["unit"], 0

    def settle():
        last, same = -1, 0
        for _ in range(200):
            cur = p.latest_cursor
            same = same + 1 if cur == last else 0
            last = cur
            if same >= 3:
                return cur
            time.sleep(0.04)
        return last

    known = 0
    saved = [0]
    try:
        for r in range(rounds):
            for j in range(rng.randint(1, 3)):
                f = "/c%d_%d" % (r, j)
                p.create(f, io.BytesIO(b"x" * rng.randint(0, 10)))
                if rng.random() < 0.4:
                    p.delete(p.info_path(f).oid)
            lat = settle()
            if lat != known:
                lines.append("recv %d" % (lat - known))
                reals.append("unit")
                known = lat
            lines.append("latest")
            reals.append("cur %d" % p.latest_cursor)
            for _ in range(rng.randint(2, 5)):
                v = rng.choice([0, 1, lat, lat + 1, lat + 2, max(0, lat - 1), None, "x", rng.choice(saved), rng.randint(0, lat + 3)])
                try:
                    p.current_cursor = None if v is None else (NOT_INTS[rng.randrange(len(NOT_INTS))] if v == "x" else v)
                    res = "unit"
                except CloudCursorError:
                    res = "!Cursor"
                except Exception as e:  # noqa
                    res = err_tok(e)
                got = "cur %d" % p.current_cursor
                drained = "drain" + "".join(" %d" % e.new_cursor for e in p.events())
                after = "cur %d" % p.current_cursor
                if p.latest_cursor != known:          # events arrived meanwhile: resynchronise, do not compare
                    discarded += 1
                    lat = settle()
                    list(p.events())
                    lines += ["recv %d" % (lat - known), "setcur ~"]
                    reals += ["unit", "unit"]
                    known = lat
                    p.current_cursor = None
                    continue
                lines += ["setcur %s" % ("~" if v is None else v), "current", "drain", "current"]
                reals += [res, got, drained, after]
                saved.append(p.current_cursor)
    finally:
        time.sleep(0.1)
        try:
            p.disconnect()
        except Exception:  # noqa
            pass
    model = run_driver("fscursor", lines)
    dis = []
    for i, (r, m) in enumerate(zip(reals, model)):
        if r != m:
            dis.append({"layer": "fscursor", "sequence": lines[max(0, i - 8):i + 1], "implementation": r, "model": m})
            if len(dis) >= 3:
                break
    return len(lines), discarded, dis


def fs_cursor_law(fsb):
    """the property's statement on the real FileSystemProvider: after `current_cursor = c` for a saved cursor c
    (0, 1, latest-1, latest) a drain of events() yields exactly the events stamped c+1 … latest; a non-int is refused."""
    from cloudsync.exceptions import CloudCursorError
    p = fsb.cls()
    p.namespace_id = os.path.join(fsb.base, "cursor_law_ns")
    p.connect({"k": "v"})
    try:
        for j in range(3):
            p.create("/law%d" % j, io.BytesIO(b"x"))
        last, same = -1, 0
        for _ in range(200):
            cur = p.latest_cursor
            same = same + 1 if cur == last else 0
            last = cur
            if same >= 3:
                break
            time.sleep(0.04)
        lat = p.latest_cursor
        if lat < 2:
            return None
        for c in (0, 1, lat - 1, lat):
            p.current_cursor = c
            got = [e.new_cursor for e in p.events()]
            if p.latest_cursor != lat:
                return None
            if got != list(range(c + 1, lat + 1)):
                return {"provider": "fs", "ops": ["create /law0", "create /law1", "create /law2", "<wait: latest_cursor = %d>" % lat,
                                                  "current_cursor = %d" % c, "list(events())"],
                        "failure": "events() after rewinding to the saved cursor %d yielded the stamps %r, expected %r — "
                                   "mutations after that cursor are never reported" % (c, got, list(range(c + 1, lat + 1)))}
        try:
            p.current_cursor = "3"
            return {"provider": "fs", "ops": ["current_cursor = '3'"], "failure": "a cursor that is not an int was accepted"}
        except CloudCursorError:
            pass
        return None
    finally:
        time.sleep(0.1)
        try:
            p.disconnect()
        except Exception:  # noqa
            pass


# ------------------------------------------------------------------ connect state machine

def connect_correspondence(rng, nseq):
    import_repo()
    from cloudsync.providers.mock import MockProvider
    from cloudsync.exceptions import CloudTokenError

    class IdentityProvider(MockProvider):
        """connect_impl answers with the identity the credentials belong to"""
        def connect_impl(self, creds):
            if not creds:
                raise CloudTokenError()
            if creds["id"] == "!":
                raise CloudTokenError()
            return creds["id"]

    lines, reals = [], []
    for _ in range(nseq):
        p = IdentityProvider(False, True)
        lines.append("reset")
        reals.append("unit")
        for _ in range(rng.randint(1, 10)):
            r = rng.random()
            try:
                if r < 0.6:
                    c = rng.choice(["alice", "bob", "alice", "-", "!", "~"])
                    lines.append("connect " + c)
                    p.connect(None if c == "~" else {"id": "" if c == "-" else c})
                elif r < 0.8:
                    lines.append("disconnect")
                    p.disconnect()
                else:
                    lines.append("reconnect")
                    p.reconnect()
                res = "ok"
            except CloudTokenError:
                res = "!Token"
            except Exception as e:  # noqa
                res = err_tok(e)
            cid = p.connection_id
            reals.append("%s %s %s" % (res, enc_bool(bool(p.connected)), "~" if cid is None else ("-" if cid == "" else cid)))
    model = run_driver("connect", lines)
    return lines, reals, diff(lines, reals, model, "connect")


def connect_law(rng, n):
    """the property's statement on the real base class: once an identity is established, credentials of another
    identity are refused and leave the provider disconnected with its identity unchanged."""
    import_repo()
    from cloudsync.providers.mock import MockProvider
    from cloudsync.exceptions import CloudTokenError

    class IdentityProvider(MockProvider):
        def connect_impl(self, creds):
            if not creds:
                raise CloudTokenError()
            return creds["id"]
    for _ in range(n):
        a, b = rng.sample(["alice", "bob", "carol", "x"], 2)
        p = IdentityProvider(False, True)
        p.connect({"id": a})
        if rng.random() < 0.5:
            p.disconnect()
        try:
            p.connect({"id": b})
            return {"ops": ["connect %s" % a, "connect %s" % b], "failure": "second identity accepted"}
        except CloudTokenError:
            if p.connected or p.connection_id != a:
                return {"ops": ["connect %s" % a, "connect %s" % b], "failure": "refused but connected=%s id=%s" % (p.connected, p.connection_id)}
    return None


# ------------------------------------------------------------------ step-4 oracle: the contract on the implementation

def guard_ok(ref, op, flavour_ci_path):
    """The theorems' hypotheses, evaluated on the reference tree: the root is never deleted or renamed, a rename
    never targets a path strictly beneath its source, an id-style provider is never handed a path as an id, and
    (path-style case-insensitive mock only, see the open findings) every name is already case-folded."""
    k = op[0]
    if not ref.oip and k in ("upload", "download", "rename", "delete", "infoo", "existso", "listdir", "hasho") \
            and op[1].startswith("/"):
        return False           # id-style: ids come from the provider, a path is not an id
    if flavour_ci_path:
        for x in op[1:]:
            if isinstance(x, str) and x != x.lower():
                return False
    if k == "delete":
        if ref.by_oid(op[1]) == ():
            return False
    if k == "rename":
        sk = ref.by_oid(op[1])
        if sk is not None:
            dk = ref.key(ref.parts(op[2]))
            if sk == () or (len(dk) > len(sk) and dk[:len(sk)] == sk):
                return False
    return True


class StreamView:
    """What a consumer of events() believes: per id the last event wins (exists flag).  Path-style ids: a rename event
    retires its prior_oid and re-keys everything known beneath a renamed folder (what the sync engine does)."""

    def __init__(self, prov, oip):
        self.prov, self.oip = prov, oip
        self.exists = {}

    def feed(self, ev):
        if ev.oid is None:
            return
        if self.oip and ev.prior_oid and ev.prior_oid != ev.oid:
            for known in list(self.exists):
                rel = self.prov.is_subpath(ev.prior_oid, known, strict=True)
                if rel:
                    self.exists[ev.oid + rel] = self.exists.pop(known)
            self.exists[ev.prior_oid] = False
        self.exists[ev.oid] = bool(ev.exists)


def contract_oracle(be, ct, rng, flavour, nops, names, bad_names, allowed=None, fixed_ops=None):
    """Runs a guarded random sequence (or the given one) on the real provider and checks every contract clause
    against the pure Python reference tree.  Returns a failure dict (with the operation list) or None."""
    if be.kind == "mock":
        be.new(*flavour)
        ref = RefTree(flavour[0], flavour[1], lambda x: "`" in x)
        root = be.p.info_path("/")
        ref.nodes[()].oid = root.oid
    else:
        be.new()
        ref = RefTree(True, True, lambda x: len(x) > 255, name_first=False)
        ref.nodes[()].oid = "/"
    p = be.p
    htab = be.hash_table(ct)
    gs = GenState(rng, be, ct, names, bad_names)
    done = []
    ci_path = be.kind == "mock" and flavour[0] and not flavour[1]
    log = []                     # every event the contract expects in the stream so far: (oid, exists), index = cursor
    view = StreamView(p, ref.oip)
    if be.kind == "mock":
        log = [(e.oid, bool(e.exists)) for e in p.events()]
    else:
        be.wait_watching()

    def fail(msg):
        return {"provider": be.kind, "flavour": {"oid_is_path": flavour[0], "case_sensitive": flavour[1]},
                "ops": [repr(o) for o in done], "raw_ops": list(done), "failure": msg}

    def expect_info(i, n):
        kind = "D" if i.otype.value == "dir" else "F"
        if kind != n.kind:
            return "info reports kind %s, tree has %s" % (kind, n.kind)
        if be.oid_out(i.oid) != n.oid:
            return "info reports oid %r, object has %r" % (be.oid_out(i.oid), n.oid)
        if i.path != ref.pathstr(n.disp):
            return "info reports path %r, tree has %r" % (i.path, ref.pathstr(n.disp))
        if n.kind == "F":
            if ct.hash_tok(i.hash, htab) != "h%d" % n.tok:
                return "info hash is not the hash of the file's bytes"
            if i.size != len(ct.vals[n.tok]):
                return "info size %s, content has %d bytes" % (i.size, len(ct.vals[n.tok]))
            hd = p.hash_data(io.BytesIO(ct.vals[n.tok]))
            if hd != i.hash:
                return "hash_data(bytes) differs from the hash info reports for a file with those bytes (%d bytes)" % len(ct.vals[n.tok])
        elif i.hash is not None:
            return "directory has a hash"
        return None

    def expect_events(exp):
        """mock (synchronous stream): the events drained after a call must tell, for every id the call changed, its new
        existence (and its kind) — per id the last event wins — and the folded stream must agree with exists_oid for every
        id it ever mentioned.  `exp`: [(oid, exists, kind)]."""
        if be.kind != "mock":
            return None
        evs = list(p.events())
        for e in evs:
            view.feed(e)
        log.extend((e.oid, bool(e.exists)) for e in evs)
        last = {}
        for e in evs:
            kind = "D" if e.otype.value == "dir" else "F"
            if ref.oip and e.prior_oid and e.prior_oid != e.oid:
                last[e.prior_oid] = (False, kind)            # path ids: a rename event retires the id it names as prior
            last[e.oid] = (bool(e.exists), kind)
        want = {}
        for oid, ex, kind in exp:
            want[oid] = (ex, kind)
        for oid, (ex, kind) in want.items():
            if oid not in last:
                return "the call changed id %r (now exists=%s) but events() reported nothing for it: %r" % (
                    oid, ex, [(e.oid, bool(e.exists)) for e in evs])
            if last[oid][0] != ex:
                return "events() reports id %r with exists=%s, it is exists=%s now" % (oid, last[oid][0], ex)
            if last[oid][1] != kind:
                return "events() reports id %r as %s, the object is %s" % (oid, last[oid][1], kind)
        for oid, (ex, _k) in last.items():
            if bool(p.exists_oid(oid)) != ex:
                return "events law: the last event for id %r says exists=%s, exists_oid says %s" % (oid, ex, not ex)
        return None

    def check_all(after):
        """every object of the tree is there with its own bytes and hash, and nothing else answers"""
        for kk, n in ref.nodes.items():
            pth = ref.pathstr(n.disp)
            i = p.info_path(pth)
            if i is None:
                return "%s: object %r of the tree is no longer visible through info_path" % (after, pth)
            m = expect_info(i, n)
            if m:
                return "%s: %r: %s" % (after, pth, m)
            if n.kind == "F":
                f = io.BytesIO()
                try:
                    p.download(i.oid, f)
                except Exception as e:  # noqa
                    return "%s: download of %r raised %s" % (after, pth, err_tok(e))
                if f.getvalue() != ct.vals[n.tok]:
                    return "%s: the bytes of %r changed (%d bytes, were %d)" % (after, pth, len(f.getvalue()), len(ct.vals[n.tok]))
            else:
                try:
                    got = sorted(x.name for x in p.listdir(i.oid))
                except Exception as e:  # noqa
                    return "%s: listdir of %r raised %s" % (after, pth, err_tok(e))
                want = sorted(ref.nodes[c].disp[-1] for c in ref.children(kk))
                if got != want:
                    return "%s: listdir(%r) yields %r, the tree has %r" % (after, pth, got, want)
        return None

    def events_law():
        """the folded event stream (per id: last event wins) agrees with exists_oid for every id it ever mentioned, and
        every live object has been reported as existing.  Filesystem provider: watchdog delivers asynchronously (moves are
        held back up to half a second to pair them), so the law is polled with a deadline — partial."""
        deadline = time.monotonic() + (0.0 if be.kind == "mock" else 4.0)
        while True:
            for e in p.events():
                view.feed(e)
            bad = None
            for oid, said in sorted(view.exists.items(), key=lambda kv: str(kv[0])):
                try:
                    actual = bool(p.exists_oid(oid))
                except Exception as e:  # noqa
                    bad = "exists_oid(%r) raised %s" % (be.oid_out(oid), err_tok(e))
                    break
                if actual != said:
                    bad = ("events law: the last event for id %r says exists=%s, exists_oid says %s"
                           % (be.oid_out(oid), said, actual))
                    break
            if bad is None:
                for kk, n in ref.nodes.items():
                    if kk != () and n.oid is not None and view.exists.get(be.oid_in(n.oid)) is not True:
                        bad = "events law: live object %r (id %r) was never reported as existing by the event stream" % (
                            ref.pathstr(n.disp), n.oid)
                        break
            if bad is None or time.monotonic() >= deadline:
                return bad
            time.sleep(0.05)

    def rewind(k):
        """set current_cursor to a saved value and drain: exactly the events with index > k, in order"""
        from cloudsync.exceptions import CloudCursorError
        if k == "x":
            for bad in NOT_INTS:
                try:
                    p.current_cursor = bad
                except CloudCursorError:
                    continue
                except Exception as e:  # noqa
                    return "current_cursor = %r raised %s, contract says CloudCursorError" % (bad, type(e).__name__)
                return "current_cursor = %r (not an int) was accepted" % (bad,)
            got = [(e.oid, bool(e.exists)) for e in p.events()]
            return None if got == [] else "a refused cursor assignment moved the cursor: drain yielded %r" % (got,)
        if k is None:
            p.current_cursor = None
            got = [(e.oid, bool(e.exists)) for e in p.events()]
            return None if got == [] else "current_cursor = None then events() yielded %r, expected nothing" % (got,)
        if k > len(log) - 1:
            return None
        p.current_cursor = k
        back = p.current_cursor
        got = [(e.oid, bool(e.exists), e.new_cursor) for e in p.events()]
        want = [(log[i][0], log[i][1], i) for i in range(k + 1, len(log))]
        if got == want and back != k:
            return "current_cursor = %d reads back as %r" % (k, back)
        if got != want:
            return ("after current_cursor = %d (a saved cursor; %d events logged) events() yielded %d events %r, expected the "
                    "%d events with index > %d: %r" % (k, len(log), len(got), got[:4], len(want), k, want[:4]))
        return None

    last_mut = None
    for step_no in range(len(fixed_ops) if fixed_ops is not None else nops):
        if last_mut is not None and be.kind == "fs":
            # watchdog adds the watch of a new folder when it *processes* the creation event; a folder renamed before that
            # is never watched and everything created in it goes unreported.  The contract is exercised at the pace of a
            # user: the next call is made once the stream has gone quiet.
            be.settle()
        if last_mut is not None:
            m = check_all("after %r" % (last_mut,))      # a call must not touch any object but its target(s)
            if m:
                return fail(m)
            last_mut = None
        if fixed_ops is not None:
            op = fixed_ops[step_no]
        elif be.kind == "mock" and rng.random() < 0.12:
            op = ("rewind", rng.choice([-1, 0, 0, 1, len(log) - 1, rng.randint(-1, max(0, len(log) - 1)), None, "x"]))
        else:
            op = gen_op(gs, ref, allowed)
        if op[0] == "rewind":
            if be.kind != "mock":
                continue
            done.append(op)
            m = rewind(op[1])
            if m:
                return fail(m)
            continue
        if op[0] in ("setcur", "events", "latest", "current", "sweep"):
            continue
        op = tuple(gs.resolve(ref, x) for x in op)
        if be.kind == "fs" and op[0] not in FS_OPS:
            continue
        if not guard_ok(ref, op, ci_path):
            continue
        if be.kind == "fs" and not fs_op_ok(ref, op):
            continue
        done.append(op)
        if op[0] in MUTATING:
            last_mut = op
        k = op[0]
        res = None
        try:
            if k == "create":
                want = ref.create(op[1], op[2])
                try:
                    i = p.create(op[1], io.BytesIO(ct.vals[op[2]]))
                except Exception as e:  # noqa
                    if want[0] == "ok":
                        del ref.nodes[want[1]]
                    if want != ("err", err_tok(e)):
                        return fail("create raised %s, contract says %r" % (err_tok(e), want))
                    m = expect_events([])
                    if m:
                        return fail(m)
                    continue
                if want[0] != "ok":
                    return fail("create succeeded, contract says %s" % want[1])
                n = ref.nodes[want[1]]
                oid = be.oid_out(i.oid)
                if any(x.oid == oid for x in ref.nodes.values()):
                    return fail("create returned an id (%r) a live object already has" % oid)
                if ref.oip and oid != op[1]:
                    return fail("path-style provider: create returned oid %r for path %r" % (oid, op[1]))
                n.oid = oid
                gs.seen_oids.append(oid)
                gs.last_oid[op[1]] = oid
                m = expect_info(i, n) or expect_events([(i.oid, True, "F")])
                if m:
                    return fail(m)
            elif k == "mkdir":
                want = ref.mkdir(op[1])
                try:
                    oid = be.oid_out(p.mkdir(op[1]))
                except Exception as e:  # noqa
                    if want[0] == "ok" and want[1][1]:
                        del ref.nodes[want[1][0]]
                    if want != ("err", err_tok(e)):
                        return fail("mkdir raised %s, contract says %r" % (err_tok(e), want))
                    continue
                if want[0] != "ok":
                    return fail("mkdir succeeded, contract says %s" % want[1])
                kk, fresh = want[1]
                if fresh:
                    if any(x.oid == oid for x in ref.nodes.values()):
                        return fail("mkdir returned an id (%r) a live object already has" % oid)
                    if ref.oip and oid != op[1]:
                        return fail("path-style provider: mkdir returned oid %r for path %r" % (oid, op[1]))
                    ref.nodes[kk].oid = oid
                    gs.seen_oids.append(oid)
                    gs.last_oid[op[1]] = oid
                    m = expect_events([(be.oid_in(oid), True, "D")])
                else:
                    m = None if oid == ref.nodes[kk].oid else "mkdir of an existing folder returned %r, the folder's id is %r" % (oid, ref.nodes[kk].oid)
                    m = m or expect_events([])
                if m:
                    return fail(m)
            elif k == "upload":
                tk = ref.by_oid(op[1])
                want = ref.upload(tk, op[2])
                try:
                    i = p.upload(be.oid_in(op[1]), io.BytesIO(ct.vals[op[2]]))
                except Exception as e:  # noqa
                    if want != ("err", err_tok(e)):
                        return fail("upload raised %s, contract says %r" % (err_tok(e), want))
                    continue
                if want[0] != "ok":
                    return fail("upload succeeded, contract says %s" % want[1])
                m = expect_info(i, ref.nodes[tk]) or expect_events([(i.oid, True, "F")])
                if m:
                    return fail(m)
            elif k == "download":
                tk = ref.by_oid(op[1])
                want = ref.download(tk)
                f = io.BytesIO()
                try:
                    p.download(be.oid_in(op[1]), f)
                except Exception as e:  # noqa
                    if want != ("err", err_tok(e)):
                        return fail("download raised %s, contract says %r" % (err_tok(e), want))
                    continue
                if want[0] != "ok" or f.getvalue() != ct.vals[want[1]]:
                    return fail("download returned other bytes than the last upload/create, or succeeded where the contract says %r" % (want,))
            elif k == "delete":
                tk = ref.by_oid(op[1])
                want = ref.delete(tk)
                try:
                    p.delete(be.oid_in(op[1]))
                except Exception as e:  # noqa
                    if want != ("err", err_tok(e)):
                        if want[0] == "ok" and want[1] is not None:
                            ref.nodes[tk] = want[1]
                        return fail("delete raised %s, contract says %r" % (err_tok(e), want[:1]))
                    continue
                if want[0] != "ok":
                    return fail("delete succeeded, contract says %s (non-empty folder)" % want[1])
                if want[1] is not None:
                    if p.exists_oid(be.oid_in(op[1])):
                        return fail("exists_oid is still true after delete")
                    if p.exists_path(ref.pathstr(want[1].disp)) or p.info_path(ref.pathstr(want[1].disp)) is not None:
                        return fail("exists_path / info_path still see the object after delete")
                    m = expect_events([(be.oid_in(op[1]), False, want[1].kind)])
                else:
                    m = expect_events([])
                if m:
                    return fail(m)
            elif k == "rename":
                sk = ref.by_oid(op[1])
                before = {kk: n.oid for kk, n in ref.nodes.items()}
                want = ref.rename(sk, op[2])
                try:
                    new_oid = be.oid_out(p.rename(be.oid_in(op[1]), op[2]))
                except Exception as e:  # noqa
                    if want != ("err", err_tok(e)):
                        return fail("rename raised %s, contract says %r" % (err_tok(e), want[:1] if want[0] == "ok" else want))
                    continue
                if want[0] != "ok":
                    return fail("rename succeeded, contract says %s" % want[1])
                dk, replaced, moved = want[1]
                if ref.oip:
                    if moved and new_oid != op[2]:
                        return fail("path-style provider: rename to %r returned oid %r" % (op[2], new_oid))
                    if moved:
                        for kk, n in ref.nodes.items():
                            if kk[:len(dk)] == dk:
                                n.oid = ref.pathstr(n.disp)
                else:
                    if new_oid != op[1]:
                        return fail("id-style provider: oid changed across rename (%r -> %r)" % (op[1], new_oid))
                if moved:
                    ref.nodes[dk].oid = new_oid
                gs.seen_oids.append(new_oid)
                gs.last_oid[op[2]] = new_oid
                exp = []
                if replaced is not None:
                    exp.append((replaced.oid, False, "D"))
                if moved:
                    exp.append((new_oid, True, ref.nodes[dk].kind))
                    if ref.oip and op[1] != new_oid:
                        exp.append((op[1], False, ref.nodes[dk].kind))        # path ids: the old id is gone
                m = expect_events(exp)
                if m:
                    return fail(m)
            elif k in ("infop", "existsp"):
                kk = ref.key(ref.parts(op[1]))
                n = ref.nodes.get(kk)
                i = p.info_path(op[1])
                ex = p.exists_path(op[1])
                if (i is not None) != (n is not None) or ex != (n is not None):
                    return fail("info_path / exists_path disagree with the tree (info=%s exists=%s tree=%s)" % (i is not None, ex, n is not None))
                if n is not None:
                    m = expect_info(i, n)
                    if m:
                        return fail(m)
            elif k in ("infoo", "existso", "hasho"):
                tk = ref.by_oid(op[1])
                n = ref.nodes.get(tk) if tk is not None else None
                i = p.info_oid(be.oid_in(op[1]))
                ex = p.exists_oid(be.oid_in(op[1]))
                if (i is not None) != (n is not None) or ex != (n is not None):
                    return fail("info_oid / exists_oid disagree with the tree (info=%s exists=%s tree=%s)" % (i is not None, ex, n is not None))
                if n is not None:
                    m = expect_info(i, n)
                    if m:
                        return fail(m)
                    if p.hash_oid(be.oid_in(op[1])) != i.hash:
                        return fail("hash_oid differs from info_oid().hash")
            elif k == "listdir":
                tk = ref.by_oid(op[1])
                try:
                    got = list(p.listdir(be.oid_in(op[1])))
                except Exception as e:  # noqa
                    if tk is not None and ref.nodes[tk].kind == "D":
                        return fail("listdir raised %s on a live folder" % err_tok(e))
                    if err_tok(e) != "!NotFound":
                        return fail("listdir raised %s, contract says !NotFound" % err_tok(e))
                    continue
                if tk is None or ref.nodes[tk].kind != "D":
                    return fail("listdir succeeded on something that is not a live folder")
                want = sorted((ref.nodes[c].oid, ref.nodes[c].disp[-1]) for c in ref.children(tk))
                have = sorted((be.oid_out(i.oid), i.name) for i in got)
                if want != have:
                    return fail("listdir yields %r, the tree has %r" % (have, want))
                for i in got:
                    n = ref.nodes[ref.by_oid(be.oid_out(i.oid))]
                    m = expect_info(i, n)
                    if m:
                        return fail("listdir entry: " + m)
            elif k == "hashd":
                a, b = op[1], rng.randrange(len(ct.vals))
                ha, hb = p.hash_data(io.BytesIO(ct.vals[a])), p.hash_data(io.BytesIO(ct.vals[b]))
                if (ha == hb) != (a == b):
                    return fail("hash_data: equal bytes <-> equal hashes fails for contents of %d and %d bytes" % (len(ct.vals[a]), len(ct.vals[b])))
        except HarnessError:
            raise
    # closing sweep: every tree node is visible with its own bytes, and the event stream told the whole story
    m = check_all("at the end") or events_law()
    if m:
        return fail(m)
    return None


def shrink(be, ct, rng, flavour, hit, names, bad_names, allowed):
    """greedy delta debugging on the operation list of a failing run (ids are literal, so dropping a call may make
    later ones miss; any remaining failure of the contract is kept)"""
    ops = hit["raw_ops"]
    budget = 250
    changed = True
    while changed and budget > 0:
        changed = False
        i = len(ops) - 2
        while i >= 0 and budget > 0:
            trial = ops[:i] + ops[i + 1:]
            budget -= 1
            h2 = contract_oracle(be, ct, rng, flavour, 0, names, bad_names, allowed, fixed_ops=trial)
            if h2:
                hit, ops, changed = h2, h2["raw_ops"], True
            i -= 1
    hit = dict(hit)
    hit.pop("raw_ops", None)
    return hit


def fs_confirm(fsb, ct, rng, hit, res):
    """watchdog's asynchronous delivery makes the filesystem events law occasionally miss on a loaded machine: a hit on
    the filesystem provider counts only if the same call sequence fails again on a fresh namespace"""
    if hit is None:
        return None
    again = contract_oracle(fsb, ct, rng, (True, True), 0, NAMES, [LONG], FS_OPS, fixed_ops=hit["raw_ops"])
    if again is None:
        res.notes.append("filesystem oracle hit not reproduced on replay (discarded): %s" % hit["failure"][:120])
    return again


def search(res, tier, seed, broken, mockb, fsb, ct):
    srng = rng_for(seed, "c16search")
    hit = fs_cursor_law(fsb)
    if hit:
        return hit
    # first the collision programs (every kind of name collision), on every flavour and on the filesystem provider
    progs = collision_programs()
    for idx, (tag, ops) in enumerate(progs):
        for fl in FLAVOURS:
            hit = contract_oracle(mockb, ct, srng, fl, 0, NAMES, [BAD_MOCK], None, fixed_ops=ops)
            if hit:
                hit["program"] = tag
                return shrink(mockb, ct, srng, fl, hit, NAMES, [BAD_MOCK], None)
        if tier != "quick" or tag.startswith("p%d|" % (seed % 3)):
            hit = fs_confirm(fsb, ct, srng, contract_oracle(fsb, ct, srng, (True, True), 0, NAMES, [LONG], FS_OPS, fixed_ops=ops), res)
            if hit:
                hit["program"] = tag
                return shrink(fsb, ct, srng, (True, True), hit, NAMES, [LONG], FS_OPS)
    n = 600 if tier == "quick" else 6000
    for j in range(n):
        fl = FLAVOURS[j % 4]
        hit = contract_oracle(mockb, ct, srng, fl, srng.randint(4, 30), NAMES + MOCK_ONLY_NAMES, [BAD_MOCK])
        if hit:
            return shrink(mockb, ct, srng, fl, hit, NAMES + MOCK_ONLY_NAMES, [BAD_MOCK], None)
        if j % 10 == 0:
            hit = fs_confirm(fsb, ct, srng, contract_oracle(fsb, ct, srng, (True, True), srng.randint(4, 25), NAMES, [LONG], FS_OPS), res)
            if hit:
                return shrink(fsb, ct, srng, (True, True), hit, NAMES, [LONG], FS_OPS)
    hit = connect_law(srng, 50)
    return hit


# ------------------------------------------------------------------ known findings (replayed on the real code)

def replay_findings(res, mockb, fsb, ct, opens, fixed):
    # fixed: hash_data vs info hash above 2048 bytes on FileSystemProvider
    if "fs-hash-data-over-2048" in fixed:
        bad = fs_hash_law(fsb, [2049, 5000])
        if bad:
            res.violation({"property": PID, "kind": "regression of fixed finding", "id": "fs-hash-data-over-2048",
                           "ops": ["create /h <n bytes>", "hash_data(<same bytes>)", "info_path(/h).hash"],
                           "failing_sizes": bad,
                           "failure": "FileSystemProvider.hash_data differs from the hash info reports for the same bytes"})
    for ident, fn in OPEN_REPLAYS.items():
        if ident in fixed:
            try:
                still = fn(mockb, fsb, ct)
            except Exception as e:  # noqa
                still = True
                res.notes.append("replay of fixed %s raised %r" % (ident, e))
            if still:
                res.violation({"property": PID, "kind": "regression of fixed finding", "id": ident,
                               "ops": (fn.__doc__ or fn.__name__).strip(), "failure": fixed[ident]})
        if ident in opens:
            try:
                still = fn(mockb, fsb, ct)
            except Exception as e:  # noqa
                still = False
                res.notes.append("replay of %s raised %r" % (ident, e))
            if still:
                res.known.append("%s :: %s" % (ident, opens[ident]))
            else:
                res.notes.append("known finding %s is stale" % ident)


def _replay_ci_recreate(mockb, fsb, ct):
    """MockProvider(True, False): i = create('/A'); delete(i.oid); i2 = create('/A'); exists_oid(i2.oid) must be True"""
    p = mockb.new(True, False)
    i = p.create("/A", io.BytesIO(b"x"))
    p.delete(i.oid)
    i2 = p.create("/A", io.BytesIO(b"y"))
    return not p.exists_oid(i2.oid) and p.exists_path("/A")


def _replay_ci_listdir_twice(mockb, fsb, ct):
    """MockProvider(True, False): create('/A'); listdir('/') must have one entry"""
    p = mockb.new(True, False)
    p.create("/A", io.BytesIO(b"x"))
    return len(list(p.listdir(p.info_path("/").oid))) == 2


def _replay_rename_into_self(mockb, fsb, ct):
    """MockProvider(False, True): a = mkdir('/a'); rename(a, '/a/b') must not leave /a/b without its parent /a"""
    p = mockb.new(False, True)
    a = p.mkdir("/a")
    p.rename(a, "/a/b")
    i = p.info_oid(a)
    return i is not None and i.path == "/a/b" and p.info_path("/a") is None


def _replay_fs_event_mangled(mockb, fsb, ct):
    """deterministic, synchronous replay: hand the provider's own converter a watchdog 'created' event for a
    file that exists; the contract wants Event(oid=<that path>, exists=True)"""
    from watchdog import events as we
    p = fsb.new()
    info = p.create("/evfile", io.BytesIO(b"x"))
    ev = p._convert_watchdog_event(we.FileCreatedEvent(info.oid))
    return ev is not None and (ev.oid != info.oid or not ev.exists)


OPEN_REPLAYS = {
    "fs-events-non-move-treated-as-move": _replay_fs_event_mangled,
    "mock-path-ci-recreate-hits-tombstone": _replay_ci_recreate,
    "mock-path-ci-listdir-twice": _replay_ci_listdir_twice,
    "mock-rename-into-own-subtree": _replay_rename_into_self,
}


# ------------------------------------------------------------------ main

def histogram(items):
    h = {}
    for x in items:
        h[x] = h.get(x, 0) + 1
    return h


def run(res, tier, seed, proof_broken, replay):
    rng = rng_for(seed, "c16")
    ct = Contents(rng)
    opens, fixed = load_known_findings(PID)
    mockb, fsb = RealMock(), RealFS()
    try:
        # 2. known findings / fixed entries on the real code
        replay_findings(res, mockb, fsb, ct, opens, fixed)

        # 3. correspondence
        nseq, nlen = (240, 30) if tier == "quick" else (4000, 45)
        l1, r1, m1 = run_sequences(mockb, ct, rng, nseq, nlen, MOCK_CONFIGS, "mockfs", NAMES + MOCK_ONLY_NAMES, [BAD_MOCK],
                                   with_dump=True, sweep=0.25)
        # every kind of name collision, as fixed programs, on every mock configuration and on the filesystem provider,
        # with a read-back of every mentioned path (info incl. hash, bytes, listings) after every mutating call
        allprogs = collision_programs()
        progs = allprogs if tier != "quick" else [pr for pr in allprogs if pr[0].startswith("p%d|" % (seed % 3))]
        mock_cfgs = sorted(set(MOCK_CONFIGS))
        lc, rc, mc = run_sequences(mockb, ct, rng, 0, 0, None, "mockfs", NAMES, [BAD_MOCK], with_dump=True,
                                   programs=[(cfg, ops) for cfg in mock_cfgs for _tag, ops in progs])
        l1, r1, m1 = l1 + lc, r1 + rc, m1 + mc
        d1 = diff(l1, r1, run_driver("mockfs", l1), "mockfs")
        fseq, flen = (30, 25) if tier == "quick" else (500, 40)
        l2, r2, m2 = run_sequences(fsb, ct, rng, fseq, flen, [(True, True)], "tree", NAMES, [LONG], allowed=FS_OPS, sweep=0.5)
        lf, rf, mf = run_sequences(fsb, ct, rng, 0, 0, None, "tree", NAMES, [LONG], allowed=FS_OPS,
                                   programs=[((True, True), prefixed(ops, "/n%d" % i)) for i, (_tag, ops) in enumerate(progs)],
                                   one_namespace=True)
        l2, r2, m2 = l2 + lf, r2 + rf, m2 + mf
        fs_lines = [x for x in l2]
        model2 = run_driver("tree", fs_lines)
        # the filesystem provider's info carries no name, and directory sizes are the OS's: compare kind/oid/hash/path/size
        def strip_name(line):
            if line.startswith("info "):
                t = line.split(" ")
                return " ".join(t[:6] + ["-"])
            if line.startswith("hash "):
                return line
            return line
        d2 = diff(l2, [strip_name(x) for x in r2], [strip_name(x) for x in model2], "tree(FileSystemProvider)")
        nh, d3 = fshash_correspondence(fsb, rng, tier)
        l4, r4, d4 = connect_correspondence(rng, 60 if tier == "quick" else 1000)
        nfc, fc_discarded, d5 = fscursor_correspondence(fsb, ct, rng, 4 if tier == "quick" else 60)
        ev_checked, ev_right, ev_mangled, ev_missing = fs_events_check(fsb, ct, rng, 2 if tier == "quick" else 10)
        ev_known = "fs-events-non-move-treated-as-move" in opens
        law_bad = fs_hash_law(fsb, [0, 1, 1023, 1024, 1025, 2047, 2048, 2049, 2050, 4096, 5000])

        ops_hist = histogram(m[0] for m in m1)
        fl_hist = histogram("path" if m[1][0] else "id" for m in m1 if m[0] == "reset")
        out_hist = histogram(r.split(" ")[0] for r in r1)
        fs_out_hist = histogram(r.split(" ")[0] for r in r2)
        distinct = len({(a, b) for a, b in zip(l1, r1)} | {("fs", a, b) for a, b in zip(l2, r2)})
        size_hist = histogram(ct.size_class(int(ln.split(" ")[2])) for ln in l1 + l2 if ln.startswith(("create ", "upload ")))
        name_hist = {"upper_case": 0, "non_ascii": 0, "dots": 0, "space": 0, "forbidden_or_overlong": 0, "plain": 0}
        for ln in l1 + l2:
            t = ln.split(" ")
            if t[0] in ("create", "mkdir", "rename", "infop", "existsp"):
                pth = dec_str(t[2] if t[0] == "rename" else t[1]) or ""
                for nm in [x for x in pth.split("/") if x]:
                    cls = ("forbidden_or_overlong" if ("`" in nm or len(nm) > 255) else "non_ascii" if any(ord(ch) > 127 for ch in nm)
                           else "dots" if "." in nm else "space" if " " in nm else "upper_case" if nm != nm.lower() else "plain")
                    name_hist[cls] += 1
        res.coverage.update({
            "evaluations": len(l1) + len(l2) + nh + len(l4) + nfc, "programs": nseq + fseq + 1 + (60 if tier == "quick" else 1000),
            "distinct_nontrivial": distinct,
            "rule": "adaptive random call sequences (mkdir/create/upload/download/rename/delete/info/exists/listdir/hash/"
                    "events/cursor) aimed by a shadow tree at existing objects, case variants of existing paths, children of "
                    "files and of missing folders, stale and bogus ids, forbidden/over-long names; names from %r (+ '.', '..' "
                    "for the mock); contents in the size classes 0, <1 KiB, 1-2 KiB, >2 KiB incl. 1023/1024/1025/2047/2048/2049 "
                    "and pairs equal on their first and last KiB; each mock sequence ends with a dump of the whole object "
                    "table; distinct = distinct (operation line, result) pairs" % (NAMES,),
            "samples": [{"ops": l1[0:8], "results": r1[0:8]}, {"fs_ops": l2[0:6], "results": r2[0:6]}],
            "disagreements_checked": len(d1) + len(d2) + len(d3) + len(d4) + len(d5),
            "fscursor_lines": nfc, "fscursor_comparisons_discarded": fc_discarded,
            "mock_op_histogram": ops_hist, "mock_flavour_sequences": histogram(str(m[1]) for m in m1 if m[0] == "reset"),
            "mock_result_histogram": out_hist, "fs_result_histogram": fs_out_hist, "fs_sequences": fseq,
            "content_size_classes": size_hist, "name_classes": name_hist, "fshash_lines": nh, "connect_lines": len(l4),
            "collision_programs": len(progs), "collision_program_kinds": histogram(t.split("|")[1].split(":")[0] for t, _ in progs),
            "sweep_lines": sum(1 for m in m1 + m2 if m[0] == "sweep"),
            "fs_rename_outcomes": histogram(r.split(" ")[0] for ln, r in zip(l2, r2) if ln.startswith("rename ")),
            "fs_events_checked": ev_checked, "fs_events_right": ev_right, "fs_events_missing": len(ev_missing),
            "fs_events_mangled_known_finding": len(ev_mangled),
            "fs_hash_law_sizes_failing": law_bad, "observer_thread_errors": list(fsb.thread_errors)[:5],
            "fingerprints": fingerprints(FP_SPEC),
        })
        res.assumptions += [
            "object ids of id-style mock flavours are str(id(obj)) in the code; the harness substitutes sequential ids (subclass of MockFSObject) and the model uses a counter",
            "contents are opaque tokens; md5 / blake2b are trusted to be injective on the generated contents (hypothesis `Injective` in the theorems)",
            "FileSystemProvider: the OS file system and watchdog are not modelled; its operations are compared with the reference tree directly; its events arrive asynchronously and are polled with a 5 s deadline (partial)",
            "str.lower() is modelled per character on the generated alphabet (ASCII + Latin-1)",
            "a folder rename of a path-style case-insensitive mock whose result depends on Python's set iteration order is not compared (counted as skipped-set-order)",
        ]
        broken = list(proof_broken)
        for d in (d1, d2, d3, d4, d5):
            if d:
                broken.append("correspondence %s: %r" % (d[0]["layer"], d[0]))
        if ev_missing:
            broken.append("filesystem events not reported within the deadline: %r" % (ev_missing[0],))
        if ev_mangled and not ev_known:
            broken.append("filesystem events reported with the wrong id / existence flag: %r" % (ev_mangled[0],))
        if law_bad:
            broken.append("FileSystemProvider hash law fails at sizes %r" % (law_bad,))
        if broken:
            hit = None
            if law_bad:
                hit = {"provider": "fs", "ops": ["create /h <n bytes>", "hash_data(<same bytes>)", "info_path(/h).hash"],
                       "failing_sizes": law_bad, "failure": "hash_data(bytes) differs from the hash info reports for a file with those bytes"}
            if not hit:
                hit = search(res, tier, seed, broken, mockb, fsb, ct)
            if not hit and ev_missing:
                hit = {"provider": "fs", "failure": "mutation not reported by events() within 5 s", "detail": ev_missing[0]}
            if not hit and ev_mangled and not ev_known:
                hit = {"provider": "fs", "failure": "mutation reported by events() as (oid='/', exists=False, prior_oid=<the object>)",
                       "detail": ev_mangled[0]}
            if hit:
                res.violation({"property": PID, "kind": "provider contract fails on implementation", "failing": hit, "broken": broken})
            else:
                res.violation({"property": PID, "kind": "proof obligation or correspondence no longer checks", "broken": broken,
                               "first_disagreements": (d1 + d2 + d3 + d4 + d5)[:3]}, no_input=True)
    finally:
        mockb.restore()
        fsb.cleanup()


if __name__ == "__main__":
    standard_main(PID, run)
