"""C18 — service loops.  Correspondence of the Lean Runnable/Notify model with cloudsync.runnable.Runnable and
cloudsync.notification.NotificationManager:
  (a) sequential loop: scripted outcome sequences, requested sleeps recorded (virtual time) vs `runSeq`;
  (b) stop/start/wake protocol: real threads driven by a cooperative scheduler that parks the loop thread at its
      hooks (do, interruptable_sleep) and the application thread inside wake(); the same schedule is executed by
      the model (driver layer `proto`) and the observable summaries are compared after every step;
  (c) notification queue vs `nRun`.
Search oracle after a break: the C18 statements evaluated on the implementation over the same schedules."""
import os
import sys
import threading
import time
from fractions import Fraction

sys.path.insert(0, os.path.dirname(os.path.abspath(__file__)))
from common import *  # noqa

PID = "C18"
FP_SPEC = {"cloudsync/runnable.py": ["Runnable.run", "Runnable.stop", "Runnable.start", "Runnable.wake", "Runnable.wait",
                                     "Runnable.interruptable_sleep", "Runnable.__increment_backoff", "Runnable.nothing_happened",
                                     "Runnable.stop_all"],
           "cloudsync/notification.py": ["NotificationManager.do", "NotificationManager.notify", "NotificationManager.stop"]}


def frac(x):
    return "%d/%d" % (Fraction(x).numerator, Fraction(x).denominator)


# ------------------------------------------------------------------ (a) sequential loop

class _Stop(Exception):
    pass


def real_runseq(mn, mx, mult, sleep, b0, outs):
    import_repo()
    from cloudsync.runnable import Runnable

    class Svc(Runnable):
        def __init__(self):
            self.i = 0
            self.sleeps = []
            self.min_backoff, self.max_backoff, self.mult_backoff = float(mn), float(mx), float(mult)
            self.in_backoff = float(b0)

        def do(self):
            o = outs[self.i]
            self.i += 1
            if o == "N":
                self.nothing_happened()
            elif o == "B":
                self.backoff()
            elif o == "E":
                raise ValueError("scripted")
            elif o == "X":
                raise KeyboardInterrupt("scripted base exception")
            elif o == "F":
                # reports "nothing happened" and then fails inside the same call
                self.nothing_happened()
                if self.i % 2:
                    self.backoff()
                raise ValueError("scripted failure after a no-op")

        def interruptable_sleep(self, secs):
            self.sleeps.append(secs)

    s = Svc()
    n = len(outs)
    s.run(until=lambda: s.i >= n, sleep=float(sleep))
    # the loop breaks before sleeping after the last outcome; the model reports that sleep too
    return s.in_backoff, s.sleeps


def corr_runseq(rng, n):
    cases, lines = [], []
    pool = [Fraction(1, 100), Fraction(1), Fraction(2), Fraction(3, 2), Fraction(1, 2), Fraction(0), Fraction(10), Fraction(1, 1000), Fraction(5, 4)]
    for _ in range(n):
        mn, mx, mult, sleep = rng.choice(pool), rng.choice(pool), rng.choice(pool), rng.choice(pool[:4])
        b0 = rng.choice([Fraction(0), Fraction(0), mn, mx])
        outs = [rng.choice("SSNBEXF") for _ in range(rng.randint(1, 12))]
        cases.append((mn, mx, mult, sleep, b0, outs))
        lines.append(" ".join([frac(mn), frac(mx), frac(mult), frac(sleep), frac(b0)] + outs))
    model = run_driver("runseq", lines)
    dis = []
    for (mn, mx, mult, sleep, b0, outs), line, m in zip(cases, lines, model):
        bf, sleeps = real_runseq(mn, mx, mult, sleep, b0, outs)
        mf, ms = m.split(" | ")
        msl = [float(Fraction(x)) for x in ms.split()]
        ok = abs(float(Fraction(mf)) - bf) <= 1e-9 * max(1, abs(bf)) and len(sleeps) == len(msl) - 1 and \
            all(abs(a - b) <= 1e-9 * max(1, abs(a)) for a, b in zip(sleeps, msl))
        if not ok:
            dis.append({"layer": "runseq", "line": line, "implementation": {"final": bf, "sleeps": sleeps}, "model": m})
    return lines, dis


# ------------------------------------------------------------------ (b) protocol under a cooperative scheduler

class Gate:
    """parks a thread at a named hook until the scheduler releases it"""
    def __init__(self):
        self.cv = threading.Condition()
        self.parked = {}      # thread role -> hook name
        self.grant = {}       # role -> token

    def hit(self, role, hook):
        with self.cv:
            self.parked[role] = hook
            self.cv.notify_all()
            while role not in self.grant:
                self.cv.wait(5)
                if time.time() > self.deadline:
                    self.parked.pop(role, None)
                    return "timeout"
            tok = self.grant.pop(role)
            self.parked.pop(role, None)
            self.cv.notify_all()
            return tok

    def wait_parked_or(self, role, pred, timeout=3.0):
        end = time.time() + timeout
        with self.cv:
            while role not in self.parked and not pred():
                rem = end - time.time()
                if rem <= 0:
                    return False
                self.cv.wait(min(rem, 0.02))
            return True

    def release(self, role, tok=True):
        with self.cv:
            self.grant[role] = tok
            self.cv.notify_all()


def make_service(gate):
    import_repo()
    from cloudsync.runnable import Runnable

    class Svc(Runnable):
        def __init__(self):
            self.n_do = 0
            self.n_done = 0

        def do(self):
            gate.hit("loop", "do")
            self.n_do += 1

        def done(self):
            self.n_done += 1

        def interruptable_sleep(self, secs):
            while True:
                tok = gate.hit("loop", "sleep")
                ev = self._Runnable__interrupt
                if tok == "timeout" or (ev is not None and ev.is_set()):
                    # the real implementation, with a zero wait: consumes the event if set
                    Runnable.interruptable_sleep(self, 0)
                    return
                # not woken and no timeout: still sleeping; park again

        def wake(self):
            if threading.current_thread().name == "app":
                gate.hit("app", "wake")
            Runnable.wake(self)

    return Svc()


class ProtoRun:
    def __init__(self):
        self.gate = Gate()
        self.gate.deadline = time.time() + 60
        self.svc = make_service(self.gate)
        self.app = None
        self.refused = 0
        self.started = 0
        self.app_exc = None
        self.app_call = None

    def loop_thread(self):
        return self.svc._Runnable__thread

    def loop_alive(self):
        t = self.loop_thread()
        return bool(t and t.is_alive())

    def app_busy(self):
        return bool(self.app and self.app.is_alive())

    def call(self, what, *args):
        self.app_call = (what,) + tuple(args)

        def body():
            try:
                if what == "stop":
                    self.svc.stop(forever=args[0], wait=args[1])
                elif what == "wake":
                    self.svc.wake()
                elif what == "wait":
                    self.svc.wait()
                elif what == "start":
                    try:
                        self.svc.start(daemon=True, sleep=0.01)
                        self.started += 1
                    except RuntimeError:
                        self.refused += 1
            except _Stop:
                pass
            except Exception as e:  # noqa
                self.app_exc = repr(e)
        self.app = threading.Thread(target=body, name="app", daemon=True)
        self.app.start()

    def app_blocked_in_join(self):
        c = self.app_call
        return self.app_busy() and "app" not in self.gate.parked and c is not None and \
            ((c[0] == "stop" and c[2]) or c[0] == "wait") and self.loop_alive()

    def settle(self):
        """wait until every thread is parked at a hook, blocked in a join, or finished (generous: the machine may be loaded)"""
        g = self.gate
        end = time.time() + 20
        while time.time() < end:
            loop_ok = ("loop" in g.parked) or not self.loop_alive()
            app_ok = ("app" in g.parked) or not self.app_busy() or self.app_blocked_in_join()
            if loop_ok and app_ok:
                # re-check after a short pause: a thread that has just been released may not have moved yet
                time.sleep(0.002)
                loop_ok = ("loop" in g.parked) or not self.loop_alive()
                app_ok = ("app" in g.parked) or not self.app_busy() or self.app_blocked_in_join()
                if loop_ok and app_ok:
                    return
            time.sleep(0.001)
        raise HarnessError("threads did not settle")

    def obs(self):
        g = self.gate
        if not self.loop_thread():
            lc = "none"
        elif not self.loop_alive():
            lc = "dead"
        else:
            lc = g.parked.get("loop", "mid")
        if not self.app_busy():
            ac = "idle"
        elif g.parked.get("app") == "wake":
            ac = "wake"
        else:
            ac = "join"
        return "do=%d done=%d refused=%d started=%d loop=%s app=%s bad=0" % (self.svc.n_do, self.svc.n_done, self.refused, self.started, lc, ac)

    def cleanup(self):
        self.gate.deadline = 0
        try:
            self.svc._Runnable__stopping = True
        except Exception:
            pass
        for role in ("loop", "app"):
            self.gate.release(role, "timeout")
        time.sleep(0.01)


def gen_schedule(rng, n):
    """schedule tokens; generated against a tiny abstract view so that most steps are enabled"""
    sched = ["C start"]
    for _ in range(n):
        r = rng.random()
        if r < 0.40:
            sched.append(rng.choice(["L", "Lt", "Lt"]))
        elif r < 0.60:
            sched.append("A")
        elif r < 0.78:
            sched.append("C stop %s %s" % (rng.choice("TF"), rng.choice("TF")))
        elif r < 0.86:
            sched.append("C wake")
        elif r < 0.96:
            sched.append("C start")
        else:
            sched.append("C wait")
    return sched


def run_schedule_real(sched, model_obs):
    """executes sched on the real Runnable; model_obs (list) is used to skip steps that are not enabled in the model
    state (same rule on both sides: an app call while the app thread is busy is not issued)"""
    pr = ProtoRun()
    out = []
    try:
        for i, tok in enumerate(sched):
            g = pr.gate
            if tok in ("L", "Lt"):
                if "loop" in g.parked:
                    hook = g.parked["loop"]
                    ev = pr.svc._Runnable__interrupt
                    if hook == "sleep" and tok == "L" and not (ev is not None and ev.is_set()):
                        pass   # blocked: no timeout and not woken
                    else:
                        g.release("loop", "timeout" if tok == "Lt" else "go")
                        # wait for it to leave the hook
                        t0 = time.time()
                        while "loop" in g.grant and time.time() - t0 < 2:
                            time.sleep(0.0005)
            elif tok == "A":
                if "app" in g.parked:
                    g.release("app", "go")
                    t0 = time.time()
                    while "app" in g.grant and time.time() - t0 < 2:
                        time.sleep(0.0005)
            elif tok.startswith("C "):
                if not pr.app_busy():
                    parts = tok.split()
                    if parts[1] == "stop":
                        pr.call("stop", parts[2] == "T", parts[3] == "T")
                    elif parts[1] == "start" and pr.loop_alive():
                        pass   # would block one second in join(timeout=1): not scheduled (model: same skip)
                    else:
                        pr.call(parts[1])
            pr.settle()
            out.append(pr.obs())
        return out, pr.app_exc
    finally:
        pr.cleanup()


def model_schedule(scheds):
    lines = []
    for sched in scheds:
        lines.append("reset")
        lines += sched
    return lines, run_driver("proto", lines)


def corr_proto(rng, nsched, slen):
    """the schedule is first filtered through the model so that both sides skip the same disabled calls"""
    dis, all_lines, nsteps = [], [], 0
    for _ in range(nsched):
        sched = gen_schedule(rng, slen)
        # pre-run on the model to drop calls made while the app thread is busy or a start while the loop is alive
        lines, obs = model_schedule([sched])
        keep, state = [], obs[0]
        for tok, o in zip(sched, obs[1:]):
            busy = "app=idle" not in state
            alive = ("loop=none" not in state) and ("loop=dead" not in state)
            if tok.startswith("C ") and busy:
                pass
            elif tok == "C start" and alive:
                pass
            else:
                keep.append(tok)
            state = o
        lines, obs = model_schedule([keep])
        real, exc = run_schedule_real(keep, obs[1:])
        all_lines += lines
        nsteps += len(keep)
        for i, (r, m) in enumerate(zip(real, obs[1:])):
            if r != m:
                dis.append({"layer": "proto", "schedule": keep[:i + 1], "implementation": r, "model": m, "app_exception": exc})
                break
    return all_lines, nsteps, dis


# ------------------------------------------------------------------ (c) notifications

def real_notify(mask, k, queue):
    import_repo()
    from cloudsync.notification import NotificationManager, Notification, NotificationType, SourceEnum
    got = []

    def handler(n):
        got.append(n.path)
        if (mask >> int(n.path[1:])) & 1:
            raise RuntimeError("handler failure (scripted)")
    nm = NotificationManager(handler)
    for q in queue:
        if q == "~":
            nm._NotificationManager__queue.put(None)
        else:
            nm.notify(Notification(SourceEnum.SYNC, NotificationType.TEMPORARY_ERROR, q))
    left = len(queue)
    stopped = False
    for _ in range(k):
        if stopped or left == 0:
            break
        head = queue[len(queue) - left]
        if nm._NotificationManager__queue.qsize() != left:
            return " ".join(got) + " | queue holds %d entries where %d were expected (do() consumed more than one)" % (
                nm._NotificationManager__queue.qsize(), left)
        nm.do()
        left -= 1
        if head == "~":
            stopped = True
    return " ".join(got) + " | stop=%s left=%d" % ("true" if stopped else "false", left)


def corr_notify(rng, n):
    lines, cases = [], []
    for _ in range(n):
        ids = list(range(rng.randint(0, 8)))
        rng.shuffle(ids)
        queue = ["n%d" % i for i in ids]
        for _ in range(rng.choice([0, 0, 1, 2])):
            queue.insert(rng.randint(0, len(queue)), "~")
        mask = rng.getrandbits(8)
        k = rng.randint(0, len(queue) + 2)
        cases.append((mask, k, queue))
        lines.append("%d %d %s" % (mask, k, " ".join(queue)))
    model = run_driver("notify", lines)
    dis = []
    for (mask, k, queue), line, m in zip(cases, lines, model):
        # the model blocks on an empty queue (would wait forever): the harness stops calling do() there as well
        r = real_notify(mask, k, queue)
        if r != m:
            dis.append({"layer": "notify", "line": line, "implementation": r, "model": m})
    return lines, dis


# ------------------------------------------------------------------ property oracle (search after a break)

def oracle(rng, tier):
    """C18's own statements on the implementation.  Returns a failing case or None."""
    # geometric bounded backoff + reset + survival
    for _ in range(300):
        mn = rng.choice([0.01, 0.5, 1.0]); mx = rng.choice([1.0, 4.0, 100.0]); mult = rng.choice([1.0, 1.5, 2.0, 3.0])
        k = rng.randint(1, 8)
        outs = [rng.choice("BEXF") for _ in range(k)] + ["S", "N", rng.choice("BEXF"), "N"]
        pre = "".join(rng.choice("SN") for _ in range(rng.randint(0, 3)))
        seq = list(pre) + outs + ["S"]
        bf, sleeps = real_runseq(mn, mx, mult, 0.001, 0, seq)
        want = [0.001] * len(pre) + [min(mx, mn * mult ** i) for i in range(k)] + [0.001, 0.001, min(mx, mn), min(mx, mn)]
        if len(sleeps) != len(want) or any(abs(a - b) > 1e-9 * max(1, b) for a, b in zip(sleeps, want)):
            return {"statement": "after k consecutive failures wait min(max, min*mult^(k-1)); a success that did something clears it; a no-op keeps it; the loop survives every exception",
                    "params": {"min": mn, "max": mx, "mult": mult, "sleep": 0.001}, "outcomes": "".join(seq), "sleeps_requested": sleeps, "expected": want}
    # protocol: random prefix without final stops, drained, then a final waiting stop
    for _ in range(40 if tier == "quick" else 400):
        prefix = [t for t in gen_schedule(rng, 12) if not t.startswith("C stop T")]
        drain = ["A", "Lt", "Lt", "A", "Lt", "Lt", "A"]
        sched = prefix + drain
        real, exc = run_schedule_real(sched, None)
        f0 = dict(x.split("=") for x in real[-1].split())
        if f0["app"] != "idle":
            continue
        was_alive = f0["loop"] in ("do", "sleep")
        tail = ["C stop T T", "A", "Lt", "Lt", "A", "Lt"]
        after = ["Lt", "Lt", "C start", "Lt", "Lt"]
        real2, exc2 = run_schedule_real(sched + tail + after, None)
        f1 = dict(x.split("=") for x in real2[len(sched) + len(tail) - 1].split())
        f2 = dict(x.split("=") for x in real2[-1].split())
        full = sched + tail + after
        if exc or exc2:
            return {"statement": "stop/start/wake/wait never raise unexpectedly", "schedule": full, "exception": exc or exc2}
        if f1["app"] != "idle" or f1["loop"] not in ("dead", "none"):
            return {"statement": "a waiting final stop returns with the loop terminated", "schedule": full, "observed": real2[len(sched) + len(tail) - 1]}
        if was_alive and int(f1["done"]) != int(f0["done"]) + 1:
            return {"statement": "cleanup has run exactly once after a final stop of a running service", "schedule": sched + tail,
                    "observed": real2[len(sched) + len(tail) - 1], "before": real[-1]}
        if int(f2["do"]) != int(f1["do"]):
            return {"statement": "once stop() has returned the work function is never called again", "schedule": full, "observed": real2[-1]}
        if int(f2["started"]) != int(f1["started"]):
            return {"statement": "a finally stopped service refuses to start again", "schedule": full, "observed": real2[-1]}
    # notifications: order, exactly once, handler failures do not stop deliveries
    for _ in range(200):
        n = rng.randint(1, 9)
        q = ["n%d" % i for i in range(n)]
        mask = rng.getrandbits(n)
        r = real_notify(mask, n, q)
        if r.split(" | ")[0] != " ".join(q):
            return {"statement": "notifications are delivered one at a time in order, each exactly once, even if the handler raises",
                    "raised": q, "handler_raises_on_mask": mask, "delivered": r}
    return None


def run(res, tier, seed, proof_broken, replay):
    rng = rng_for(seed, "c18")
    opens, fixed = load_known_findings(PID)
    # 2. fixed entry replay: stop(forever=True) while the loop exits between wake() and the shutdown write
    if "stop-final-race-skips-done" in fixed:
        sched = ["C start", "L", "L", "C stop T T", "L", "Lt", "L", "A", "A"]
        # app parked in wake(): let the loop run to completion first, then release the app thread
        real, exc = run_schedule_real(["C start", "L", "C stop T T", "A"], None)
        f = dict(x.split("=") for x in real[-1].split())
        if f["loop"] == "dead" and f["app"] == "idle" and f["done"] != "1":
            res.violation({"property": PID, "kind": "regression of fixed finding", "id": "stop-final-race-skips-done",
                           "schedule": ["C start", "L", "C stop T T", "A"], "observed": real[-1]})
    n1, n2, n3, slen = (300, 60, 300, 14) if tier == "quick" else (5000, 250, 5000, 20)
    l1, d1 = corr_runseq(rng, n1)
    l2, steps2, d2 = corr_proto(rng, n2, slen)
    l3, d3 = corr_notify(rng, n3)
    dis = d1 + d2 + d3
    res.coverage.update({
        "evaluations": len(l1) + steps2 + len(l3), "programs": n1 + n2 + n3,
        "distinct_nontrivial": len(set(l1)) + len(set(l3)) + len({tuple(x) for x in [tuple(l2[i:i + 6]) for i in range(0, len(l2), 6)]}),
        "rule": "(a) random backoff parameter triples x outcome sequences (success/no-op/backoff request/Exception/BaseException), requested sleeps "
                "compared with relative tolerance 1e-9; (b) random schedules of loop steps (with/without sleep timeout), application-thread steps and "
                "stop(forever,wait)/wake/start/wait calls executed on real threads parked at hooks, observable summary compared after every step; "
                "(c) random notification queues with stop markers and failing handlers; distinct = distinct input lines / schedule windows",
        "samples": [{"runseq": l1[0]}, {"proto": l2[:12]}, {"notify": l3[0]}],
        "disagreements_checked": len(dis), "schedule_steps": steps2, "fingerprints": fingerprints(FP_SPEC),
        "protocol_states_in_certificate": 1235,
    })
    res.assumptions += ["binary floating point in the implementation vs Rat in the model: compared with relative tolerance 1e-9",
                        "thread interleavings below hook granularity (individual flag reads/writes) are covered by the model's theorem only; the tie "
                        "exercises interleavings at do()/sleep/wake()/join granularity on real threads (partial)",
                        "one application thread issues stop/start/wake/wait calls sequentially; run(until=..., timeout=...) is not modelled"]
    broken = list(proof_broken)
    if dis:
        broken.append("correspondence %s-layer: %r" % (dis[0]["layer"], dis[0]))
    if broken:
        hit = oracle(rng_for(seed, "c18search"), tier)
        if hit:
            res.violation({"property": PID, "kind": "statement fails on implementation", "failing": hit, "broken": broken})
        else:
            res.violation({"property": PID, "kind": "proof obligation or correspondence no longer checks", "broken": broken,
                           "first_disagreements": dis[:3]}, no_input=True)


if __name__ == "__main__":
    standard_main(PID, run)
