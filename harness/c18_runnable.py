"""C18 — service loops.  Correspondence of the Lean models with cloudsync.runnable.Runnable and
cloudsync.notification.NotificationManager:
  (a) sequential loop: scripted outcome sequences, requested sleeps recorded (virtual time) vs `runSeq`;
  (b) stop/start/wake protocol at hook granularity (loop: do / sleep; application: wake / join) vs the coarse transition system of
      Model/Runnable.lean part B (driver layer `proto`);
  (c) notification queue vs `nRun`;
  (d) the two-thread small-step model Model/RunnableThreads.lean (driver layer `threads`) vs the REAL start/stop/wake/wait/run,
      single-stepped statement by statement under a deterministic scheduler (c18_sched.py): exhaustive interleavings of
      stop(forever, wait) with the prologue of run() after start() has returned, interleavings of a restart with the exit of the
      old loop, random schedules; flags, statement labels of both threads, counters and call results compared after EVERY tick;
  (e) the statement / write-site table of runnable.py (tools/gen_runnable_sites.py -> Gen/RunnableSites.lean) proved equal to the
      audited table the model was written from (Props/C18Sites.lean), rebuilt and audited on every run.
The property's own statements (hypotheses exactly those of the theorems of Props/C18Threads.lean) are evaluated on every real
run of (d); after a break of the proof audit, of (e) or of a correspondence, larger schedule families are searched."""
import json
import os
import sys
import threading
import time
from fractions import Fraction

sys.path.insert(0, os.path.dirname(os.path.abspath(__file__)))
from common import *  # noqa
import c18_sched  # noqa

PID = "C18"
FP_SPEC = {"cloudsync/runnable.py": ["Runnable.run", "Runnable.stop", "Runnable.start", "Runnable.wake", "Runnable.wait",
                                     "Runnable.interruptable_sleep", "Runnable.__increment_backoff", "Runnable.nothing_happened",
                                     "Runnable.stop_all"],
           "cloudsync/notification.py": ["NotificationManager.do", "NotificationManager.notify", "NotificationManager.stop"]}


def frac(x):
    return "%d/%d" % (Fraction(x).numerator, Fraction(x).denominator)


# ------------------------------------------------------------------ (a) sequential loop

class _Stop(Exception):
    pass


def real_runseq(mn, mx, mult, sleep, b0, outs):
    import_repo()
    from cloudsync.runnable import Runnable

    class Svc(Runnable):
        def __init__(self):
            self.i = 0
            self.sleeps = []
            self.min_backoff, self.max_backoff, self.mult_backoff = float(mn), float(mx), float(mult)
            self.in_backoff = float(b0)

        def do(self):
            o = outs[self.i]
            self.i += 1
            if o == "N":
                self.nothing_happened()
            elif o == "B":
                self.backoff()
            elif o == "E":
                raise ValueError("scripted")
            elif o == "X":
                raise KeyboardInterrupt("scripted base exception")
            elif o == "F":
                # reports "nothing happened" and then fails inside the same call
                self.nothing_happened()
                if self.i % 2:
                    self.backoff()
                raise ValueError("scripted failure after a no-op")

        def interruptable_sleep(self, secs):
            self.sleeps.append(secs)

    s = Svc()
    n = len(outs)
    s.run(until=lambda: s.i >= n, sleep=float(sleep))
    # the loop breaks before sleeping after the last outcome; the model reports that sleep too
    return s.in_backoff, s.sleeps


def corr_runseq(rng, n):
    cases, lines = [], []
    pool = [Fraction(1, 100), Fraction(1), Fraction(2), Fraction(3, 2), Fraction(1, 2), Fraction(0), Fraction(10), Fraction(1, 1000), Fraction(5, 4)]
    for _ in range(n):
        mn, mx, mult, sleep = rng.choice(pool), rng.choice(pool), rng.choice(pool), rng.choice(pool[:4])
        b0 = rng.choice([Fraction(0), Fraction(0), mn, mx])
        outs = [rng.choice("SSNBEXF") for _ in range(rng.randint(1, 12))]
        cases.append((mn, mx, mult, sleep, b0, outs))
        lines.append(" ".join([frac(mn), frac(mx), frac(mult), frac(sleep), frac(b0)] + outs))
    model = run_driver("runseq", lines)
    dis = []
    for (mn, mx, mult, sleep, b0, outs), line, m in zip(cases, lines, model):
        bf, sleeps = real_runseq(mn, mx, mult, sleep, b0, outs)
        mf, ms = m.split(" | ")
        msl = [float(Fraction(x)) for x in ms.split()]
        ok = abs(float(Fraction(mf)) - bf) <= 1e-9 * max(1, abs(bf)) and len(sleeps) == len(msl) - 1 and \
            all(abs(a - b) <= 1e-9 * max(1, abs(a)) for a, b in zip(sleeps, msl))
        if not ok:
            dis.append({"layer": "runseq", "line": line, "implementation": {"final": bf, "sleeps": sleeps}, "model": m})
    return lines, dis


# ------------------------------------------------------------------ (b) protocol at hook granularity (old `proto` layer)
# The coarse model of Model/Runnable.lean part B observes the threads only at their "hooks": the loop thread about to call do(),
# inside its sleep, or dead; the application thread about to call wake(), inside a join, or idle.  The same schedules are now
# realised deterministically with the statement-level controller of c18_sched.py: a token moves one thread from hook to hook.

DO_LABEL = "run:self.do()"
def _wake_label():
    """the first scheduling point inside wake() of the actual source (the application thread's "about to wake" hook)"""
    park = c18_sched.parking_lines()
    labs = sorted((ln, lab) for ((m, ln), lab) in park.items() if m == "wake")
    return labs[0][1] if labs else "wake:<none>"


class ProtoRun:
    def __init__(self):
        self.ctl = c18_sched.Ctl()
        self.refused = 0
        self.started = 0
        self.cur_call = None

    # --- hooks
    def loop_at_hook(self):
        st, info = self.ctl.status("S")
        return st in ("absent", "done") or (st == "parked" and info == DO_LABEL) or (st == "blocked" and info[0] == "evwait")

    def app_at_hook(self):
        st, info = self.ctl.status("C")
        return st in ("absent", "done") or (st == "parked" and info == _wake_label()) or (st == "blocked" and info[0] == "join")

    def app_busy(self):
        return self.ctl.status("C")[0] not in ("absent", "done")

    def loop_alive(self):
        return self.ctl.status("S")[0] not in ("absent", "done")

    def _account(self):
        """a finished call: count start() results once"""
        if self.cur_call == "start" and not self.app_busy():
            if self.ctl.last_ret == "RuntimeError":
                self.refused += 1
            elif self.ctl.last_ret.startswith("ok"):
                self.started += 1
            self.cur_call = None

    def app_to_hook(self, tmo=False):
        if not self.ctl.tick("C", tmo=tmo):
            return False
        for _ in range(40):
            if self.app_at_hook():
                break
            if not self.ctl.tick("C", tmo=tmo):
                break
        self._account()
        return True

    def loop_to_hook(self, tmo):
        if not self.ctl.tick("S", tmo=tmo):
            return False
        for _ in range(40):
            if self.loop_at_hook():
                break
            if not self.ctl.tick("S", tmo=False):
                break
        return True

    def settle(self):
        """a freshly started loop thread runs up to its first do(); a join completes as soon as the loop thread is dead"""
        for _ in range(40):
            if self.loop_at_hook():
                break
            if not self.ctl.tick("S", tmo=False):
                break
        st, info = self.ctl.status("C")
        if st == "blocked" and info[0] == "join" and not self.loop_alive():
            self.app_to_hook()

    def call(self, what, *args):
        self.cur_call = what
        self.ctl.call(what, *args)
        self._account()

    def obs(self):
        st, info = self.ctl.status("S")
        lc = "none" if st == "absent" else "dead" if st == "done" else "do" if (st == "parked" and info == DO_LABEL) else \
            "sleep" if st == "blocked" else "mid"
        st, info = self.ctl.status("C")
        ac = "idle" if st in ("absent", "done") else "wake" if (st == "parked" and info == _wake_label()) else \
            "join" if st == "blocked" else "mid"
        return "do=%d done=%d refused=%d started=%d loop=%s app=%s bad=0" % (len(self.ctl.dos), self.ctl.n_done, self.refused, self.started, lc, ac)


def gen_schedule(rng, n):
    """schedule tokens; generated against a tiny abstract view so that most steps are enabled"""
    sched = ["C start"]
    for _ in range(n):
        r = rng.random()
        if r < 0.40:
            sched.append(rng.choice(["L", "Lt", "Lt"]))
        elif r < 0.60:
            sched.append("A")
        elif r < 0.78:
            sched.append("C stop %s %s" % (rng.choice("TF"), rng.choice("TF")))
        elif r < 0.86:
            sched.append("C wake")
        elif r < 0.96:
            sched.append("C start")
        else:
            sched.append("C wait")
    return sched


def run_schedule_real(sched, model_obs=None):
    """executes a hook-level schedule on the real Runnable (same skip rules as the driver layer `proto`: an application call
    while the application thread is busy is not issued; a start() while the loop thread is alive is not issued — it would sit
    one second in join(timeout=1))"""
    pr = ProtoRun()
    out = []
    try:
        for tok in sched:
            if tok in ("L", "Lt"):
                if pr.loop_at_hook():
                    pr.loop_to_hook(tok == "Lt")
                pr.settle()
            elif tok == "A":
                if pr.app_busy():
                    pr.app_to_hook()
                pr.settle()
            elif tok.startswith("C "):
                parts = tok.split()
                if not pr.app_busy():
                    if parts[1] == "stop":
                        pr.call("stop", parts[2] == "T", parts[3] == "T")
                        if pr.app_busy() and not pr.app_at_hook():
                            pr.app_to_hook()
                        pr.settle()
                    elif parts[1] == "start":
                        if not pr.loop_alive():
                            pr.call("start")
                            if pr.app_busy():
                                pr.app_to_hook()
                            pr.settle()
                    elif parts[1] == "wake":
                        pr.call("wake")
                    elif parts[1] == "wait":
                        pr.call("wait", False)
                        if pr.app_busy() and not pr.app_at_hook():
                            pr.app_to_hook()
                        pr.settle()
            out.append(pr.obs())
        exc = pr.ctl.last_ret if pr.ctl.last_ret not in ("-", "RuntimeError") and not pr.ctl.last_ret.startswith("ok") else None
        return out, exc
    finally:
        pr.ctl.close()


def model_schedule(scheds):
    lines = []
    for sched in scheds:
        lines.append("reset")
        lines += sched
    return lines, run_driver("proto", lines)


def _split_model(scheds, obs):
    """cut the driver output of model_schedule(scheds) back into one list per schedule (first entry: the state after reset)"""
    out, pos = [], 0
    for sched in scheds:
        out.append(obs[pos: pos + 1 + len(sched)])
        pos += 1 + len(sched)
    return out


def corr_proto(rng, nsched, slen):
    """the schedules are first filtered through the model so that both sides skip the same disabled calls (two driver runs in all)"""
    dis, nsteps = [], 0
    raw = [gen_schedule(rng, slen) for _ in range(nsched)]
    _lines, obs = model_schedule(raw)
    kept = []
    for sched, ob in zip(raw, _split_model(raw, obs)):
        # drop calls made while the app thread is busy or a start while the loop is alive
        keep, state = [], ob[0]
        for tok, o in zip(sched, ob[1:]):
            busy = "app=idle" not in state
            alive = ("loop=none" not in state) and ("loop=dead" not in state)
            if tok.startswith("C ") and busy:
                pass
            elif tok == "C start" and alive:
                pass
            else:
                keep.append(tok)
            state = o
        kept.append(keep)
    all_lines, obs = model_schedule(kept)
    for keep, ob in zip(kept, _split_model(kept, obs)):
        real, exc = run_schedule_real(keep, ob[1:])
        nsteps += len(keep)
        for i, (r, m) in enumerate(zip(real, ob[1:])):
            if r != m:
                dis.append({"layer": "proto", "schedule": keep[:i + 1], "implementation": r, "model": m, "app_exception": exc})
                break
    return all_lines, nsteps, dis


# ------------------------------------------------------------------ (c) notifications

def real_notify(mask, k, queue):
    import_repo()
    from cloudsync.notification import NotificationManager, Notification, NotificationType, SourceEnum
    got = []

    def handler(n):
        got.append(n.path)
        if (mask >> int(n.path[1:])) & 1:
            raise RuntimeError("handler failure (scripted)")
    nm = NotificationManager(handler)
    for q in queue:
        if q == "~":
            nm._NotificationManager__queue.put(None)
        else:
            nm.notify(Notification(SourceEnum.SYNC, NotificationType.TEMPORARY_ERROR, q))
    left = len(queue)
    stopped = False
    for _ in range(k):
        if stopped or left == 0:
            break
        head = queue[len(queue) - left]
        if nm._NotificationManager__queue.qsize() != left:
            return " ".join(got) + " | queue holds %d entries where %d were expected (do() consumed more than one)" % (
                nm._NotificationManager__queue.qsize(), left)
        nm.do()
        left -= 1
        if head == "~":
            stopped = True
    return " ".join(got) + " | stop=%s left=%d" % ("true" if stopped else "false", left)


def corr_notify(rng, n):
    lines, cases = [], []
    for _ in range(n):
        ids = list(range(rng.randint(0, 8)))
        rng.shuffle(ids)
        queue = ["n%d" % i for i in ids]
        for _ in range(rng.choice([0, 0, 1, 2])):
            queue.insert(rng.randint(0, len(queue)), "~")
        mask = rng.getrandbits(8)
        k = rng.randint(0, len(queue) + 2)
        cases.append((mask, k, queue))
        lines.append("%d %d %s" % (mask, k, " ".join(queue)))
    model = run_driver("notify", lines)
    dis = []
    for (mask, k, queue), line, m in zip(cases, lines, model):
        # the model blocks on an empty queue (would wait forever): the harness stops calling do() there as well
        r = real_notify(mask, k, queue)
        if r != m:
            dis.append({"layer": "notify", "line": line, "implementation": r, "model": m})
    return lines, dis


# ------------------------------------------------------------------ (d) two-thread small-step model vs the real code, statement by statement

OUTS = "SSNBEXF"
START = ["call start"] + ["C F"] * 7


def _s(rng, tmo=False, untl=False):
    return "S %s %s %s" % ("T" if tmo else "F", rng.choice(OUTS), "T" if untl else "F")


def words(nc, ns):
    """all interleavings of nc caller ticks with ns service ticks"""
    from itertools import combinations
    for pos in combinations(range(nc + ns), ns):
        yield ["S" if i in pos else "C" for i in range(nc + ns)]


def tail_after_stop(rng, f):
    """after the window: the service thread alone (no sleep ever times out), the caller finishes; then the restart leg"""
    t = [_s(rng) for _ in range(12)] + ["C F"] * 3 + [_s(rng, tmo=True) for _ in range(10)] + ["C F"]
    if f:
        t += ["call start", "C F", "C F"]
    else:
        t += ["call start"] + ["C F"] * 8 + [_s(rng) for _ in range(5)] + ["call stop T T"] + ["C F"] * 6 + \
            [_s(rng, tmo=True) for _ in range(12)] + ["C F"] * 2 + ["call start", "C F", "C F"]
    return t


def window_schedules(rng, nc, ns, combos):
    """EXHAUSTIVE for the prologue window: start() has returned, the service thread has not executed a statement of run() yet;
    every interleaving of the first nc statements of stop(forever, wait) with the first ns statements of run()"""
    out = []
    for (f, w) in combos:
        for word in words(nc, ns):
            sched = START + ["call stop %s %s" % ("T" if f else "F", "T" if w else "F")] + \
                [("C F" if x == "C" else _s(rng)) for x in word] + tail_after_stop(rng, f)
            out.append(("window", sched))
    return out


def restart_schedules(rng, nc, ns, limit):
    """start() racing the exit of the old loop: stop(False, wait=False) has returned while the loop is somewhere in its body;
    every interleaving (or a sample of `limit`) of the first nc statements of the new start() with the next ns statements of run()"""
    allw = list(words(nc, ns))
    if limit is not None and len(allw) > limit:
        allw = rng.sample(allw, limit)
    out = []
    for word in allw:
        k0 = rng.choice([3, 4, 5, 6])
        tm = rng.choice("TF")
        sched = START + [_s(rng) for _ in range(k0)] + ["call stop F F"] + ["C F"] * 5 + ["call start"] + \
            [("C " + tm if x == "C" else _s(rng, tmo=True)) for x in word] + ["C T"] * 4 + [_s(rng, tmo=True) for _ in range(14)] + \
            ["call stop T T"] + ["C F"] * 6 + [_s(rng, tmo=True) for _ in range(12)] + ["C F"] * 2
        out.append(("restart", sched))
    return out


def random_schedules(rng, n, lo, hi):
    out = []
    for _ in range(n):
        sched = list(START) if rng.random() < 0.8 else []
        for _ in range(rng.randint(lo, hi)):
            r = rng.random()
            if r < 0.45:
                sched.append(_s(rng, tmo=rng.random() < 0.5, untl=rng.random() < 0.05))
            elif r < 0.75:
                sched.append("C " + ("T" if rng.random() < 0.3 else "F"))
            else:
                q = rng.random()
                if q < 0.5:
                    sched.append("call stop %s %s" % (rng.choice("TF"), rng.choice("TF")))
                elif q < 0.7:
                    sched.append("call start")
                elif q < 0.85:
                    sched.append("call wake")
                else:
                    sched.append("call wait " + rng.choice("TF"))
        out.append(("random", sched))
    return out


# the schedule of the fixed finding wake-attributeerror-…: on the pre-fix code the 4th caller tick of stop() raised AttributeError
ATTRERR_SCHED = START + ["S F S T"] * 5 + ["call stop T T", "C F", "C F", "C F", "S F S F", "S F S F", "S F S F", "C F", "S F S F", "S F S F",
                                      "C F", "C F", "C F"]
ALREADY_SCHED = START + ["S F S F"] * 5 + ["call stop F F"] + ["C F"] * 5 + ["call start", "C F", "C F", "C F", "C T", "C F"]


def judge(sched, facts):
    """C18's own statements (exactly the hypotheses of no_attribute_error, stop_returns_normally, stop_is_never_lost, loop_exits_after_stop(_interleaved),
    no_do_after_waiting_stop_returns, restart_after_nonfinal_stop_partial, no_restart_after_final_stop) evaluated on one run of
    the real code.  -> list of failures"""
    bad = []
    last_call = None
    req = None            # (index, do count) : a stop() has been issued (returned normally, or sits in its join) and no start() since
    s_moved = 0           # service statements executed since then
    quiet = None          # (index, do, done) : a waiting stop() / a wait() has returned and no start() since
    final_done = False    # the last completed stop() was final (and no non-final stop() was begun since)
    restartable = False   # the last completed call was stop(False, True) -> a start() must succeed
    expect_start = None   # "refuse" | "ok"
    fresh = None          # (index, do) after a successful restart: the loop must run again
    fresh_s = 0
    raised_seen = False
    for i, (tok, f) in enumerate(zip(sched, facts)):
        p = tok.split()
        issued = p[0] == "call" and f["moved"]
        if issued:
            what = p[1]
            last_call = (what, tuple(p[2:]))
            raised_seen = False
            fresh = None
            if what == "start":
                expect_start = "refuse" if final_done else ("ok" if restartable else None)
                req, quiet, s_moved = None, None, 0
            if what == "stop" and p[2] == "F":
                final_done = False
            restartable = False
        svc_alive = f["svc"] not in ("absent", "done")
        done_call = f["cal"] == "done"
        if done_call and last_call and not raised_seen:
            if f["ret"] == "AttributeError":
                bad.append({"statement": "no API call raises AttributeError (no_attribute_error)", "at": i, "call": " ".join(last_call[:1] + tuple(last_call[1]))})
                raised_seen = True
            elif last_call[0] == "stop" and f["ret"] != "ok:None":
                bad.append({"statement": "stop() always returns normally (stop_returns_normally)", "at": i, "result": f["ret"]})
                raised_seen = True
        if last_call and last_call[0] == "stop":
            if req is None and (f["cal"] == "blocked" or (done_call and f["ret"] == "ok:None")):
                req, s_moved = (i, f["do"]), 0
            if done_call and f["ret"] == "ok:None":
                if last_call[1][0] == "T":
                    final_done = True
                if last_call[1][1] == "T" and quiet is None:
                    quiet = (i, f["do"], f["done"])
                    if svc_alive:
                        bad.append({"statement": "when stop(wait=True) returns the loop thread has ended", "at": i})
                    if last_call[1][0] == "F":
                        restartable = True
        if last_call and last_call[0] == "wait" and done_call and f["ret"] == "ok:True" and quiet is None:
            quiet = (i, f["do"], f["done"])
            if svc_alive:
                bad.append({"statement": "when wait() returns True the loop thread has ended", "at": i})
        if last_call and last_call[0] == "start" and done_call and expect_start:
            if expect_start == "refuse" and f["ret"].startswith("ok"):
                bad.append({"statement": "a finally stopped service refuses to start again", "at": i})
            if expect_start == "ok":
                if f["ret"] != "ok:None":
                    bad.append({"statement": "start() after a completed stop(forever=False, wait=True) starts the loop again", "at": i,
                                "start_result": f["ret"]})
                else:
                    fresh, fresh_s = (i, f["do"]), 0
            expect_start = None
        if p[0] == "S" and req is not None and i > req[0]:
            before_alive = facts[i - 1]["svc"] not in ("absent", "done")
            if f["moved"]:
                s_moved += 1
                if s_moved >= 12 and svc_alive:
                    bad.append({"statement": "once stop() has been issued (and start() is not called again) the loop thread ends within 11 of its "
                                             "own statements", "stop_issued_at": req[0], "at": i, "do_calls_since": f["do"] - req[1]})
                    req = None
            elif before_alive and p[1] == "F":
                bad.append({"statement": "once stop() has been issued the loop thread never sleeps through it (here: blocked in its sleep, "
                                         "not woken, with the stop request pending)", "stop_issued_at": req[0], "at": i})
                req = None
        if req is not None and f["do"] > req[1] + 1:
            bad.append({"statement": "once stop() has been issued (its flag write done, start() not called again) at most one further do() begins",
                        "stop_issued_at": req[0], "at": i, "do_calls_since": f["do"] - req[1]})
            req = None
        if quiet is not None and (f["do"] != quiet[1]):
            bad.append({"statement": "once a waiting stop() / wait() has returned the work function is never called again (until start())",
                        "returned_at": quiet[0], "at": i, "do_calls_since": f["do"] - quiet[1]})
            quiet = None
        if fresh is not None and p[0] == "S" and f["moved"]:
            fresh_s += 1
            if fresh_s == 5 and f["do"] < fresh[1] + 1:
                bad.append({"statement": "after a restart the loop runs again: do() is called within the first five statements of run()",
                            "restarted_at": fresh[0], "at": i})
    return bad


FIXED_SCHED = START + ["S F S F"] * 5 + ["call stop T T", "C F", "C F", "C F", "C F"] + ["S F S F"] * 12 + ["C F"] * 3


def judge_done(sched, facts):
    """cleanup: done() runs at most once per started thread, and exactly once when a final waiting stop() issued to a live loop has
    returned (Props/C18Threads.lean cleanup_at_most_once_per_start, cleanup_exactly_once_after_final_waiting_stop, cleanup_only_after_final_stop; coarse model:
    Props/C18.lean protocol_safe P2/P3)"""
    bad = []
    starts_ok, pend = 0, None
    last = None
    final_issued = False
    for i, (tok, f) in enumerate(zip(sched, facts)):
        p = tok.split()
        if p[0] == "call" and f["moved"]:
            last = p[1:]
            if p[1] == "stop" and p[2] == "T":
                final_issued = True
            pend = {"i": i, "done": f["done"], "live": None} if (p[1] == "stop" and p[2] == "T" and p[3] == "T") else None
        if pend is not None and pend["live"] is None and p[0] == "C" and f["moved"]:
            pend["live"] = facts[i - 1]["svc"] not in ("absent", "done")
        if last and last[0] == "start" and f["cal"] == "done" and f["ret"] == "ok:None":
            starts_ok += 1
            last = None
        if f["done"] > starts_ok:
            bad.append({"statement": "cleanup (done()) runs at most once per started service thread", "at": i})
            break
        if f["done"] > 0 and not final_issued:
            bad.append({"statement": "cleanup (done()) runs only for a final stop: no stop(forever=True) has been issued, yet done() was called", "at": i})
            break
        if pend is not None and f["cal"] == "done" and f["ret"] == "ok:None":
            if pend["live"] and f["done"] != pend["done"] + 1:
                bad.append({"statement": "after a final waiting stop() of a live loop has returned, cleanup (done()) has run exactly once",
                            "stop_issued_at": pend["i"], "at": i, "done_calls_since": f["done"] - pend["done"]})
            pend = None
    return bad


def corr_threads(scheds):
    """run every schedule on the real Runnable (c18_sched) and on the model (driver layer `threads`), compare the observable
    summary after every tick; evaluate the property statements on the real run as well"""
    lines = []
    for (_fam, sched) in scheds:
        lines.append("reset 0")
        lines += sched
    model = run_driver("threads", lines)
    dis, fails, pairs, leaked, ticks = [], [], {}, 0, 0
    pos = 0
    for (fam, sched) in scheds:
        mobs = model[pos + 1: pos + 1 + len(sched)]
        pos += 1 + len(sched)
        robs, facts, lk = c18_sched.run_real(sched)
        leaked += lk
        ticks += len(sched)
        for i, (r, m) in enumerate(zip(robs, mobs)):
            key = r.split("|stopping")[0]
            pairs[key] = pairs.get(key, 0) + 1
            if r != m:
                dis.append({"layer": "threads", "family": fam, "schedule": sched[:i + 1], "implementation": r, "model": m})
                break
        for b in judge(sched, facts) + judge_done(sched, facts):
            b2 = dict(b)
            b2.update({"family": fam, "schedule": sched[:b["at"] + 1], "observed": robs[b["at"]]})
            fails.append(b2)
    return lines, ticks, dis, fails, pairs, leaked


# ------------------------------------------------------------------ the generated statement / write-site table

def sites_obligation():
    """regenerate Gen/RunnableSites.lean from the repo under test, build Props/C18Sites.lean (kept outside the default import
    closure) and audit its two theorems; everything under one lock.  -> (ok, detail, n_stmts, changed)"""
    import fcntl
    import subprocess
    sys.path.insert(0, os.path.join(VERIF, "tools"))
    import gen_runnable_sites
    os.makedirs(os.path.join(LEAN, ".lake"), exist_ok=True)
    thms = ["CS.Runnable.Th.runnable_stmts_are_audited", "CS.Runnable.Th.runnable_writes_are_audited"]
    with open(os.path.join(LEAN, ".lake", "c18sites.lock"), "w") as lk:
        fcntl.flock(lk, fcntl.LOCK_EX)
        try:
            stmts, writes, changed = gen_runnable_sites.generate(write=True)
            ok, log = lean_build_module("Csverif.Props.C18Sites")
            if not ok:
                return False, "Props/C18Sites.lean no longer checks (statement / write-site table of runnable.py differs from the audited one): " \
                    + log[-500:], len(stmts), changed
            adir = os.path.join(LEAN, ".lake", "audit")
            os.makedirs(adir, exist_ok=True)
            fn = os.path.join(adir, "Audit_C18Sites_%d.lean" % os.getpid())
            with open(fn, "w") as f:
                f.write("import Csverif.Props.C18Sites\n" + "".join("#print axioms %s\n" % t for t in thms))
            p = subprocess.run(["lake", "env", "lean", fn], cwd=LEAN, capture_output=True, text=True, timeout=1800)
            os.unlink(fn)
            out = p.stdout + p.stderr
            n_ok = 0
            for t in thms:
                m = re.search(r"'%s' depends on axioms: \[([^\]]*)\]" % re.escape(t), out)
                if ("'%s' does not depend on any axioms" % t) in out:
                    n_ok += 1
                elif m and all(a.strip() in ALLOWED_AXIOMS for a in m.group(1).replace("\n", " ").split(",") if a.strip()):
                    n_ok += 1
            if n_ok == len(thms):
                return True, "", len(stmts), changed
            return False, "audit of the C18Sites theorems failed: " + out[-400:], len(stmts), changed
        finally:
            fcntl.flock(lk, fcntl.LOCK_UN)


def table_diff():
    """human-readable difference between the extracted and the audited statement table (for the replay file)"""
    try:
        sys.path.insert(0, os.path.join(VERIF, "tools"))
        import gen_runnable_sites
        stmts, writes = gen_runnable_sites.analyse(gen_runnable_sites.read_source())
        src = open(os.path.join(LEAN, "Csverif", "Model", "RunnableThreads.lean"), encoding="utf8").read()
        aud = re.findall(r'^  \("([^"]*)", "([^"]*)", "([^"]*)", "((?:[^"\\]|\\.)*)"\),?$', src, re.M)
        aud = [tuple(x.replace('\\"', '"') for x in row) for row in aud]
        cur = [(m, c, k, t) for (m, c, k, t, _l) in stmts]
        return {"only_in_source": [list(r) for r in cur if r not in aud][:8], "only_in_audited_table": [list(r) for r in aud if r not in cur][:8]}
    except Exception as e:  # noqa
        return {"error": repr(e)}


# ------------------------------------------------------------------ property oracle (search after a break)

def oracle(rng, tier):
    """C18's own statements on the implementation.  Returns a failing case or None."""
    # geometric bounded backoff + reset + survival
    for _ in range(300):
        mn = rng.choice([0.01, 0.5, 1.0]); mx = rng.choice([1.0, 4.0, 100.0]); mult = rng.choice([1.0, 1.5, 2.0, 3.0])
        k = rng.randint(1, 8)
        outs = [rng.choice("BEXF") for _ in range(k)] + ["S", "N", rng.choice("BEXF"), "N"]
        pre = "".join(rng.choice("SN") for _ in range(rng.randint(0, 3)))
        seq = list(pre) + outs + ["S"]
        bf, sleeps = real_runseq(mn, mx, mult, 0.001, 0, seq)
        want = [0.001] * len(pre) + [min(mx, mn * mult ** i) for i in range(k)] + [0.001, 0.001, min(mx, mn), min(mx, mn)]
        if len(sleeps) != len(want) or any(abs(a - b) > 1e-9 * max(1, b) for a, b in zip(sleeps, want)):
            return {"statement": "after k consecutive failures wait min(max, min*mult^(k-1)); a success that did something clears it; a no-op keeps it; the loop survives every exception",
                    "params": {"min": mn, "max": mx, "mult": mult, "sleep": 0.001}, "outcomes": "".join(seq), "sleeps_requested": sleeps, "expected": want}
    # protocol: random prefix without final stops, drained, then a final waiting stop
    for _ in range(40 if tier == "quick" else 400):
        prefix = [t for t in gen_schedule(rng, 12) if not t.startswith("C stop T")]
        drain = ["A", "Lt", "Lt", "A", "Lt", "Lt", "A"]
        sched = prefix + drain
        real, exc = run_schedule_real(sched, None)
        f0 = dict(x.split("=") for x in real[-1].split())
        if f0["app"] != "idle":
            continue
        was_alive = f0["loop"] in ("do", "sleep")
        tail = ["C stop T T", "A", "Lt", "Lt", "A", "Lt"]
        after = ["Lt", "Lt", "C start", "Lt", "Lt"]
        real2, exc2 = run_schedule_real(sched + tail + after, None)
        f1 = dict(x.split("=") for x in real2[len(sched) + len(tail) - 1].split())
        f2 = dict(x.split("=") for x in real2[-1].split())
        full = sched + tail + after
        if exc or exc2:
            return {"statement": "stop/start/wake/wait never raise unexpectedly", "schedule": full, "exception": exc or exc2}
        if f1["app"] != "idle" or f1["loop"] not in ("dead", "none"):
            return {"statement": "a waiting final stop returns with the loop terminated", "schedule": full, "observed": real2[len(sched) + len(tail) - 1]}
        if was_alive and int(f1["done"]) != int(f0["done"]) + 1:
            return {"statement": "cleanup has run exactly once after a final stop of a running service", "schedule": sched + tail,
                    "observed": real2[len(sched) + len(tail) - 1], "before": real[-1]}
        if int(f2["do"]) != int(f1["do"]):
            return {"statement": "once stop() has returned the work function is never called again", "schedule": full, "observed": real2[-1]}
        if int(f2["started"]) != int(f1["started"]):
            return {"statement": "a finally stopped service refuses to start again", "schedule": full, "observed": real2[-1]}
    # notifications: order, exactly once, handler failures do not stop deliveries
    for _ in range(200):
        n = rng.randint(1, 9)
        q = ["n%d" % i for i in range(n)]
        mask = rng.getrandbits(n)
        r = real_notify(mask, n, q)
        if r.split(" | ")[0] != " ".join(q):
            return {"statement": "notifications are delivered one at a time in order, each exactly once, even if the handler raises",
                    "raised": q, "handler_raises_on_mask": mask, "delivered": r}
    return None


def search_threads(rng, tier):
    """after a break: look for a schedule on which one of the statements fails on the real code (larger windows, more samples)"""
    fams = [window_schedules(rng, 6, 4, [(False, False), (False, True), (True, True), (True, False)]),
            restart_schedules(rng, 6, 6, 150 if tier == "quick" else None),
            random_schedules(rng, 300 if tier == "quick" else 3000, 20, 70)]
    for fam in fams:
        for (name, sched) in fam:
            robs, facts, _lk = c18_sched.run_real(sched)
            for b in judge(sched, facts) + judge_done(sched, facts):
                b2 = dict(b)
                b2.update({"family": name, "schedule": sched[:b["at"] + 1], "observed": robs[b["at"]],
                           "how_to_replay": "cd harness && printf '%s\\n' <schedule tokens, one per line> | /venv/bin/python c18_sched.py"})
                return b2
    return None


def replay_schedule(res, path):
    """--replay <file>: run the statement-level schedule of a replay file on the real code and on the model, print both traces,
    re-evaluate the property statements"""
    with open(path) as f:
        rp = json.load(f)
    fl = rp.get("failing") or (rp.get("first_disagreements") or [{}])[0]
    sched = fl.get("schedule")
    if not isinstance(sched, list) or not sched or sched[0].split()[0] not in ("call", "C", "S"):
        print("replay file has no statement-level schedule (layer %s)" % fl.get("layer"))
        return
    robs, facts, _lk = c18_sched.run_real(sched)
    mobs = run_driver("threads", ["reset 0"] + sched)[1:]
    for tok, r, m in zip(sched, robs, mobs):
        print("%-16s real : %s" % (tok, r))
        if r != m:
            print("%-16s model: %s" % ("", m))
    bad = judge(sched, facts) + judge_done(sched, facts)
    for b in bad:
        print("FAILS: %s (tick %d)" % (b["statement"], b["at"]))
    if bad:
        res.violation({"property": PID, "kind": "statement fails on implementation (replay)", "failing": dict(bad[0], schedule=sched[:bad[0]["at"] + 1])})


def run(res, tier, seed, proof_broken, replay):
    if replay:
        replay_schedule(res, replay)
        return
    rng = rng_for(seed, "c18")
    opens, fixed = load_known_findings(PID)
    broken = list(proof_broken)
    phase, t_ph = {}, [time.time()]

    def lap(name):
        phase[name] = round(time.time() - t_ph[0], 1)
        t_ph[0] = time.time()
    # 1b. the statement / write-site table of runnable.py extracted from the repo under test = the audited table (Props/C18Sites.lean)
    ok_sites, detail, n_stmts, changed = sites_obligation()
    if not ok_sites:
        broken.append(detail)
    lap("sites_table")
    # 2. known-finding / fixed-entry / documented-counterexample replays on the real code (deterministic schedules)
    robs, facts, _lk = c18_sched.run_real(ATTRERR_SCHED)
    raised = [i for i, f in enumerate(facts) if f["ret"] == "AttributeError"]
    ident = "wake-attributeerror-loop-exits-between-167-and-170"
    if ident in opens:
        if raised:
            res.known.append(ident + " :: " + opens[ident])
        else:
            res.notes.append("known finding %s is stale (the schedule no longer raises)" % ident)
    elif raised:
        # listed as fixed (or not listed at all): wake() must read the event once; the exact schedule is a regression check
        res.violation({"property": PID, "kind": "regression of fixed finding", "id": ident, "schedule": ATTRERR_SCHED[:raised[0] + 1],
                       "observed": robs[raised[0]], "statement": "stop()/wake() never raise AttributeError (Props/C18Threads.lean no_attribute_error, "
                       "stop_returns_normally); witness of the pre-fix program: wake_twice_raises",
                       "how_to_replay": "cd harness && printf '%s\\n' <schedule tokens> | /venv/bin/python c18_sched.py"})
    else:
        res.notes.append("fixed finding %s: its schedule completes without exception on the real code (stop() -> %s)" % (ident, facts[-1]["ret"]))
    robs2, facts2, _lk = c18_sched.run_real(ALREADY_SCHED)
    res.notes.append("restart_refused_while_old_loop_alive replayed on the real code: start() -> %s" % facts2[-1]["ret"])
    if "stop-final-race-skips-done" in fixed:
        robs3, facts3, _lk = c18_sched.run_real(FIXED_SCHED)
        for b in judge_done(FIXED_SCHED, facts3):
            res.violation({"property": PID, "kind": "regression of fixed finding", "id": "stop-final-race-skips-done",
                           "failing": b, "schedule": FIXED_SCHED[:b["at"] + 1], "observed": robs3[b["at"]]})
    # 3. correspondence
    n1, n2, n3, slen = (300, 40, 300, 14) if tier == "quick" else (5000, 250, 5000, 20)
    lap("replays")
    l1, d1 = corr_runseq(rng, n1)
    lap("runseq")
    l2, steps2, d2 = corr_proto(rng, n2, slen)
    lap("proto")
    l3, d3 = corr_notify(rng, n3)
    lap("notify")
    combos = [(False, False), (False, True), (True, True), (True, False)]
    if tier == "quick":
        scheds = window_schedules(rng, 6, 3, combos) + restart_schedules(rng, 6, 6, 40) + random_schedules(rng, 120, 15, 60)
    else:
        scheds = window_schedules(rng, 7, 5, combos) + restart_schedules(rng, 6, 6, None) + random_schedules(rng, 2500, 15, 90)
    scheds += [("witness", ATTRERR_SCHED), ("witness", ALREADY_SCHED), ("witness", FIXED_SCHED)]
    l4, ticks4, d4, fails4, pairs, leaked = corr_threads(scheds)
    lap("threads")
    fam_hist = {}
    for (fam, _s2) in scheds:
        fam_hist[fam] = fam_hist.get(fam, 0) + 1
    dis = d1 + d2 + d3 + d4
    res.coverage.update({
        "evaluations": len(l1) + steps2 + len(l3) + ticks4, "programs": n1 + n2 + n3 + len(scheds),
        "distinct_nontrivial": len(set(l1)) + len(set(l3)) + len({tuple(x) for x in [tuple(l2[i:i + 6]) for i in range(0, len(l2), 6)]})
        + len({tuple(sc) for (_f, sc) in scheds}),
        "rule": "(a) random backoff parameter triples x outcome sequences (success/no-op/backoff request/Exception/BaseException), requested sleeps "
                "compared with relative tolerance 1e-9; (b) random hook-level schedules (loop: do/sleep; application: wake/join) against the coarse "
                "protocol model; (c) random notification queues with stop markers and failing handlers; (d) statement-level schedules of the real "
                "start/stop/wake/wait (caller thread) and run (service thread), single-stepped with settrace + stub Thread/Event: EXHAUSTIVE "
                "interleavings of stop(forever,wait) with the prologue of run() after start() returned (all 4 argument combinations), interleavings "
                "of a restart with the exit of the old loop, random schedules; flags, statement labels of both threads, do()/done() counts, call "
                "results and in_backoff compared with the two-thread Lean model after EVERY tick; distinct = distinct input lines / schedules",
        "samples": [{"runseq": l1[0]}, {"proto": l2[:12]}, {"notify": l3[0]}, {"threads": l4[:24]}],
        "disagreements_checked": len(dis), "schedule_steps": steps2, "thread_ticks": ticks4, "thread_schedule_families": fam_hist,
        "thread_states_visited": len(pairs),
        "thread_states_histogram_top": dict(sorted(pairs.items(), key=lambda kv: -kv[1])[:12]),
        "phase_seconds": phase, "statement_table_rows": n_stmts, "statement_table_regenerated": changed, "leaked_threads": leaked,
        "fingerprints": fingerprints(FP_SPEC), "protocol_states_in_certificate": 1235,
    })
    res.assumptions += ["binary floating point in the implementation vs Rat in the model: compared with relative tolerance 1e-9",
                        "the real threads are single-stepped at LINE granularity (sys.settrace) with threading.Thread/Event replaced by "
                        "scheduler-controlled stubs inside cloudsync.runnable; interleavings finer than a source line (the two flag reads of "
                        "lines 100 / 119) are covered by the theorems only",
                        "one caller thread issues stop/start/wake/wait calls sequentially; stop() from inside do() and run(timeout=...) are not modelled"]
    if dis:
        broken.append("correspondence %s-layer: %r" % (dis[0]["layer"], dis[0]))
    # 4. the property's own statements on the implementation
    if fails4:
        res.violation({"property": PID, "kind": "statement fails on implementation", "failing": fails4[0], "other_failures": len(fails4) - 1,
                       "broken": broken, "how_to_replay": "cd harness && printf '%s\\n' <schedule tokens> | /venv/bin/python c18_sched.py"})
    elif broken:
        hit = search_threads(rng_for(seed, "c18search-threads"), tier) or oracle(rng_for(seed, "c18search"), tier)
        if hit:
            res.violation({"property": PID, "kind": "statement fails on implementation", "failing": hit, "broken": broken})
        else:
            res.violation({"property": PID, "kind": "proof obligation or correspondence no longer checks", "broken": broken,
                           "first_disagreements": dis[:3], "statement_table_difference": None if ok_sites else table_diff()}, no_input=True)


if __name__ == "__main__":
    standard_main(PID, run)
