"""C14 - events are hints: duplicated, delayed, reordered, replayed events change nothing.

Two ties (DESIGN.md section 6 C14, BUILDING.md):

 (1) model tie: the Lean model lean/Csverif/Model/Hints.lean (one side of an entry as the event layer and
     `get_latest` see it; `_process_event`'s id-less / walk rules) is executed differentially against a real
     `SyncState` + `MockProvider` pair and a real `EventManager`: arbitrary event field values, all six Exists
     values, both id styles, forced and non-forced `get_latest`.
 (2) trace refinement on the whole engine: every generated history (reliable families only) is run twice from
     identical worlds - once with prompt in-order event delivery (run A), once through an event-mangling wrapper
     around each provider's `events()` (run B) - and the two runs are compared at every quiescence by the Lean
     layer `monc14` (Driver/MonC14.lean, spec Model/Spec/Mangle.lean): B converged (`converged` of Model/Spec/Sync.lean),
     exactly A's trees on both sides, no '.conflicted' artefact A does not have, and - for the window-synchronous
     families without name reuse - no spurious write: the multiset of B's EFFECTIVE engine-issued writes is contained
     in A's.  What is counted (CallLog.reduced): every create and upload as (side, 'put', content written); a delete /
     mkdir / rename only if it changed the provider's tree (a mkdir of an existing folder, a delete of an object that is
     already gone are re-issued no-ops: nothing is transferred, deleted or moved), keyed by (side, 'delete', birth
     content of the file | 'D'), (side, 'mkdir' | 'rename', final path of the object).  At the end of run B the whole
     tree is replayed as walk events and (id-stable sides) the whole past event log is re-delivered: that must cause NO
     provider call at all, effective or not (`replayQuiet`).

Mangling kinds (per side; path-id sides only get the ones marked *):
   dup*      an event is delivered twice or three times (path-id side: adjacent copies only)
   batch*    a batch is split into single-event deliveries (path-id side: only in window-synchronous families, and the
             events of an id stay together with the event that ends the id)
   walk*     full walks interleaved (cs.walk(side) / need_walk) at arbitrary L/R steps (path-id side: only when no
             genuine event is waiting)
   idless*   an extra event with oid=None (file / folder, exists True/False/None, with or without path, incl. the
             dropbox-style folder delete matched by path)
   vanished* an extra event for an id the provider does not know (never existed; or existed and is gone - on a path-id
             side only ids that were DELETED)
   delay     arbitrary finite delay and permutation within a window        (id-stable sides only)
   replay    an arbitrary old event of the log is delivered again later    (id-stable sides only)
   droppath  the path field of an event is dropped                          (id-stable sides only)
 Histories that reuse a name inside an unsynced window, or rename a folder in the window in which something was created
 in it, are skipped (known weak spots of the pinned engine); the final replay is judged only when the two sides are exactly
 equal (on case-insensitive flavours C01's relation accepts an unpropagated case-only rename).
 Every restriction above is the by-construction exclusion of a shape on which the pinned engine itself violates C14;
 each such shape is an exact replay in KNOWN (known_findings.txt).
"""
import collections
import io
import os
import random
import sys
import time as _time

sys.path.insert(0, os.path.dirname(os.path.abspath(__file__)))
from histories import *  # noqa
import engine_checks as EC

PID = "C14"
ALL = list(FLAVOURS)
OID_LOCAL = ["oid-oid", "oid-oid-ci"]
KINDS_ANY = ["dup", "batch", "walk", "idless", "vanished"]
KINDS_STABLE = ["delay", "replay", "droppath", "hold", "walkonly", "dirlast"]
# dirlast  a child's event precedes its parent's: every "exists" event of a FOLDER of the side is kept back - either for an
#          arbitrary number (0..12) of delivery opportunities, or ("drain") until the engine has worked its changeset empty
#          and is completely idle - while the events of files are delivered promptly               (id-stable sides only)
KINDS = KINDS_ANY + ["delay", "replay", "droppath"]          # the kinds of the random families (one at a time and all together)
# hold     every event of the side is held back until the engine has gone completely quiet on everything else (the other
#          side's changes are taken in AND synced first), then released                     (id-stable sides only)
# walkonly the provider's own events of the side are never delivered; what changed reaches the engine only through full
#          walks (cs.walk(side) / the automatic walk of need_walk) made when the rest is quiet   (id-stable sides only;
#          histories without deletions on that side: a walk cannot show a deletion)


# ======================================================================================================================
#  part 2: the event mangler and paired engine runs
# ======================================================================================================================

class Mangler:
    """wraps provider.events() of one side.  Everything it does is one of the manglings the property quantifies over;
    finite delay is guaranteed (every held event has a countdown of delivery opportunities; drain() releases all)."""

    def __init__(self, world, side, rng, kinds, window=4):
        from cloudsync.event import Event
        self.Event = Event
        self.w, self.side, self.rng = world, side, rng
        self.p = world.provs[side]
        self.stable = not self.p.oid_is_path
        self.kinds = set(k for k in kinds if k in KINDS_ANY or self.stable)
        self.window = window
        self.inner = self.p.events
        self.held = []                      # [countdown, event]
        self.frozen = []                    # 'hold': events kept back until the engine is quiet on everything else
        self.dirlast_drain = rng.random() < 0.6   # 'dirlast': folder events wait for an idle engine (else a random countdown)
        self.dirty = False                  # 'walkonly': an event was dropped since the last walk
        self.out = collections.deque()
        self.log = []                       # every genuine event seen, in provider order
        self.stats = collections.Counter()
        self.ghost = 0
        self.stale_used = set()
        self.split_chains = False           # True only in the replay of known finding pathid-stale-id-punted-out
        self.p.events = self.events

    def uninstall(self):
        self.p.events = self.inner

    def pending(self):
        return len(self.held) + len(self.out)

    def _copy(self, e, **kw):
        from dataclasses import replace
        return replace(e, **kw)

    def _extra_idless(self):
        rng = self.rng
        root = self.w.roots[self.side]
        from cloudsync.types import DIRECTORY, FILE
        known_dirs = [k for k, v in self.w.tree(self.side).items() if v[0] == "d"]
        form = rng.choice(["file", "file-nopath", "dir-exists", "dir-unknownpath-delete", "dir-delete-stale"])
        if form == "file":
            return self.Event(FILE, None, root + "/" + rng.choice(NAMES), None, rng.choice([True, False, None]))
        if form == "file-nopath":
            return self.Event(FILE, None, None, None, rng.choice([True, False, None]))
        if form == "dir-exists":
            return self.Event(DIRECTORY, None, root + (rng.choice(known_dirs) if known_dirs else "/zz"), None, rng.choice([True, None]))
        if form == "dir-unknownpath-delete":
            return self.Event(DIRECTORY, None, root + "/never-there-%d" % rng.randint(0, 9), None, False)
        # a folder delete without id for a folder that really was deleted earlier (what dropbox sends): matched by path
        gone = [e for e in self.log if e.exists is False and e.otype == DIRECTORY and e.path]
        if gone:
            g = rng.choice(gone)
            if not self.p.info_path(g.path):
                return self.Event(DIRECTORY, None, g.path, None, False)
        return self.Event(DIRECTORY, None, root + "/never-there", None, False)

    def _extra_vanished(self):
        """an event describing an object that the provider does not (any longer) know under that id"""
        rng = self.rng
        root = self.w.roots[self.side]
        from cloudsync.types import DIRECTORY, FILE
        old = [e for e in self.log if e.oid is not None and not self.p.info_oid(e.oid)]
        if not self.stable:
            # only ids that vanished by DELETION: on a path-id provider an id that was renamed away is not a vanished
            # object - the object lives on under another id, and an old event about it is a late event about a live
            # object, which the property claims for id-stable providers only.
            # (fixed finding pathid-tombstone-erased-by-stale-event: any number of stale events per id, also exists=None)
            def deleted(oid):
                last = None
                for x in self.log:
                    if x.oid == oid or x.prior_oid == oid:
                        last = x
                return last is not None and last.oid == oid and last.exists is False
            old = [e for e in old if deleted(e.oid)]
        if old and rng.random() < 0.6:
            e = rng.choice(old)
            self.stats["vanished-old"] += 1
            # whatever the event said at the time (exists / deleted), or "exists" / "unknown"; on a path-id side without
            # prior_oid (a stale rename event names a second id, which may be live again)
            return self._copy(e, exists=rng.choice([e.exists, True, None]), prior_oid=e.prior_oid if self.stable else None)
        self.ghost += 1
        self.stats["vanished-ghost"] += 1
        ot = rng.choice([FILE, FILE, DIRECTORY])
        if self.stable:
            oid = "ghost%d" % self.ghost
            path = rng.choice([None, root + "/ghost%d" % self.ghost])
        else:
            oid = path = root + "/ghost%d" % self.ghost
        return self.Event(ot, oid, path, rng.choice([None, b"nohash"]) if ot == FILE else None, rng.choice([True, True, None]))

    def _schedule(self, new):
        rng, k = self.rng, self.kinds
        batch = []
        for e in new:
            self.log.append(e)
            e2 = e
            if "droppath" in k and e.path is not None and rng.random() < 0.5:
                e2 = self._copy(e, path=None)
                self.stats["droppath"] += 1
            batch.append(e2)
            if "dup" in k and rng.random() < 0.5:
                self.stats["dup"] += 1
                if rng.random() < 0.5 or not self.stable:
                    # adjacent copy (the only form on a path-id side: a copy delivered after later events of the same
                    # id is a late event, claimed for id-stable providers only; see known finding pathid-tombstone...)
                    batch.append(self._copy(e2))
                else:
                    batch.insert(rng.randint(len(batch) - 1, len(batch)), self._copy(e2))
                    if rng.random() < 0.5:
                        batch.append(self._copy(e2))        # a third delivery
        if "walkonly" in k:
            if batch:
                self.dirty = True
                self.stats["events-dropped-walk-only"] += len(batch)
            batch = []
        extra_p = 0.35 if new else 0.04
        if "replay" in k and self.log and rng.random() < extra_p:
            batch.append(self._copy(rng.choice(self.log)))
            self.stats["replay"] += 1
        if "idless" in k and rng.random() < extra_p:
            batch.insert(rng.randint(0, len(batch)), self._extra_idless())
            self.stats["idless"] += 1
        if "vanished" in k and rng.random() < extra_p:
            batch.insert(rng.randint(0, len(batch)), self._extra_vanished())
        if "dirlast" in k:
            from cloudsync.types import DIRECTORY as _DIR
            rest = []
            for e in batch:
                if e.otype == _DIR and e.exists is True and e.oid is not None:
                    self.stats["folder-event-kept-back"] += 1
                    if self.dirlast_drain:
                        self.frozen.append(e)
                    else:
                        self.held.append([rng.randint(0, 12), e])
                else:
                    rest.append(e)
            batch = rest
        if "hold" in k:
            self.frozen.extend(batch)
        elif "delay" in k:
            for e in batch:
                d = rng.randint(0, self.window)
                if d:
                    self.stats["delayed"] += 1
                self.held.append([d, e])
        else:
            for e in batch:
                self.held.append([0, e])

    def events(self):
        self._schedule(list(self.inner()))
        ready = [h for h in self.held if h[0] <= 0]
        self.held = [h for h in self.held if h[0] > 0]
        for h in self.held:
            h[0] -= 1
        ready = [h[1] for h in ready]
        if "delay" in self.kinds and len(ready) > 1:
            before = list(ready)
            self.rng.shuffle(ready)
            if any(a is not b for a, b in zip(before, ready)):
                self.stats["permuted"] += 1
        self.out.extend(ready)
        if "batch" in self.kinds:
            if self.out:
                self.stats["single-deliveries"] += 1
                e = self.out.popleft()
                yield e
                if not self.stable and not self.split_chains:
                    # known finding pathid-stale-id-punted-out: on a path-id side the events about an id and the event
                    # that ends that id (renames it away, or deletes it) are kept in one delivery (excluded by
                    # construction): otherwise the engine keeps reading an id that no longer exists, finds it MISSING,
                    # punts, and after five rounds gives up and re-creates the object from the other side
                    ids = {e.oid}
                    while True:
                        idx = max((i for i, f in enumerate(self.out)
                                   if f.prior_oid in ids or (f.oid in ids and f.exists is False)), default=None)
                        if idx is None:
                            break
                        self.stats["chain-kept"] += 1
                        for _ in range(idx + 1):
                            f = self.out.popleft()
                            ids.add(f.oid)
                            yield f
            return
        while self.out:
            yield self.out.popleft()


class Script(Recorder):
    """a Recorder that also keeps a replayable script (absolute arguments as issued, accepted or not)"""
    def __init__(self, world, rng):
        super().__init__(world, rng)
        self.script = []

    def engine(self, which, watch_side=None):
        self.script.append(("E", which))
        return super().engine(which, watch_side)

    def user(self, side, kind, *rels, tag=None, data=None):
        # copy of Recorder.user (histories.py) that records the absolute arguments it issued
        w = self.w
        t = w.tree(side)
        killed = None
        if kind in ("write", "delete") and rels[0] in t and t[rels[0]][0] == "f":
            killed = tag_of(t[rels[0]][1])
        args = [self.abs(side, r) for r in rels]
        if kind in ("create", "write"):
            args.append(content(tag) if data is None else data)
        err = w.user(side, kind, *args)
        self.trace.append("U%d:%s:%s" % (side, kind, ",".join(rels) + (":%d" % tag if tag is not None else "")))
        self.script.append(("U", side, kind, tuple(args), err))
        if err:
            self.rejected += 1
            return False
        self.ops.append((side, kind) + tuple(rels) + ((tag,) if tag is not None else ()))
        if kind == "create":
            self.ledger.append("W:%d:~" % tag)
        elif kind == "write":
            self.ledger.append("W:%d:%s" % (tag, "~" if killed is None else killed))
        elif kind == "delete" and killed is not None:
            self.ledger.append("D:%d" % killed)
        return True

    def checkpoint(self):
        q = self.quiesce()
        self.script.append(("Q",))
        return q


class CallLog:
    """engine-issued mutating calls with the mock object each acted on (identity survives renames on both id styles)"""
    def __init__(self, world):
        self.w = world
        self.items = []           # (side, method, obj, path_at_call_or_target, effective)
        self.noops = collections.Counter()
        self._before = None
        world.after_hook = self.hook
        world.fault_hook = self.pre
        # birth tag of every file object (user- or engine-created): the content it was created with identifies the
        # object across the two runs (oids are allocated in creation order, which may differ)
        for p in world.provs:
            inner = p.create

            def create(path, file_like, *a, _inner=inner, _p=p, **kw):
                r = _inner(path, file_like, *a, **kw)
                o = _p._mock_fs.get(_p.normalize_path(r.oid)) if _p.oid_is_path else _p._mock_fs.get(r.oid)
                if o is not None:
                    o._c14_birth = tag_of(bytes(o.contents or b""))
                return r
            p.create = create

    def pre(self, side, method, args):
        self._before = self.w.tree(side, root="") if method in ("mkdir", "rename", "delete") else None

    def hook(self, c):
        p = self.w.provs[c.side]

        def lookup(x):
            # a path-id mock keeps a deleted object under its old oid key; the normalised-path key is always current
            if x is None:
                return None
            return p._mock_fs.get(p.normalize_path(x)) if p.oid_is_path else p._mock_fs.get(x)
        if c.method in ("create", "mkdir"):
            obj = lookup(c.result)
            at = c.target
        elif c.method == "rename":
            obj = lookup(c.result)
            at = c.target.split("=>", 1)[1]
        else:   # upload, delete
            obj = lookup(c.target)
            at = c.path_at_call
        effective = True
        if c.method in ("mkdir", "rename", "delete") and self._before is not None:
            # a mkdir of an existing folder, a delete of an object that is already gone, a rename onto the path the
            # object already has: the provider's state is unchanged, nothing was transferred, deleted or moved
            effective = self.w.tree(c.side, root="") != self._before
        if not effective:
            self.noops[(c.side, c.method)] += 1
        isdir = obj is not None and obj.type == obj.DIR
        tag = None if (obj is None or isdir) else tag_of(bytes(obj.contents or b""))
        birth = getattr(obj, "_c14_birth", None)
        self.items.append((c.side, c.method, obj, at, effective, isdir, tag, birth))

    def rel(self, side, path):
        root = self.w.roots[side]
        rel = path[len(root):] if path and path.lower().startswith(root.lower()) else "!" + str(path)
        return rel if self.w.provs[side].case_sensitive else rel.lower()

    def reduced(self):
        """what is counted, per effective engine-issued call (a call that raised, and a mkdir / delete / rename that left
        the provider's tree unchanged, are not counted; every create and upload is):
          put    (side, 'put', content tag written)                    for create and upload  - a transfer
          delete (side, 'delete', 'F' + birth tag of the deleted file = the content it was created with) | (side, 'delete', 'D')
          mkdir  (side, 'mkdir', final path)      final path = where the object is at the end of the run, or, if it is
          rename (side, 'rename', 'F'|'D', final path)                   gone by then, 'gone'"""
        out = []
        for side, m, obj, at, effective, isdir, tag, birth in self.items:
            if not effective:
                continue
            alive = obj is not None and obj.exists and obj.path
            final = self.rel(side, obj.path) if alive else "gone"
            if m in ("create", "upload"):
                out.append((side, "put", "F%s" % ("?" if tag is None else tag)))
            elif m == "delete":
                out.append((side, "delete", "D") if isdir else (side, "delete", "B%s" % birth))
            elif m == "mkdir":
                out.append((side, "mkdir", final))
            else:
                out.append((side, "rename", ("D:" if isdir else "F:") + final))
        return out


def mangle_sides(kinds):
    """kinds: dict side -> list of kinds, or list (both sides)"""
    if isinstance(kinds, dict):
        return kinds
    return {0: list(kinds), 1: list(kinds)}


class RunB:
    """replays the script of run A on a fresh identical world with mangled event delivery"""
    def __init__(self, flavour, kinds, mseed, storage="mock", walk_rate=0.15, window=4, hashmix=False):
        self.w = World(flavour, storage=storage)
        set_hashmix(self.w, hashmix)
        self.rng = random.Random(mseed)
        ks = mangle_sides(kinds)
        self.kinds = ks
        self.m = [Mangler(self.w, s, random.Random(mseed * 7919 + s), ks.get(s, []), window=window) for s in (0, 1)]
        self.calls = CallLog(self.w)
        self.walk_rate = walk_rate
        self.walks = 0
        self.walks_skipped = 0
        self.diverged = None
        self.steps = 0

    def maybe_walk(self, which):
        if which not in "LR":
            return
        side = "LR".index(which)
        if "walk" not in self.kinds.get(side, []) or self.rng.random() >= self.walk_rate:
            return
        p = self.w.provs[side]
        if p.oid_is_path and (p._cursor < p._latest_cursor or self.m[side].pending()):
            # on a path-id side a walk is only interleaved when no genuine event of that side is waiting to be delivered
            # (in the provider or in the wrapper): a walk that overtakes a rename event shows the engine the new path
            # before it can learn that it is the old object - a reordering, which the property claims for id-stable
            # providers only (and see known finding pathid-ci-walk-before-case-rename-event)
            self.walks_skipped += 1
            return
        self.walks += 1
        self.w.by = "engine"
        try:
            if self.rng.random() < 0.5:
                try:
                    self.w.cs.walk(side)
                except Exception as e:  # noqa  (root folder missing: nothing to walk)
                    if type(e).__name__ != "CloudFileNotFoundError":
                        raise
            else:
                self.w.cs.set_need_walk(side, True)
        finally:
            self.w.by = "user"

    def step(self, which):
        self.maybe_walk(which)
        self.steps += 1
        return self.w.step(which)

    def quiet(self):
        return not self.w.busy() and not any(m.pending() for m in self.m)

    def _walk_side(self, side):
        self.walks += 1
        self.w.by = "engine"
        try:
            if self.rng.random() < 0.5:
                try:
                    self.w.cs.walk(side)
                except Exception as e:  # noqa  (root folder missing: nothing to walk)
                    if type(e).__name__ != "CloudFileNotFoundError":
                        raise
            else:
                self.w.cs.set_need_walk(side, True)
        finally:
            self.w.by = "user"

    def quiesce(self, cap=900):
        """to quiet; then ('hold') the events kept back are released and ('walkonly') the sides whose events were dropped
        are walked, and the engine is run to quiet again, until nothing is kept back and nothing is unwalked"""
        n, quiet_rounds = 0, 0
        while n < cap:
            seq = list("LRS")
            self.rng.shuffle(seq)
            for x in seq:
                self.step(x)
                n += 1
            if self.quiet():
                quiet_rounds += 1
                if quiet_rounds >= 2:
                    more = False
                    for m in self.m:
                        if m.frozen:
                            m.stats["released-after-quiescence"] += len(m.frozen)
                            m.held.extend([0, e] for e in m.frozen)
                            m.frozen = []
                            more = True
                        if m.dirty:
                            m.dirty = False
                            m.stats["walks-instead-of-events"] += 1
                            self._walk_side(m.side)
                            more = True
                    if not more:
                        return True
                    quiet_rounds = 0
            else:
                quiet_rounds = 0
        return False

    def replay(self, script, on_checkpoint):
        """on_checkpoint(index, quiet) is called at every ("Q",) marker after B has gone quiet"""
        qi = 0
        for item in script:
            if item[0] == "E":
                self.step(item[1])
            elif item[0] == "U":
                _, side, kind, args, err = item
                got = self.w.user(side, kind, *args)
                if got != err and self.diverged is None:
                    self.diverged = {"op": [side, kind] + [a if isinstance(a, str) else a.decode("latin1") for a in args],
                                     "prompt_run": err, "mangled_run": got}
            else:
                q = self.quiesce()
                on_checkpoint(qi, q)
                qi += 1

    def final_replay_check(self):
        """at quiescence: replay the whole tree as walk events on both sides and (id-stable sides) re-deliver the whole
        event log; returns (number of engine writes caused, quiet reached)"""
        n0 = len(self.calls.items)
        self.w.by = "engine"
        try:
            try:
                self.w.cs.walk()
            except Exception as e:  # noqa
                if type(e).__name__ != "CloudFileNotFoundError":
                    raise
        finally:
            self.w.by = "user"
        for m in self.m:
            if m.stable:
                for e in m.log:
                    m.held.append([0, m._copy(e)])
            else:
                # path-id side: duplicates of the events of object states that are still current
                for e in m.log[-3:]:
                    info = m.p.info_oid(e.oid) if e.oid is not None else None
                    if info and info.oid == e.oid and info.path == e.path and e.exists is True and e.prior_oid is None:
                        m.held.append([0, m._copy(e)])
        q = self.quiesce()
        return len(self.calls.items) - n0, q

    def close(self):
        self.w.close()


# ---------------------------------------------------------------------------------------------------- families

def set_hashmix(w, on):
    """the two providers use different hash functions (remote: sha1 instead of md5); set before any file exists"""
    if on:
        import hashlib
        w.provs[1]._hash_func = lambda data: hashlib.sha1(data).digest()


def gen_history(family, flavour, seed, salt, storage="mock"):
    """run A: prompt in-order delivery.  Returns dict(script, checkpoints[(quiet, treeL, treeR)], calls, ops, ...)."""
    rng = random.Random((seed * 1000003) ^ hash_str("c14" + salt + flavour + family))
    hashmix = rng.random() < 0.2
    w = World(flavour, storage=storage)
    set_hashmix(w, hashmix)
    rec = Script(w, rng)
    # known finding ci-root-spelling-batch-livelock: users of a case-insensitive account spell the root folder in one way
    rec.spell_roots = False
    calls = CallLog(w)
    cps = []

    def cp():
        q = rec.checkpoint()
        cps.append((q, w.tree(0), w.tree(1)))
        return q
    try:
        fold = flavour.endswith("-ci")
        base_side = rng.randint(0, 1)
        for _ in range(rng.randint(0, 4)):
            rec.random_op(base_side, kinds=["create", "create", "mkdir", "create", "mkdir"])
        ok = cp() and trees_converged(w.tree(0), w.tree(1), fold)
        if ok:
            if family == "settled":
                for _ in range(rng.randint(2, 6)):
                    s = rng.randint(0, 1)
                    if not rec.random_op(s):
                        continue
                    if not cp() or not trees_converged(w.tree(0), w.tree(1), fold):
                        ok = False
                        break
            elif family == "settled-nd":
                # settled, without deletions: every change can be seen by a walk
                for _ in range(rng.randint(2, 6)):
                    sd = rng.randint(0, 1)
                    if not rec.random_op(sd, kinds=["create", "create", "write", "write", "rename", "move", "mkdir", "dirrename", "caserename"]):
                        continue
                    if not cp() or not trees_converged(w.tree(0), w.tree(1), fold):
                        ok = False
                        break
            elif family == "onesided":
                side = rng.randint(0, 1)
                for _ in range(rng.randint(1, 6)):
                    rec.random_op(side, kinds=["create", "write", "write", "delete", "rename", "move"])
                    for _ in range(rng.randint(0, 2)):
                        rec.engine(rng.choice("LRS"))
                ok = cp() and trees_converged(w.tree(0), w.tree(1), fold)
            elif family == "burst":
                # several operations of one side with NO engine step in between, then quiescence (repeated): the side's
                # events arrive as one batch, which is what delay / permutation / batching act on.  Names are never reused
                # (every create / rename / mkdir targets a name no object of the run ever had): name reuse inside an
                # unsynced window is a known weak spot of the pinned engine (TASK_ENGINE / C01 findings), and folders
                # are not renamed inside a burst (folder rename with unsynced children, ditto).
                fresh = [0]
                used_empty = [False]

                def newname(side_tree, dirs):
                    fresh[0] += 1
                    par = rng.choice([""] + dirs)
                    return "%s/%s%d%s" % (par, rng.choice("nmk"), fresh[0], rng.choice(["", ".txt"]))
                for _ in range(rng.randint(1, 3)):
                    side = rng.randint(0, 1)
                    for _ in range(rng.randint(2, 5)):
                        t = w.tree(side)
                        files = [k for k, v in t.items() if v[0] == "f" and not conflicted(k)]
                        dirs = [k for k, v in t.items() if v[0] == "d" and not conflicted(k) and k.count("/") < 2]
                        k = rng.choice(["create", "create", "write", "write", "rename", "rename", "delete", "mkdir"])
                        # contents: fresh version tags, and sometimes the empty file
                        # (at most one empty file per history and never the bytes another file has: a delete and a create
                        #  of equal content seen together are synced as a rename, seen apart as a transfer + a delete)
                        data = None
                        if rng.random() < 0.15 and not used_empty[0]:
                            used_empty[0] = True
                            data = b""
                        if k == "create":
                            rec.user(side, "create", newname(t, dirs), tag=rec.fresh(), data=data)
                        elif k == "mkdir":
                            rec.user(side, "mkdir", newname(t, dirs))
                        elif k == "write" and files:
                            rec.user(side, "write", rng.choice(files), tag=rec.fresh(), data=data)
                        elif k == "rename" and files:
                            rec.user(side, "rename", rng.choice(files), newname(t, dirs))
                        elif k == "delete" and files:
                            rec.user(side, "delete", rng.choice(files))
                    if not cp() or not trees_converged(w.tree(0), w.tree(1), fold):
                        ok = False
                        break
            elif family == "disjoint":
                base_l = w.tree(0)
                tops = sorted({k.split("/")[1] for k in base_l})
                rng.shuffle(tops)
                half = len(tops) // 2
                mine = (set(tops[:half]) | {"lx", "ly.txt"}, set(tops[half:]) | {"rx", "ry.txt"})
                new_tops = (["lx", "ly.txt"], ["rx", "ry.txt"])
                for _ in range(rng.randint(1, 6)):
                    s = rng.randint(0, 1)
                    rec.random_op(s, allowed_tops=mine[s], new_tops=new_tops[s])
                    rec.interleave(2)
                ok = cp() and trees_converged(w.tree(0), w.tree(1), fold)
            else:
                raise HarnessError("unknown family " + family)
        return {"family": family, "flavour": flavour, "storage": storage, "hashmix": hashmix, "script": rec.script, "checkpoints": cps, "ok": ok,
                "calls": calls.reduced(), "ops": list(rec.ops), "trace": list(rec.trace), "events": None}
    finally:
        w.close()


STABLE2 = ["oid-oid", "oid-oid-ci", "oidci-oidcs", "oidcs-oidci"]


def stable_side(flavour, side):
    return not FLAVOURS[flavour][side][0]


def gen_scripted(family, flavour, seed, salt, base, windows, storage="mock", label=None):
    """run A (prompt in-order delivery) of an explicit scenario: `base` and every window are lists of
    (side, kind, rel, [rel2], [data]) user operations; each window is followed by quiescence under a seeded fair schedule"""
    rng = random.Random((seed * 1000003) ^ hash_str("c14s" + salt + flavour + family))
    hashmix = rng.random() < 0.2
    w = World(flavour, storage=storage)
    set_hashmix(w, hashmix)
    rec = Script(w, rng)
    rec.spell_roots = False
    calls = CallLog(w)
    cps = []
    fold = flavour.endswith("-ci")

    def cp():
        q = rec.checkpoint()
        cps.append((q, w.tree(0), w.tree(1)))
        return q and trees_converged(w.tree(0), w.tree(1), fold or flavour in ("oidci-oidcs", "oidcs-oidci"))

    def do(op):
        side, kind = op[0], op[1]
        if kind in ("create", "write"):
            rec.user(side, kind, op[2], tag=rec.fresh(), data=op[3] if len(op) > 3 else None)
        elif kind == "rename":
            rec.user(side, "rename", op[2], op[3])
        else:
            rec.user(side, kind, op[2])
    try:
        ok = cp()
        for op in base:
            do(op)
        ok = cp() and ok
        for win in windows:
            for op in win:
                do(op)
                for _ in range(rng.randint(0, 1) if family == "twosided" else 0):
                    pass
            ok = cp() and ok
        return {"family": family, "flavour": flavour, "storage": storage, "hashmix": hashmix, "script": rec.script, "checkpoints": cps,
                "ok": ok, "calls": calls.reduced(), "ops": list(rec.ops), "trace": list(rec.trace), "events": None, "label": label}
    finally:
        w.close()


FILE_OPS = ["write", "delete", "rename", "none"]


def twosided_scenarios():
    """systematic: ONE synced object, side a does opA, the other side does opB in the same unsynced window (no engine step
    in between); id-stable providers on both sides; both directions; base built on either side.
    Yields (label, flavour, base, windows, a)"""
    for fl in STABLE2:
        for a in (0, 1):
            b = 1 - a
            for bs in (0, 1):
                for where in ("/f.txt", "/g/f.txt"):
                    base = ([(bs, "mkdir", "/g")] if where.startswith("/g/") else []) + [(bs, "create", where)]
                    for opa in FILE_OPS:
                        for opb in FILE_OPS:
                            if opa == "none" and opb == "none":
                                continue
                            win = []
                            for side, op, newname in ((a, opa, where.replace("f.txt", "fa.txt")), (b, opb, where.replace("f.txt", "fb.txt"))):
                                if op == "write":
                                    win.append((side, "write", where))
                                elif op == "delete":
                                    win.append((side, "delete", where))
                                elif op == "rename":
                                    win.append((side, "rename", where, newname))
                            yield ("file:%s:%s-vs-%s:a=%d:base=%d" % (where, opa, opb, a, bs), fl, base, [win], a)
                # folders: empty and with a child
                for child in (False, True):
                    base = [(bs, "mkdir", "/g")] + ([(bs, "create", "/g/c.txt")] if child else [])
                    fops = ["rename", "addchild", "none"] + ([] if child else ["delete"])
                    for opa in fops:
                        for opb in fops:
                            if opa == "none" and opb == "none":
                                continue
                            if {opa, opb} == {"rename", "delete"}:
                                continue        # known finding folder-rename-vs-delete-order-dependent (excluded by construction)
                            win = []
                            for side, op, newname, kid in ((a, opa, "/ga", "/g/ka.txt"), (b, opb, "/gb", "/g/kb.txt")):
                                if op == "rename":
                                    win.append((side, "rename", "/g", newname))
                                elif op == "delete":
                                    win.append((side, "delete", "/g"))
                                elif op == "addchild":
                                    win.append((side, "create", kid))
                            yield ("folder%s:%s-vs-%s:a=%d:base=%d" % ("+child" if child else "", opa, opb, a, bs), fl, base, [win], a)


WALK_FLAVOURS = {0: ["oid-oid", "oid-oid-ci", "oidci-oidcs", "oidcs-oidci", "oid-path"],
                 1: ["oid-oid", "oid-oid-ci", "oidci-oidcs", "oidcs-oidci", "path-oidf", "path-oidf-ci"]}
WALK_CHANGES = ["create", "create-in-folder", "mkdir", "mkdir-in-folder", "overwrite", "overwrite-empty", "rename", "move", "move-out",
                "folder-rename", "folder-rename+child", "folder-move+child", "case-file", "case-file-in-folder", "case-folder", "case-folder+child",
                "case-file+overwrite", "case-both"]


def walkonly_scenarios():
    """systematic: ONE change on side s (id-stable) that a walk can show (no deletion); base built on either side; the
    registered run B drops every event of side s and walks instead.  Yields (label, flavour, base, windows, s)"""
    for s in (0, 1):
        for fl in WALK_FLAVOURS[s]:
            for bs in (0, 1):
                base = [(bs, "mkdir", "/g"), (bs, "create", "/g/c.txt"), (bs, "create", "/f.txt"), (bs, "mkdir", "/h")]
                for ch in WALK_CHANGES:
                    win = {"create": [(s, "create", "/n.txt")], "create-in-folder": [(s, "create", "/g/n.txt")],
                           "mkdir": [(s, "mkdir", "/m")], "mkdir-in-folder": [(s, "mkdir", "/g/m")],
                           "overwrite": [(s, "write", "/f.txt")], "overwrite-empty": [(s, "write", "/f.txt", b"")],
                           "rename": [(s, "rename", "/f.txt", "/f2.txt")], "move": [(s, "rename", "/f.txt", "/h/f.txt")],
                           "move-out": [(s, "rename", "/g/c.txt", "/c.txt")],
                           "folder-rename": [(s, "rename", "/h", "/h2")], "folder-rename+child": [(s, "rename", "/g", "/g2")],
                           "folder-move+child": [(s, "rename", "/g", "/h/g")],
                           "case-file": [(s, "rename", "/f.txt", "/F.txt")], "case-file-in-folder": [(s, "rename", "/g/c.txt", "/g/C.TXT")],
                           "case-folder": [(s, "rename", "/h", "/H")], "case-folder+child": [(s, "rename", "/g", "/G")],
                           "case-file+overwrite": [(s, "rename", "/f.txt", "/F.txt"), (s, "write", "/F.txt")],
                           "case-both": [(s, "rename", "/g", "/G"), (s, "rename", "/G/c.txt", "/G/C.txt")]}[ch]
                    yield ("walk:%s:s=%d:base=%d" % (ch, s, bs), fl, base, [win], s)


def reuse_scenarios():
    """systematic: PATH RE-USE after a synced deletion.  An object at path p is synced, deleted (deletion synced: the
    discarded entry keeps its path), and then - in one unsynced window, on the id-stable side s - a NEW object (new id) is
    created at p: file->file, folder->folder with children, file->folder, folder->file; children are created inside the
    re-created folder.  Yields (label, flavour, base, windows, s)"""
    for s in (0, 1):
        for fl in WALK_FLAVOURS[s]:
            for bs in (0, 1):
                for ds in (0, 1):
                    for where in ("/d", "/g/d"):
                        pre = [(bs, "mkdir", "/g")] if where.startswith("/g/") else []
                        for old in ("file", "folder", "folder+child"):
                            base = pre + {"file": [(bs, "create", where)], "folder": [(bs, "mkdir", where)],
                                          "folder+child": [(bs, "mkdir", where), (bs, "create", where + "/old.txt")]}[old]
                            dele = ([(ds, "delete", where + "/old.txt")] if old == "folder+child" else []) + [(ds, "delete", where)]
                            for new in ("file", "folder+child", "folder+deep"):
                                rec = {"file": [(s, "create", where)],
                                       "folder+child": [(s, "mkdir", where), (s, "create", where + "/f.txt")],
                                       "folder+deep": [(s, "mkdir", where), (s, "mkdir", where + "/sub"), (s, "create", where + "/sub/f.txt"),
                                                       (s, "create", where + "/k.txt")]}[new]
                                yield ("reuse:%s:%s->%s:s=%d:base=%d:del=%d" % (where, old, new, s, bs, ds), fl, base, [dele, rec], s)


def name_reuse(script):
    """syntactic: inside one unsynced window (between two quiescence markers) some path that was freed (deleted or
    renamed away) - or its case variant - is occupied again (create / mkdir / rename destination).  The pinned engine
    may then merge the new object into the old one's entry (upload over it) or delete-and-recreate, depending on event
    timing, and for a file replacing a folder (or renames swapping names) it may produce a '.conflicted' artefact or lose
    an empty folder (known findings reordered-renames-with-name-reuse-lose-folder, batched-file-over-deleted-folder-name;
    TASK_ENGINE: name reuse inside an unsynced window is a known weak spot).  Such histories are not part of the
    generator: they are skipped (counted in the evidence)."""
    freed = (set(), set())
    for item in script:
        if item[0] == "Q":
            freed = (set(), set())
        elif item[0] == "U" and item[4] is None:
            _, side, kind, args, _err = item
            a0 = args[0].lower()
            if kind in ("create", "mkdir"):
                if a0 in freed[side]:
                    return True
            elif kind in ("delete", "rmtree"):
                freed[side].add(a0)
            elif kind == "rename":
                dst = args[1].lower()
                if dst in freed[side] and dst != a0:
                    return True
                freed[side].add(a0)
    return False


def folder_rename_with_unsynced_child(script):
    """syntactic: a folder is renamed in the same unsynced window in which something was created in it or moved into it
    (TASK_ENGINE / C01 known weak spot 'folder renames with unsynced children', e.g. mkdir a; mkdir a/b; rename a -> c):
    on some schedules the pinned engine leaves the old folder behind.  Such histories are not part of the generator."""
    dirs = set()
    fresh = set()
    for item in script:
        if item[0] == "Q":
            fresh = set()
        elif item[0] == "U" and item[4] is None:
            _, side, kind, args, _err = item
            a0 = (side, args[0].lower())
            if kind == "mkdir":
                dirs.add(a0)
                fresh.add(a0)
            elif kind == "create":
                fresh.add(a0)
            elif kind == "rename":
                dst = (side, args[1].lower())
                if a0 in dirs:
                    pre = a0[1] + "/"
                    if any(f[0] == side and f[1].startswith(pre) for f in fresh):
                        return True
                    for d in [d for d in dirs if d[0] == side and (d[1] == a0[1] or d[1].startswith(pre))]:
                        dirs.discard(d)
                        dirs.add((side, dst[1] + d[1][len(a0[1]):]))
                fresh.add(dst)
    return False


def skip_reason(hist):
    if name_reuse(hist["script"]):
        return "name-reuse"
    if folder_rename_with_unsynced_child(hist["script"]):
        return "folder-rename-with-unsynced-child"
    return None


def call_mode(hist):
    """how the engine-issued writes of the two runs are compared:
       exact - B's effective writes are contained in A's as multisets.  Sound when both runs see the same truth from their
               first engine step of a window on: families in which no user operation happens between engine steps of a
               window (settled, burst), and no name is reused inside a window.
       trees - user operations interleave with engine steps (onesided, disjoint): which intermediate versions get
               transferred depends on which entry a sync step happens to pick and on what the engine had cached when the
               user wrote (known finding late-modify-event-redundant-upload), so a version A skipped may be transferred
               by B, or transferred twice; or a name is reused inside an unsynced window: the engine may merge the new
               object into the old entry or delete-and-recreate.  Only the trees and the '.conflicted' artefacts are
               compared (and the replay of the tree as walk events at the end must still write nothing)."""
    if name_reuse(hist["script"]):
        return "trees"
    if hist["family"] in ("settled", "burst"):
        return "exact"
    return "trees"


def kinds_for(hist, kinds, mseed=0):
    """per-side kinds for a history.  In the families whose user operations interleave with engine steps (onesided,
    disjoint) a path-id side is not given per-event batching: the event that ends an id (delete / rename away) may then
    not exist yet when the earlier events of that id are trickled in, and the pinned engine, reading the dead id as
    MISSING five times, re-creates the object from the other side (known finding pathid-stale-id-punted-out)."""
    ks = mangle_sides(kinds)
    if any(k in ("hold1", "walkonly1", "dirlast1") for v in ks.values() for k in v):
        # `hold1` / `walkonly1`: on ONE id-stable side (chosen by the mangle seed), nothing on the other side
        stable = [sd for sd in (0, 1) if stable_side(hist["flavour"], sd)]
        tok = [k for k in ks[0] if k in ("hold1", "walkonly1", "dirlast1")][0]
        if not stable:
            ks = {0: [], 1: []}
        else:
            pick = stable[mseed % len(stable)]
            ks = {pick: [tok[:-1]], 1 - pick: []}
    if hist["family"] in ("onesided", "disjoint"):
        lf, rf = FLAVOURS[hist["flavour"]]
        ks = {side: [k for k in ks.get(side, []) if not (k == "batch" and (lf, rf)[side][0])] for side in (0, 1)}
    return ks


def compare_py(hist, kinds, mseed, final_check=True):
    """calibration-time comparison in Python (the registered check sends the same data through the Lean layer).
    Returns (failures list, stats)."""
    b = RunB(hist["flavour"], kinds_for(hist, kinds, mseed), mseed, storage=hist["storage"], hashmix=hist["hashmix"])
    fails = []
    try:
        fold = hist["flavour"].endswith("-ci")

        def on_cp(i, q):
            qa, la, ra = hist["checkpoints"][i]
            if not q:
                fails.append("cp%d: mangled run did not go quiet" % i)
                return
            lb, rb = b.w.tree(0), b.w.tree(1)
            if not trees_converged(lb, rb, fold):
                fails.append("cp%d: mangled run not converged" % i)
            if lb != la:
                fails.append("cp%d: left tree differs from prompt run" % i)
            if rb != ra:
                fails.append("cp%d: right tree differs from prompt run" % i)
        b.replay(hist["script"], on_cp)
        if b.diverged:
            fails.append("history diverged: %r" % (b.diverged,))
        ca = collections.Counter(hist["calls"])
        cb = collections.Counter(b.calls.reduced())
        mode = call_mode(hist)
        extra = (cb - ca) if mode == "exact" else None
        if extra:
            fails.append("spurious calls: %r" % (sorted(extra.items()),))
        if final_check and not fails and b.w.tree(0) == b.w.tree(1):
            lb, rb = b.w.tree(0), b.w.tree(1)
            n, q = b.final_replay_check()
            if not q:
                fails.append("final replay: did not go quiet")
            if n:
                fails.append("final replay caused %d engine writes: %r" % (n, b.calls.items[-n:]))
            if (b.w.tree(0), b.w.tree(1)) != (lb, rb):
                fails.append("final replay changed a tree")
        stats = collections.Counter()
        for m in b.m:
            stats.update(m.stats)
        stats["walks"] = b.walks
        return fails, stats, b
    finally:
        b.close()


FAMILY_FLAVOURS = {
    "settled-nd": [f for f in FLAVOURS if f != "path-path"],
    "settled": ALL,
    "burst": ALL,
    "onesided": OID_LOCAL,
    "disjoint": ALL,
}


def scenario_runs(which, seed, rounds):
    """(hist, kinds, mseed) for the systematic scenario classes"""
    k = 0
    for r in range(rounds):
        if which in ("twosided", "all"):
            for label, fl, base, wins, a in twosided_scenarios():
                for held in ("a", "b", "delay"):
                    k += 1
                    kinds = {"a": {a: ["hold"], 1 - a: []}, "b": {a: [], 1 - a: ["hold"]}, "delay": {0: ["delay", "dup"], 1: ["delay", "dup"]}}[held]
                    yield ("twosided", label + ":held=" + held, fl, base, wins, kinds, "r%d" % r, (seed + 1) * 7919 + k)
        if which in ("reuse", "all"):
            for label, fl, base, wins, sd in reuse_scenarios():
                for how in ("dirlast", "dirlast+old", "hold", "delay"):
                    k += 1
                    kinds = {"dirlast": {sd: ["dirlast"], 1 - sd: []}, "dirlast+old": {sd: ["dirlast", "replay", "vanished", "dup"], 1 - sd: ["dup"]},
                             "hold": {sd: ["hold"], 1 - sd: []}, "delay": {0: ["delay", "dup"], 1: ["delay", "dup"]}}[how]
                    yield ("reuse", label + ":how=" + how, fl, base, wins, kinds, "r%d" % r, (seed + 1) * 7919 + k)
        if which in ("walkonly", "all"):
            for label, fl, base, wins, sd in walkonly_scenarios():
                for other in ("plain", "dup"):
                    k += 1
                    kinds = {sd: ["walkonly"], 1 - sd: ([] if other == "plain" else ["dup", "delay"])}
                    yield ("walkonly", label + ":other=" + other, fl, base, wins, kinds, "r%d" % r, (seed + 1) * 7919 + k)


def calibrate_scenarios(argv):
    """usage: c14_events.py --calibrate-scenarios twosided|walkonly|all <rounds> [seed0]"""
    which, rounds = argv[0], int(argv[1])
    seed0 = int(argv[2]) if len(argv) > 2 else 0
    import_repo()
    tot = collections.Counter()
    bad = collections.Counter()
    t0 = _time.time()
    for fam, label, fl, base, wins, kinds, salt, mseed in scenario_runs(which, seed0, rounds):
        hist = gen_scripted(fam, fl, seed0, salt + label.split(":held=")[0].split(":other=")[0].split(":how=")[0], base, wins, label=label)
        cls = re_class(label)
        if not hist["ok"]:
            tot[(cls, "A-not-converged")] += 1
            continue
        fails, st, b = compare_py(hist, kinds, mseed)
        tot[(cls, "runs")] += 1
        if fails:
            bad[(cls, fl)] += 1
            if bad[(cls, fl)] <= 1:
                print("FAIL", label, fl, kinds, fails[:2], flush=True)
    print("scenario calibration %s rounds=%d seed0=%d in %.0fs" % (which, rounds, seed0, _time.time() - t0))
    print("  runs", sum(v for k, v in tot.items() if k[1] == "runs"), "A-not-converged", {k[0]: v for k, v in tot.items() if k[1] != "runs"})
    print("  failing classes", {"%s/%s" % k: v for k, v in sorted(bad.items())})


def re_class(label):
    """scenario class = the label without direction / base side"""
    import re
    return re.sub(r":a=\d|:s=\d|:base=\d|:del=\d", "", label)


def calibrate(argv):
    """usage: c14_events.py --calibrate <kind[,kind..]> <n> [family[,family]] [seed0]"""
    kinds = argv[0].split(",")
    n = int(argv[1])
    fams = argv[2].split(",") if len(argv) > 2 else [f for f in FAMILY_FLAVOURS if f != "settled-nd"]
    seed0 = int(argv[3]) if len(argv) > 3 else 0
    import_repo()
    total, bad = 0, 0
    stats = collections.Counter()
    per = collections.Counter()
    t0 = _time.time()
    i = 0
    while total < n:
        for fam in fams:
            for fl in FAMILY_FLAVOURS[fam]:
                if total >= n:
                    break
                hist = gen_history(fam, fl, seed0, "cal-%d" % i)
                if not hist["ok"]:
                    per[(fam, fl, "A-unreliable")] += 1
                    continue
                if skip_reason(hist):
                    per[(fam, fl, skip_reason(hist) + "-skipped")] += 1
                    continue
                fails, st, b = compare_py(hist, kinds, (seed0 + 1) * 100003 + i)
                total += 1
                stats.update(st)
                per[(fam, fl, "runs")] += 1
                if fails:
                    bad += 1
                    per[(fam, fl, "FAIL")] += 1
                    print("FAIL", fam, fl, "i=%d" % i, "seed0=%d" % seed0, kinds, fails[:2], flush=True)
                    print("   trace:", " ".join(hist["trace"][:80]), flush=True)
        i += 1
    print("calibrated kinds=%s runs=%d failures=%d in %.0fs" % (kinds, total, bad, _time.time() - t0))
    print("  stats", dict(stats))
    print("  per", {"%s/%s/%s" % k: v for k, v in sorted(per.items()) if k[2] != "runs"})




# ======================================================================================================================
#  part 1: differential tie of the Lean model (Model/Hints.lean) to the real SyncState / EventManager
# ======================================================================================================================

EXS = "UPTMLC"
IGN = {"none": "n", "discarded": "d", "conflict": "c", "temp rename": "t", "irrelevant": "i"}
MODEL_FP = {"cloudsync/sync/state.py": ["SyncState.update", "SyncState.update_entry", "SyncState.unconditionally_get_latest",
                                        "SyncState.unconditionally_get_no_info", "SyncEntry.get_latest", "SyncEntry.is_creation",
                                        "SideState.needs_sync", "SideState.__setattr__", "SideState._set_exists", "SideState.uncorrupt",
                                        "SideState._translate_exists", "SyncState.mark_changed", "SyncState.lookup_path", "SyncState.lookup_oid"],
            "cloudsync/event.py": ["EventManager._process_event", "EventManager._fill_event_path", "EventManager._do_unsafe",
                                   "EventManager.queue", "EventManager._do_walk_if_needed"],
            "cloudsync/sync/manager.py": ["SyncManager.pre_sync"],
            "cloudsync/provider.py": ["Provider._walk", "Provider.walk", "Provider.walk_oid", "Provider.normalize_path_separators"],
            "cloudsync/cs.py": ["CloudSync.walk"]}


def hx(h):
    """hashes on the wire: hex of the bytes (the model only compares them)"""
    if h is None:
        return None
    if isinstance(h, bytes):
        return "b" + h.hex()
    return "s" + str(h)


def enc_ex(x):
    from cloudsync.sync.state import Exists
    return {Exists.UNKNOWN: "U", Exists.EXISTS: "P", Exists.TRASHED: "T", Exists.MISSING: "M", Exists.LIKELY_TRASHED: "L",
            Exists.CORRUPT: "C"}[x]


def dec_ex(c):
    from cloudsync.sync.state import Exists
    return {"U": Exists.UNKNOWN, "P": Exists.EXISTS, "T": Exists.TRASHED, "M": Exists.MISSING, "L": Exists.LIKELY_TRASHED,
            "C": Exists.CORRUPT}[c]


def enc_ot(o):
    return {"file": "F", "dir": "D", "trashed": "N"}[o.value]


def tnat(x):
    return int(x) if x else 0


def enc_side(ent, side=0):
    s = ent[side]
    return " ".join([enc_str(s._oid), enc_str(s._path), enc_str(hx(s._hash)), enc_ex(s._exists),
                     "~" if s._saved_exists is None else enc_ex(s._saved_exists), enc_ot(s._otype), str(tnat(s._changed)),
                     str(tnat(s._last_gotten)), IGN[ent._ignored.value]])


def enc_event(ot, oid, path, h, ex, accurate=False):
    return " ".join([enc_ot(ot), enc_str(oid), enc_str(path), enc_str(hx(h)), "~" if ex is None else enc_bool(ex), enc_bool(accurate)])


class ModelWorld:
    """a real SyncState over two real MockProviders (side 0 is the modelled side), one real EventManager, virtual clock"""
    def __init__(self, oid_is_path, strip_info_hash=False, case_sensitive=True):
        self.clock = VClock(100.0)
        install_determinism(self.clock)
        from cloudsync.providers.mock import MockProvider
        from cloudsync.sync.state import SyncState
        self.ip = oid_is_path
        self.provs = (MockProvider(oid_is_path, case_sensitive), MockProvider(False, True))
        for p in self.provs:
            p.connect({"key": "val"})
        self.strip = strip_info_hash
        if strip_info_hash:
            p = self.provs[0]
            inner = p.info_oid

            def info_oid(oid, use_cache=True, _inner=inner):
                i = _inner(oid, use_cache=use_cache)
                if i is not None:
                    i.hash = None
                return i
            p.info_oid = info_oid
        self.state = SyncState(self.provs)
        self.clock.advance(5)

    def make_object(self, kind, path, data=b"d1"):
        """creates the provider-side truth; returns the oid"""
        p = self.provs[0]
        p.mkdir("/r")
        if kind == "file":
            return p.create(path, io.BytesIO(data)).oid
        return p.mkdir(path)

    def truth_tokens(self, oid):
        p = self.provs[0]
        from cloudsync.providers.mock import MockProvider
        info = p.info_oid(oid) if oid is not None else None
        ho = p.hash_oid(oid) if oid is not None else None
        if info is None:
            return " ".join([enc_str(oid), "F", "~", "~", "F", enc_str(hx(ho))])
        return " ".join([enc_str(oid), "T", enc_str(info.path), enc_str(hx(info.hash)), enc_ot(info.otype), enc_str(hx(ho))])

    def make_entry(self, otype, oid, path, h, ex, saved, changed, last_gotten, ign, other_changed=0):
        from cloudsync.sync.state import SyncEntry
        from cloudsync.types import IgnoreReason
        ent = SyncEntry(self.state, otype)
        if oid is not None:
            ent[0].oid = oid
            if path:
                ent[0].path = path
        if path is not None and not path:
            ent[0]._path = path
        ent[0]._hash = h
        ent[0]._exists = dec_ex(ex)
        ent[0]._saved_exists = None if saved is None else dec_ex(saved)
        ent[0]._changed = changed
        ent[0]._last_gotten = float(last_gotten)
        ent[1]._changed = other_changed
        ent._ignored = {v: k for k, v in IGN.items()}[ign] and IgnoreReason({v: k for k, v in IGN.items()}[ign])
        return ent


def gen_model_cases(rng, n):
    """yields dict cases: id style, provider truth, initial entry (or none), 1-3 events with arbitrary fields, get_latest mode"""
    from cloudsync.types import FILE, DIRECTORY, NOTKNOWN
    for _ in range(n):
        ip = rng.random() < 0.5
        c = {"ip": ip, "strip": rng.random() < 0.12}
        c["truth"] = rng.choice(["file", "file", "dir", "gone", "never", "deleted"])
        c["true_path"] = rng.choice(["/r/a", "/r/b", "/r/Sub"])
        c["entry"] = rng.random() < 0.8
        c["e_otype"] = rng.choice(["file", "file", "dir", "trashed"])
        c["e_path"] = rng.choice(["true", "true", "none", "other", "slash", "alt", "empty"])
        c["e_hash"] = rng.choice(["true", "none", "fake", "fake2"])
        c["e_ex"] = rng.choice("UPTMLC" if rng.random() < 0.85 else "C")
        c["e_saved"] = rng.choice([None, "P", "T", "U", "M", "L"])
        c["e_changed"] = rng.choice([0, 0, 50, 90])
        c["e_lg"] = rng.choice([0, 50, 90, 95])
        c["e_ign"] = rng.choice(["n", "n", "n", "d", "c", "t", "i"])
        c["other_changed"] = rng.choice([0, 0, 60, 300])
        evs = []
        for _k in range(rng.choice([1, 1, 2, 2, 3])):
            evs.append({"otype": rng.choice([FILE, FILE, DIRECTORY, NOTKNOWN]),
                        "path": rng.choice(["true", "none", "none", "other", "slash", "alt", "empty", "stale"]),
                        "hash": rng.choice(["none", "none", "true", "fake", "fake2"]),
                        "ex": rng.choice([True, True, False, None]),
                        "accurate": rng.random() < 0.15})
        if rng.random() < 0.35 and evs:
            evs.append(dict(evs[-1]))          # an exact duplicate delivery
        c["events"] = evs
        c["force"] = rng.random() < 0.5
        yield c


def path_choice(kind, true_path):
    return {"true": true_path, "none": None, "other": "/r/zzz", "slash": true_path + "/", "alt": true_path.replace("/", "\\"),
            "empty": "", "stale": "/r/old-name"}[kind]


def run_model_case(c):
    """returns (driver line, implementation answer) or None if the case could not be set up"""
    from cloudsync.types import FILE, DIRECTORY, NOTKNOWN, OType
    mw = ModelWorld(c["ip"], c["strip"])
    tp = c["true_path"]
    data = b"d1"
    if c["truth"] in ("file", "dir"):
        oid = mw.make_object(c["truth"], tp, data)
    elif c["truth"] in ("gone", "deleted"):
        oid = mw.make_object("file", tp, data)
        if c["truth"] == "gone":
            mw.provs[0]._delete(oid, without_event=True)
        else:
            mw.provs[0].delete(oid)
    else:
        mw.provs[0].mkdir("/r")
        oid = tp if c["ip"] else "never7"
    true_hash = mw.provs[0]._hash_func(data)

    def hsel(k):
        return {"true": true_hash, "none": None, "fake": b"fake", "fake2": b"\x00\x01"}[k]
    ent = None
    if c["entry"]:
        ent = mw.make_entry(OType(c["e_otype"]), oid, path_choice(c["e_path"], tp), hsel(c["e_hash"]), c["e_ex"], c["e_saved"],
                            c["e_changed"], c["e_lg"], c["e_ign"], c["other_changed"])
        side0 = enc_side(ent)
    else:
        # `update` makes a new entry: the model's `fresh` with the first event's type
        side0 = " ".join(["~", "~", "~", "U", "~", enc_ot(c["events"][0]["otype"]), "0", "0", "n"])
    ev_tokens, raised = [], []
    for ev in c["events"]:
        mw.clock.advance(3)
        t = int(mw.clock.now)
        p = path_choice(ev["path"], tp)
        h = hsel(ev["hash"])
        ev_tokens.append(enc_event(ev["otype"], oid, p, h, ev["ex"], ev["accurate"]) + " %d" % t)
        try:
            mw.state.update(0, ev["otype"], oid, path=p, hash=h, exists=ev["ex"], accurate=ev["accurate"])
            raised.append(False)
        except AssertionError:
            raised.append(True)
    e2 = mw.state.lookup_oid(0, oid)
    if e2 is None:
        return None
    if not c["entry"]:
        e2[1]._changed = c["other_changed"]
    after_events = enc_side(e2)
    truth = mw.truth_tokens(oid)
    mw.clock.advance(4)
    now = int(mw.clock.now)
    e2.get_latest(force=c["force"], sides=(0,))
    after_get = enc_side(e2)
    oc = c["other_changed"]
    # get_latest(sides=(0,)) takes the maximum over the listed sides only: the model's otherChanged is then 0;
    # the two-sided call is exercised separately below
    line = "ev %s %s %d %d | %s | %s | %s" % (enc_bool(c["ip"]), enc_bool(c["force"]), 0, now, side0, truth, " | ".join(ev_tokens))
    impl = "%s | %s | %s" % (" ".join(enc_bool(r) for r in raised), after_events, after_get)
    key = (c["ip"], c["truth"], c["entry"] and c["e_ex"], tuple((e["path"], e["hash"], e["ex"], e["otype"].value) for e in c["events"]), c["force"])
    return line, impl, key


def run_two_sided_get(c):
    """the same with the real two-sided `get_latest()` of pre_sync (staleness decided by max over both sides)"""
    from cloudsync.types import OType
    mw = ModelWorld(c["ip"], False)
    tp = c["true_path"]
    oid = mw.make_object("file", tp, b"d1")
    if c["truth"] in ("gone", "never", "deleted"):
        mw.provs[0]._delete(oid, without_event=True)
    true_hash = mw.provs[0]._hash_func(b"d1")
    ent = mw.make_entry(OType("file"), oid, tp, true_hash, c["e_ex"], c["e_saved"], c["e_changed"], c["e_lg"], c["e_ign"], c["other_changed"])
    side0 = enc_side(ent)
    ev = c["events"][0]
    toks = []
    if ev["otype"].value != "trashed" and rng_bool(c):
        mw.clock.advance(3)
        t = int(mw.clock.now)
        toks.append(enc_event(ev["otype"], oid, None, None, ev["ex"], ev["accurate"]) + " %d" % t)
        mw.state.update(0, ev["otype"], oid, exists=ev["ex"], accurate=ev["accurate"])
    after_events = enc_side(ent)
    truth = mw.truth_tokens(oid)
    mw.clock.advance(4)
    now = int(mw.clock.now)
    ent.get_latest()
    after_get = enc_side(ent)
    line = "ev %s F %d %d | %s | %s%s" % (enc_bool(c["ip"]), c["other_changed"], now, side0, truth, "".join(" | " + t for t in toks))
    impl = "%s | %s | %s" % (" ".join("F" for _ in toks), after_events, after_get)
    return line, impl, ("two-sided", c["ip"], c["e_ex"], c["e_changed"], c["e_lg"], c["other_changed"], bool(toks))


def rng_bool(c):
    return c["other_changed"] != 60


def gen_pe_cases(rng, n):
    from cloudsync.types import FILE, DIRECTORY
    for _ in range(n):
        ents = []
        for k in range(rng.randint(0, 4)):
            ents.append({"oid": "e%d" % k, "path": rng.choice(["/r/x", "/r/x", "/r/y", "/r/dir", "/r/X", None]),
                         "hash": rng.choice([None, b"h1", b"h2"]), "otype": rng.choice(["file", "dir"]),
                         "ign": rng.choice(["n", "n", "n", "d", "c", "i", "t"])})
        ev = {"otype": rng.choice([FILE, DIRECTORY, DIRECTORY]),
              "oid": rng.choice([None, None, "e0", "e1", "e2", "unknown9"]),
              "path": rng.choice([None, "", "/r/x", "/r/y", "/r/dir", "/r/nowhere", "/r/X", "/r/DIR"]),
              "hash": rng.choice([None, b"h1", b"h2"]),
              "ex": rng.choice([True, False, False, None]),
              "from_walk": rng.random() < 0.5}
        if ents and rng.random() < 0.35:
            # an event that repeats what the state already holds for an entry (a walk over an unchanged object)
            k = rng.choice(ents)
            newpath = k["path"]
            r = rng.random()
            if r < 0.15:
                newpath = "/r/moved"
            elif r < 0.4 and k["path"]:
                newpath = k["path"].swapcase().replace("/R/", "/r/")       # the same name in another case
            ev.update({"oid": k["oid"], "hash": k["hash"] if rng.random() < 0.8 else b"h9", "path": newpath, "from_walk": rng.random() < 0.8})
        yield {"ents": ents, "ev": ev, "ci": rng.random() < 0.5}


def run_pe_case(c):
    from cloudsync.event import Event, EventManager
    from cloudsync.types import OType
    mw = ModelWorld(False, case_sensitive=not c.get("ci", False))
    EventManager._provider_guard.clear()
    emgr = EventManager(mw.provs[0], mw.state, 0)
    made = []
    for e in c["ents"]:
        made.append(mw.make_entry(OType(e["otype"]), e["oid"], e["path"], e["hash"], "P", None, 0, 0, e["ign"]))
    # index order: lookup_path answers in the order of the per-path dict; entries without path after
    idx, seen = [], set()
    for path, d in mw.state._paths[0].items():
        for ent in d.values():
            if id(ent) not in seen:
                seen.add(id(ent))
                idx.append(ent)
    for ent in mw.state._oids[0].values():
        if id(ent) not in seen:
            seen.add(id(ent))
            idx.append(ent)
    got = []
    orig = mw.state.update

    def spy(side, otype, oid, path=None, hash=None, exists=True, prior_oid=None, size=None, mtime=None, accurate=False):  # noqa
        got.append(enc_event(otype, oid, path, hash, exists, accurate))
    looked = []
    saved_lookup = type(mw.state).lookup_oid
    type(mw.state).lookup_oid = lambda self, side, oid: (looked.append(oid), saved_lookup(self, side, oid))[1]
    type(mw.state).update, saved = (lambda self, *a, **kw: spy(*a, **kw)), type(mw.state).update
    try:
        ev = c["ev"]
        emgr._process_event(Event(ev["otype"], ev["oid"], ev["path"], ev["hash"], ev["ex"]), from_walk=ev["from_walk"])
    finally:
        type(mw.state).update = saved
        type(mw.state).lookup_oid = saved_lookup
        EventManager._provider_guard.clear()
    ev = c["ev"]
    line = "pe %s | %s%s" % (enc_bool(ev["from_walk"]), enc_event(ev["otype"], ev["oid"], ev["path"], ev["hash"], ev["ex"]),
                             "".join(" | " + enc_side(x) for x in idx))
    if got:
        impl = "update " + got[0]
        kind = "update"
    else:
        # dropped (no id: returns before any lookup by id) or walk no-op (returns after looking the id up)
        impl = "noop" if looked else "dropped"
        kind = impl
    return line, impl, kind, (ev["oid"] is None, ev["from_walk"], ev["ex"], ev["otype"].value, bool(ev["path"]), len(c["ents"]))


def gen_fnf_cases(rng, n):
    """index contents at the parent path of a child whose creation failed with CloudFileNotFoundError: any mix of live
    entries, tombstones (discarded / irrelevant), conflicted entries, entries at other paths; child priority 0..7; the
    provider has / has not the parent folder"""
    for _ in range(n):
        ents = []
        for k in range(rng.randint(0, 4)):
            ents.append({"oid": "p%d" % k, "path": rng.choice(["/local/d", "/local/d", "/local/d", "/local/other", "/local/D"]),
                         "ign": rng.choice(["n", "d", "d", "i", "c", "t"]), "ex": rng.choice("PTMU"), "changed": rng.choice([0, 50])})
        yield {"ents": ents, "prio": rng.choice([0, 0, 1, 2, 3, 5, 6, 7]), "has": rng.random() < 0.6}


def run_fnf_case(c):
    """the REAL SyncManager.handle_cloud_file_not_found_error on a real state; observed: CloudTooManyRetriesError / whether the
    provider was asked for the parent (only when no entry was found) / whether the synthetic parent event was injected /
    which entry the parent lookup returned first"""
    from cloudsync.types import DIRECTORY, FILE
    import cloudsync.exceptions as ex
    w = World("oid-oid")
    try:
        st, mgr = w.cs.state, w.cs.smgr
        mw = ModelWorld.__new__(ModelWorld)
        mw.state = st
        made = [ModelWorld.make_entry(mw, DIRECTORY, e["oid"], e["path"], None, e["ex"], None, e["changed"], 0, e["ign"]) for e in c["ents"]]
        child = ModelWorld.make_entry(mw, FILE, "child1", "/local/d/f.txt", b"h", "P", None, 60, 0, "n")
        child._priority = c["prio"]
        if c["has"]:
            w.provs[0].mkdir("/local")
            w.provs[0].mkdir("/local/d")
        idx, seen = [], set()
        for path, d in st._paths[0].items():
            for ent in d.values():
                if id(ent) not in seen and ent is not child:
                    seen.add(id(ent))
                    idx.append(ent)
        asked, injected, found = [], [], []
        cls = type(st)
        s_lookup, s_update = cls.lookup_path, cls.update
        p_info = w.provs[0].info_path

        def lookup(self_, side, path, stale=False):
            r = s_lookup(self_, side, path, stale=stale)
            found.append(r[0][side].oid if r else None)
            return r
        cls.lookup_path = lookup
        cls.update = lambda self_, side, otype, oid, **kw: injected.append((side, oid, kw.get("path")))
        w.provs[0].info_path = lambda path, use_cache=True: (asked.append(path), p_info(path))[1]
        try:
            try:
                mgr.handle_cloud_file_not_found_error(0, child, 1)
                raised = False
            except ex.CloudTooManyRetriesError:
                raised = True
            except AssertionError:
                raised = False
            except Exception as e:  # noqa  (a crash of the handler is an answer the model does not have: reported as a disagreement)
                raised = "!" + type(e).__name__
        finally:
            cls.lookup_path, cls.update = s_lookup, s_update
            w.provs[0].info_path = p_info
        if isinstance(raised, str):
            impl = raised
        elif raised:
            impl = "toomany"
        elif asked:
            impl = "inject" if injected else "noinfo"
        else:
            impl = "use " + enc_str(found[0] if found else None)
        line = "fnf %d %s %s%s" % (c["prio"], enc_bool(c["has"]), enc_str("/local/d"), "".join(" | " + enc_side(x, 0) for x in idx))
        key = (c["prio"] > 5, c["has"], tuple(sorted((e["path"], e["ign"]) for e in c["ents"])))
        return line, impl, key
    finally:
        w.close()


def model_tie(rng, n_ev, n_pe):
    lines, impls, keys, kinds = [], [], [], []
    hist = collections.Counter()
    for c in gen_model_cases(rng, n_ev):
        r = run_model_case(c)
        if r is None:
            hist["setup-skipped"] += 1
            continue
        lines.append(r[0]); impls.append(r[1]); keys.append(r[2]); kinds.append("ev")
        hist["truth:" + c["truth"]] += 1
        hist["ip:" + str(c["ip"])] += 1
        hist["events:%d" % len(c["events"])] += 1
        if c["entry"]:
            hist["entry-ex:" + c["e_ex"]] += 1
        else:
            hist["entry:fresh"] += 1
        if rng.random() < 0.25:
            r2 = run_two_sided_get(c)
            lines.append(r2[0]); impls.append(r2[1]); keys.append(r2[2]); kinds.append("ev2")
            hist["two-sided-get"] += 1
    for c in gen_pe_cases(rng, n_pe):
        line, impl, kind, key = run_pe_case(c)
        lines.append(line); impls.append(impl); keys.append(key); kinds.append("pe:" + kind)
        hist["pe:" + kind] += 1
    for c in gen_fnf_cases(rng, max(60, n_pe // 6)):
        line, impl, key = run_fnf_case(c)
        lines.append(line); impls.append(impl); keys.append(key); kinds.append("fnf")
        hist["fnf:" + impl.split()[0]] += 1
    outs = run_driver("monc14", lines)
    dis = []
    for line, impl, out, kind in zip(lines, impls, outs, kinds):
        ok = out == impl
        if not ok:
            dis.append({"line": line, "implementation": impl, "model": out})
    return lines, keys, dis, hist


# ======================================================================================================================
#  known findings (exact deterministic replays on the real engine) and kernel-checked witnesses replayed on the real code
# ======================================================================================================================

def _quiesce_plain(w, cap=300, extra=lambda: False):
    n, quiet = 0, 0
    while n < cap:
        for x in "LRS":
            w.step(x)
            n += 1
        if not w.busy() and not extra():
            quiet += 1
            if quiet >= 2:
                return True
        else:
            quiet = 0
    return False


def replay_tombstone_erased(variant="twice"):
    """path-id provider: the user deletes a synced file; the genuine delete event is followed by a stale 'exists' event
    for the vanished path delivered twice (or once with exists=None): the engine re-creates the file the user deleted."""
    from cloudsync.event import Event
    from cloudsync.types import FILE
    w = World("path-oidf")
    try:
        _quiesce_plain(w)
        w.user(1, "create", "/remote/d", b"v1")
        _quiesce_plain(w)
        w.user(0, "delete", "/local/d")
        w.step("L")
        stale = [Event(FILE, "/local/d", "/local/d", None, True)] * 2 if variant == "twice" else [Event(FILE, "/local/d", "/local/d", None, None)]
        for e in stale:
            w.cs.emgrs[0].queue(e)
        q = _quiesce_plain(w)
        return q and ("/d" in w.tree(0) or "/d" in w.tree(1))
    finally:
        w.close()


def replay_tombstone_single_stale_ok():
    """control: ONE stale 'exists' event is absorbed (LIKELY_TRASHED): the deletion propagates"""
    from cloudsync.event import Event
    from cloudsync.types import FILE
    w = World("path-oidf")
    try:
        _quiesce_plain(w)
        w.user(1, "create", "/remote/d", b"v1")
        _quiesce_plain(w)
        w.user(0, "delete", "/local/d")
        w.step("L")
        w.cs.emgrs[0].queue(Event(FILE, "/local/d", "/local/d", None, True))
        q = _quiesce_plain(w)
        return q and not w.tree(0) and not w.tree(1)
    finally:
        w.close()


def replay_ci_walk_before_case_rename():
    """case-insensitive path-id provider: a non-empty folder is renamed in case only (d -> D) and a full walk is queued
    before the rename event is taken in: the engine uploads the unchanged child again."""
    w = World("path-oidf-ci")
    try:
        _quiesce_plain(w)
        w.user(0, "mkdir", "/local/d")
        w.user(0, "create", "/local/d/a", b"v1")
        _quiesce_plain(w)
        n0 = len(w.calls)
        w.user(0, "rename", "/local/d", "/local/D")
        w.by = "engine"
        try:
            w.cs.walk(0)
        finally:
            w.by = "user"
        q = _quiesce_plain(w)
        return q and any(c.by == "engine" and c.method in ("upload", "create") and not c.error for c in w.calls[n0:])
    finally:
        w.close()


def replay_stale_id_punted_out():
    """path-id provider, per-event batching: a file is renamed (d -> rx), written five times, renamed again (rx -> ry);
    the events are taken in ONE per intake, every intake followed by a sync step: the engine reads the dead id /rx as
    MISSING five times, gives up, re-creates /d from the other side and copies /ry: the rename has become a copy."""
    w = World("path-path")
    try:
        _quiesce_plain(w)
        w.user(0, "create", "/local/d", b"v1")
        _quiesce_plain(w)
        m = Mangler(w, 1, random.Random(1), ["batch"])
        m.split_chains = True
        w.user(1, "rename", "/remote/d", "/remote/rx")
        for k in range(5):
            w.user(1, "write", "/remote/rx", b"v%d" % (2 + k))
        w.user(1, "rename", "/remote/rx", "/remote/ry")
        for _ in range(5):
            w.step("R")
            w.step("S")
        q = _quiesce_plain(w, extra=m.pending)
        return q and "/d" in w.tree(0) and "/ry" in w.tree(0)
    finally:
        w.close()


def replay_ci_root_spelling_livelock():
    """case-insensitive provider, per-event batching: a folder and two children are created, one child through another
    spelling of the root folder; events are taken in one at a time under plain round-robin: the engine never goes quiet
    and nothing is synced."""
    w = World("oid-oid-ci")
    try:
        ms = [Mangler(w, s, random.Random(1), ["batch"]) for s in (0, 1)]
        w.user(1, "mkdir", "/remote/b")
        w.user(1, "create", "/REMOTE/b/d", b"v1")
        w.user(1, "create", "/remote/b/b", b"v1")
        q = _quiesce_plain(w, cap=600, extra=lambda: any(m.pending() for m in ms))
        return (not q) and not w.tree(0)
    finally:
        w.close()


def replay_reordered_renames_lose_folder():
    """id-stable provider: folders x and a are synced; the user renames a -> b, then x -> a; the two events are delivered
    in the opposite order: the engine deletes the local a, renames x onto it and then deletes b: folder b is lost."""
    w = World("oid-oid")
    try:
        _quiesce_plain(w)
        w.user(0, "mkdir", "/local/x")
        w.user(0, "mkdir", "/local/a")
        _quiesce_plain(w)
        w.user(1, "rename", "/remote/a", "/remote/b")
        w.user(1, "rename", "/remote/x", "/remote/a")
        evs = list(w.provs[1].events())
        for e in reversed(evs):
            w.cs.emgrs[1].queue(e)
        q = _quiesce_plain(w)
        return q and "/b" not in w.tree(0) and "/b" not in w.tree(1)
    finally:
        w.close()


def replay_late_modify_redundant_upload():
    """id-stable provider: files x and d are created, their events taken in, one sync step runs (it syncs x and, on the
    way, fills in d's path and hash); the user overwrites d; two sync steps run BEFORE the modify event is taken in: d is
    created on the other side with the new content under the stale hash, and when the modify event arrives the same
    content is uploaded again.  With the event taken in first there is one transfer."""
    def run(hold):
        w = World("oid-oid")
        try:
            _quiesce_plain(w)
            n0 = len(w.calls)
            w.user(0, "create", "/local/x", b"v1")
            w.user(0, "create", "/local/d", b"v3")
            w.step("L")
            w.step("S")
            w.user(0, "write", "/local/d", b"v6")
            if hold:
                w.step("S")
                w.step("S")
            q = _quiesce_plain(w)
            return q, len([c for c in w.calls[n0:] if c.by == "engine" and c.method in ("create", "upload") and not c.error and c.side == 1])
        finally:
            w.close()
    return run(False) == (True, 2) and run(True) == (True, 3)


def replay_batched_file_over_deleted_folder():
    """id-stable provider, per-event batching, name reuse: folder c/d is synced; the user creates file c/a, deletes the
    folder c/d and renames c/a to c/d; with one event per intake the engine parks the user's file as 'd.conflicted',
    re-creates the folder and never transfers the file.  With prompt delivery the folder is replaced by the file."""
    def run(split):
        w = World("oid-oid")
        try:
            _quiesce_plain(w)
            w.user(0, "mkdir", "/local/c")
            w.user(0, "mkdir", "/local/c/d")
            _quiesce_plain(w)
            ms = [Mangler(w, s, random.Random(1), ["batch"] if split else []) for s in (0, 1)]
            w.user(0, "create", "/local/c/a", b"v1")
            w.user(0, "delete", "/local/c/d")
            w.user(0, "rename", "/local/c/a", "/local/c/d")
            q = _quiesce_plain(w, extra=lambda: any(m.pending() for m in ms))
            return q, any(conflicted(k) for k in w.tree(0)), w.tree(1).get("/c/d", (None,))[0]
        finally:
            w.close()
    return run(False) == (True, False, "f") and run(True) == (True, True, "d")


def replay_folder_rename_vs_delete():
    """id-stable providers on both sides: an EMPTY synced folder g is renamed on one side (g -> ga) and deleted on the other
    in the same unsynced window.  Prompt delivery: the delete wins (no folder on either side).  The deleting side's events
    held back until the rename has been synced: the rename wins (ga on both sides)."""
    def run(hold):
        w = World("oid-oid")
        try:
            _quiesce_plain(w)
            w.user(0, "mkdir", "/local/g")
            _quiesce_plain(w)
            w.user(0, "rename", "/local/g", "/local/ga")
            w.user(1, "delete", "/remote/g")
            if hold:
                m = Mangler(w, 1, random.Random(1), ["hold"])
                _quiesce_plain(w)
                m.held.extend([0, e] for e in m.frozen)
                m.frozen = []
                q = _quiesce_plain(w, extra=m.pending)
            else:
                q = _quiesce_plain(w)
            return q, sorted(w.tree(0)), sorted(w.tree(1))
        finally:
            w.close()
    return run(False) == (True, [], []) and run(True) == (True, ["/ga"], ["/ga"])


# fixed findings: replayed on every run; must NOT reproduce (a regression is a VIOLATION with the replay as input)
FIXED = {
    "pathid-tombstone-erased-by-stale-event": lambda: replay_tombstone_erased("twice") or replay_tombstone_erased("none") or not replay_tombstone_single_stale_ok(),
}

KNOWN = {
    "folder-rename-vs-delete-order-dependent": replay_folder_rename_vs_delete,
    "pathid-ci-walk-before-case-rename-event": replay_ci_walk_before_case_rename,
    "pathid-stale-id-punted-out": replay_stale_id_punted_out,
    "ci-root-spelling-batch-livelock": replay_ci_root_spelling_livelock,
    "reordered-renames-with-name-reuse-lose-folder": replay_reordered_renames_lose_folder,
    "late-modify-event-redundant-upload": replay_late_modify_redundant_upload,
    "batched-file-over-deleted-folder-name": replay_batched_file_over_deleted_folder,
}


def replay_witnesses():
    """the kernel-checked counterexamples of Props/C14.lean, replayed on the real SyncState + MockProvider.
    Returns {witness: True if the real code behaves as the witness says}."""
    from cloudsync.types import FILE
    from cloudsync.sync.state import Exists
    out = {}
    # (duplicate_event_raw_differs / duplicate_event_pathid_vanished_differs were witnesses before fix
    #  pathid-tombstone-erased-by-stale-event; they are theorems `duplicate_event_same_state` /
    #  `stale_events_cannot_erase_tombstone` now and are evaluated by the step-4 oracle and the fixed-finding replay)
    # truth_overrides_needs_not_corrupt
    def corrupt(h):
        mw = ModelWorld(False)
        oid = mw.make_object("file", "/r/a", b"d1")
        th = mw.provs[0]._hash_func(b"d1")
        ent = mw.make_entry(FILE, oid, "/r/a", th, "C", "P", 0, 0, "n")
        mw.clock.advance(3)
        mw.state.update(0, FILE, oid, hash=h, exists=True)
        ent.get_latest(force=True, sides=(0,))
        return ent[0].exists
    out["truth_overrides_needs_not_corrupt"] = corrupt(None) == Exists.CORRUPT and corrupt(b"x") == Exists.EXISTS
    # getLatest_not_idempotent_when_hashes_disagree
    mw = ModelWorld(False, strip_info_hash=True)
    oid = mw.make_object("file", "/r/a", b"d1")
    ent = mw.make_entry(FILE, oid, "/r/a", None, "P", None, 0, 0, "n")
    mw.clock.advance(3)
    ent.get_latest(force=True, sides=(0,))
    c1 = tnat(ent[0].changed)
    mw.clock.advance(3)
    ent.get_latest(force=True, sides=(0,))
    out["getLatest_not_idempotent_when_hashes_disagree"] = c1 == 0 and tnat(ent[0].changed) != 0
    return out


# ======================================================================================================================
#  step 4: the property's own statements evaluated on the implementation (only after a break)
# ======================================================================================================================

def oracle_state(rng, n):
    """evaluates the theorems' statements (with exactly their hypotheses) on the real SyncState / EventManager; returns
    the first failing input or None"""
    from cloudsync.types import FILE, DIRECTORY, OType
    from cloudsync.sync.state import Exists
    for c in gen_model_cases(rng, n):
        if c["strip"]:
            continue

        def build():
            mw = ModelWorld(c["ip"])
            tp = c["true_path"]
            if c["truth"] in ("file", "dir"):
                oid = mw.make_object(c["truth"], tp, b"d1")
            elif c["truth"] in ("gone", "deleted"):
                oid = mw.make_object("file", tp, b"d1")
                mw.provs[0]._delete(oid, without_event=True)
            else:
                mw.provs[0].mkdir("/r")
                oid = tp if c["ip"] else "never7"
            th = mw.provs[0]._hash_func(b"d1")
            hs = {"true": th, "none": None, "fake": b"fake", "fake2": b"\x00\x01"}
            ex = c["e_ex"] if c["e_ex"] != "C" else "P"          # hypotheses: the entry is not CORRUPT
            ent = mw.make_entry(OType(c["e_otype"]), oid, path_choice(c["e_path"], tp), hs[c["e_hash"]], ex, None, c["e_changed"], c["e_lg"], "n")
            return mw, oid, ent, hs

        def fields(ent):
            s = ent[0]
            return (s.path, s.hash, s.exists, s.otype)
        ev = c["events"][0]
        if ev["otype"].value == "trashed" and ev["ex"] is True:
            continue
        desc = {"id_style": "path" if c["ip"] else "oid", "truth": c["truth"], "entry": {k: c[k] for k in ("e_otype", "e_path", "e_hash", "e_ex", "e_changed")},
                "event": {"otype": ev["otype"].value, "path": ev["path"], "hash": ev["hash"], "exists": ev["ex"]}}
        mw, oid, ent, hs = build()
        mw.clock.advance(3)
        mw.state.update(0, ev["otype"], oid, path=path_choice(ev["path"], c["true_path"]), hash=hs[ev["hash"]], exists=ev["ex"])
        mw.clock.advance(3)
        ent.get_latest(force=True, sides=(0,))
        once = fields(ent)
        info = mw.provs[0].info_oid(oid)
        if info is not None:
            want = (mw.provs[0].normalize_path_separators(info.path), info.hash, Exists.EXISTS, info.otype)
            if once != want:
                return dict(desc, law="truth_overrides_event_fields", got=repr(once), want=repr(want))
        else:
            if once[2] not in (Exists.TRASHED, Exists.MISSING) or (not c["ip"] and once[2] != Exists.TRASHED):
                return dict(desc, law="vanished_object_event_is_tombstone_only", got=repr(once))
            if ent.is_creation(0):
                return dict(desc, law="vanished_object_event_is_tombstone_only (is_creation)", got=repr(once))
        mw.clock.advance(3)
        ent.get_latest(force=True, sides=(0,))
        if fields(ent) != once:
            return dict(desc, law="getLatest_idempotent", got=repr(fields(ent)), want=repr(once))
        if not c["ip"] or info is not None:
            mw2, oid2, ent2, hs2 = build()
            for _ in range(2):
                mw2.clock.advance(3)
                mw2.state.update(0, ev["otype"], oid2, path=path_choice(ev["path"], c["true_path"]), hash=hs2[ev["hash"]], exists=ev["ex"])
            mw2.clock.advance(3)
            ent2.get_latest(force=True, sides=(0,))
            if fields(ent2) != once:
                return dict(desc, law="duplicate_event_same_state_partial", got=repr(fields(ent2)), want=repr(once))
        # duplicate_event_same_state (raw): second delivery changes nothing but the change time
        mw4, oid4, ent4, hs4 = build()
        mw4.clock.advance(3)
        mw4.state.update(0, ev["otype"], oid4, path=path_choice(ev["path"], c["true_path"]), hash=hs4[ev["hash"]], exists=ev["ex"])
        one = fields(ent4)
        mw4.clock.advance(3)
        mw4.state.update(0, ev["otype"], oid4, path=path_choice(ev["path"], c["true_path"]), hash=hs4[ev["hash"]], exists=ev["ex"])
        if fields(ent4) != one:
            return dict(desc, law="duplicate_event_same_state", got=repr(fields(ent4)), want=repr(one))
        # stale_events_cannot_erase_tombstone
        if info is None and c["e_ex"] in ("T", "L"):
            mw5, oid5, ent5, hs5 = build()
            for x in c["events"]:
                if x["otype"].value == "trashed" and x["ex"] is True:
                    continue
                mw5.clock.advance(3)
                mw5.state.update(0, x["otype"], oid5, path=path_choice(x["path"], c["true_path"]), hash=hs5[x["hash"]], exists=x["ex"])
            mw5.clock.advance(3)
            ent5.get_latest(force=True, sides=(0,))
            if ent5[0].exists != Exists.TRASHED:
                return dict(desc, law="stale_events_cannot_erase_tombstone", events=repr([(x["ex"], x["path"]) for x in c["events"]]), got=repr(ent5[0].exists))
        # the event makes the entry stale: pre_sync's plain get_latest() re-reads
        mw3, oid3, ent3, hs3 = build()
        ent3[0]._last_gotten = 50.0
        mw3.clock.advance(3)
        mw3.state.update(0, ev["otype"], oid3, exists=ev["ex"])
        if ent3.is_latest_side(0):
            return dict(desc, law="event_forces_reread", got="entry still counts as latest after an event")
    for c in gen_fnf_cases(rng, max(40, n // 10)):
        line, impl, key = run_fnf_case(c)
        live_parent = [e for e in c["ents"] if e["path"] == "/local/d" and e["ign"] not in ("d", "i", "c")]
        if c["prio"] <= 5 and c["has"] and not live_parent and impl != "inject":
            return {"law": "fnf_injects_parent_when_no_live_entry", "parent": "/local/d", "child_priority": c["prio"], "provider_has_parent": True,
                    "entries_in_index": repr(c["ents"]), "got": impl, "want": "inject (state.update(changed, DIRECTORY, <oid>, path=parent))"}
        if c["prio"] <= 5 and live_parent and impl != "use " + enc_str(live_parent[0]["oid"]):
            return {"law": "fnf_decision_table", "entries_in_index": repr(c["ents"]), "got": impl, "want": "use " + live_parent[0]["oid"]}
    for c in gen_pe_cases(rng, n):
        line, impl, kind, key = run_pe_case(c)
        ev = c["ev"]
        live = [e for e in c["ents"] if e["path"] == ev["path"] and e["ign"] not in ("d", "i", "c")]
        folder_delete = ev["ex"] is False and bool(ev["path"]) and ev["otype"].value == "dir"
        if ev["oid"] is None and not (folder_delete and live) and kind != "dropped":
            return {"law": "idless_event_dropped", "event": repr(ev), "entries": repr(c["ents"]), "got": impl}
        if ev["oid"] is None and folder_delete and live and not ev["from_walk"] and not (kind == "update" and enc_str(live[0]["oid"]) in impl.split()):
            return {"law": "folder_delete_matched_by_path", "event": repr(ev), "entries": repr(c["ents"]), "got": impl}
        same = [e for e in c["ents"] if e["oid"] == ev["oid"] and e["hash"] == ev["hash"] and e["path"] == ev["path"]]
        if ev["oid"] is not None and ev["from_walk"] and same and kind != "noop":
            return {"law": "walk_event_noop_when_nothing_differs", "event": repr(ev), "entries": repr(c["ents"]), "got": impl}
    return None


# ======================================================================================================================
#  the registered check
# ======================================================================================================================

MIX = ",".join(KINDS)
CONFIGS = KINDS + [MIX]


def enc_calls(calls):
    return " ".join("%d:%s:%s" % (s, m, enc_str(k)) for s, m, k in calls) or "-"


def engine_cases(tier, seed):
    """yields (kind-config, history, run B data) for the Lean layer"""
    per = 8 if tier == "quick" else 150
    fams = [(f, fl) for f in FAMILY_FLAVOURS if f != "settled-nd" for fl in FAMILY_FLAVOURS[f]]
    rng = rng_for(seed, "c14-plan")
    i = 0
    for cfg in CONFIGS:
        kinds = cfg.split(",")
        for _ in range(per):
            rng.shuffle(fams)
            for fam, fl in fams[:6 if tier == "quick" else 8]:
                i += 1
                storage = "sqlite" if i % 7 == 0 else "mock"
                hist = gen_history(fam, fl, seed, "run-%d" % i, storage=storage)
                yield cfg, kinds, hist, (seed + 1) * 100003 + i


CORE_SCENARIOS = ("file:/f.txt:write-vs-delete", "file:/f.txt:delete-vs-write", "file:/g/f.txt:write-vs-delete", "walk:case-")


def extra_cases(tier, seed):
    """(config name, kinds, history, mangle seed): `hold` on one id-stable side for the random families, `walkonly` on one
    id-stable side for the deletion-free settled family, `dirlast` (folder events after their children's) on one id-stable
    side, and the three systematic scenario classes (quick: the core classes - edit-vs-delete of a synced file with either
    side held back, case-only renames seen through a walk only, a folder with a child re-created on a path whose earlier
    occupant was deleted and synced with the folder's event kept back - in full,
    the rest sampled 1 in 10 with a seed-dependent offset; thorough: everything, two schedules each)"""
    per = 6 if tier == "quick" else 80
    rng = rng_for(seed, "c14-extra")
    fams = [(f, fl) for f in ("settled", "burst", "onesided", "disjoint") for fl in FAMILY_FLAVOURS[f] if fl != "path-path"]
    i = 0
    for _ in range(per):
        rng.shuffle(fams)
        for fam, fl in fams[:6]:
            i += 1
            yield "hold", ["hold1"], gen_history(fam, fl, seed, "hold-%d" % i), (seed + 1) * 50021 + i
    for _ in range(per):
        rng.shuffle(fams)
        for fam, fl in fams[:6]:
            i += 1
            yield "dirlast", ["dirlast1"], gen_history(fam, fl, seed, "dl-%d" % i), (seed + 1) * 50021 + i
    nd = list(FAMILY_FLAVOURS["settled-nd"])
    for _ in range(per):
        rng.shuffle(nd)
        for fl in nd[:6]:
            i += 1
            yield "walkonly", ["walkonly1"], gen_history("settled-nd", fl, seed, "wo-%d" % i), (seed + 1) * 50021 + i
    k = 0
    for fam, label, fl, base, wins, kinds, salt, mseed in scenario_runs("all", seed, 1 if tier == "quick" else 2):
        k += 1
        if tier == "quick":
            core = (any(c in label for c in CORE_SCENARIOS) and not label.endswith(":held=delay") and not label.endswith(":other=dup")) \
                or (label.startswith("reuse:") and "->folder+child" in label and label.endswith(":how=dirlast"))
            if not core and (k + seed) % 10:
                continue
        hist = gen_scripted(fam, fl, seed, salt + label.split(":held=")[0].split(":other=")[0].split(":how=")[0], base, wins, label=label)
        yield fam, kinds, hist, mseed


def run_pair(hist, kinds, mseed):
    """run B of a history; returns (list of driver lines with their descriptions, hard failures, stats)"""
    fold = hist["flavour"].endswith("-ci")
    b = RunB(hist["flavour"], kinds_for(hist, kinds, mseed), mseed, storage=hist["storage"], hashmix=hist["hashmix"])
    lines, hard = [], []
    try:
        cps = []

        def on_cp(i, q):
            cps.append((q, b.w.tree(0), b.w.tree(1)))
        b.replay(hist["script"], on_cp)
        mode = call_mode(hist)
        ca = hist["calls"]
        cb = b.calls.reduced()
        if mode == "trees":
            ca, cb = [], []
        if b.diverged:
            hard.append({"failure": "the same user operation was accepted in one run and rejected in the other", "detail": b.diverged})
        for i, (q, lb, rb) in enumerate(cps):
            qa, la, ra = hist["checkpoints"][i]
            if not q:
                hard.append({"failure": "the mangled run did not go quiet within the step cap (checkpoint %d)" % i})
                continue
            last = i == len(cps) - 1
            lines.append("c14 | %s | %s | %s | %s | %s | %s" % (enc_tree(la, fold), enc_tree(ra, fold), enc_tree(lb, fold), enc_tree(rb, fold),
                                                             enc_calls(ca) if last else "-", enc_calls(cb) if last else "-"))
        # the final replay is only judged when the two sides are EXACTLY equal: on case-insensitive flavours C01's relation
        # accepts sides that differ in case only, i.e. a case-only rename the pinned engine has not propagated; a walk
        # then legitimately makes it act (excluded by construction, counted)
        if not hard and cps and cps[-1][0] and b.w.tree(0) != b.w.tree(1):
            stats_case_only = True
        else:
            stats_case_only = False
        if not hard and cps and cps[-1][0] and not stats_case_only:
            lb, rb = b.w.tree(0), b.w.tree(1)
            n, q = b.final_replay_check()
            if not q:
                hard.append({"failure": "after replaying the tree as walk events the engine did not go quiet"})
            else:
                lines.append("quiet | %s | %s | %s | %s | %d" % (enc_tree(lb, fold), enc_tree(rb, fold), enc_tree(b.w.tree(0), fold),
                                                                 enc_tree(b.w.tree(1), fold), n))
        stats = collections.Counter()
        for m in b.m:
            stats.update(m.stats)
        stats["walks"] = b.walks
        stats["walks-skipped-pathid"] = b.walks_skipped
        stats["noop-reissues"] = sum(b.calls.noops.values())
        stats["mode:" + mode] += 1
        if stats_case_only:
            stats["final-replay-skipped-sides-differ-in-case"] += 1
        summ = {"flavour": hist["flavour"], "family": hist["family"], "storage": hist["storage"], "different_hash_functions": hist["hashmix"], "scenario": hist.get("label"), "mangling": kinds_for(hist, kinds, mseed), "mangle_seed": mseed,
                "call_mode": mode, "operations": [list(map(str, x[1:])) for x in hist["script"] if x[0] == "U"],
                "schedule": "".join(x[1] if x[0] == "E" else ("|" if x[0] == "Q" else "u") for x in hist["script"])[:400],
                "prompt_run": {"left": tree_lines(hist["checkpoints"][-1][1]), "right": tree_lines(hist["checkpoints"][-1][2]), "writes": [list(k) for k in hist["calls"]]},
                "mangled_run": {"left": tree_lines(b.w.tree(0)), "right": tree_lines(b.w.tree(1)), "writes": [list(k) for k in b.calls.reduced()],
                                "mangler": {k: v for k, v in stats.items()}}}
        return lines, hard, stats, summ
    finally:
        b.close()


def run(res, tier, seed, proof_broken, replay):
    import_repo()
    rng = rng_for(seed, "c14")
    opens, fixed = load_known_findings(PID)
    # 2. known findings and witnesses on the real code
    for ident, fn in KNOWN.items():
        if ident in opens:
            try:
                hit = fn()
            except Exception as e:  # noqa
                hit = None
                res.notes.append("replay of %s raised %r" % (ident, e))
            if hit:
                res.known.append("%s :: %s" % (ident, opens[ident]))
            elif hit is False:
                res.notes.append("known finding %s no longer reproduces (stale)" % ident)
    for ident, fn in FIXED.items():
        if ident in fixed and fn():
            res.violation({"property": PID, "kind": "regression of fixed finding", "id": ident, "what": fixed[ident],
                           "replay": "harness/c14_events.py replay_tombstone_erased: path-oidf; R create /d; quiesce; L delete /d; step L; queue on L "
                                     "Event(FILE,'/local/d','/local/d',None,True) twice (or once with exists=None); round-robin: /d must stay deleted"})
    wit = replay_witnesses()
    res.coverage["witnesses_replayed_on_real_code"] = wit
    # 3a. model tie
    n_ev, n_pe = (4000, 1500) if tier == "quick" else (40000, 15000)
    lines, keys, dis, hist = model_tie(rng, n_ev, n_pe)
    # 3b. trace refinement: paired engine runs through the Lean layer
    mon_lines, mon_sums, hard, stats = [], [], [], collections.Counter()
    cells = collections.Counter()
    unreliable = 0
    skipped = collections.Counter()
    import itertools
    for cfg, kinds, h, mseed in itertools.chain(engine_cases(tier, seed), extra_cases(tier, seed)):
        if not h["ok"]:
            unreliable += 1        # the prompt run itself did not converge: not a C14 matter (C01), history dropped
            continue
        if skip_reason(h):
            skipped[skip_reason(h)] += 1     # known weak spots of the pinned engine, see name_reuse / folder_rename_with_unsynced_child
            continue
        ls, hd, st, summ = run_pair(h, kinds, mseed)
        stats.update(st)
        cells[(h["family"], h["flavour"], "mix" if "," in cfg else cfg)] += 1
        for ln in ls:
            mon_lines.append(ln)
            mon_sums.append(summ)
        for x in hd:
            hard.append(dict(summ, **x))
    verdicts = run_driver("monc14", mon_lines) if mon_lines else []
    rejects = [(v, s) for v, s in zip(verdicts, mon_sums) if v != "ok"]
    res.coverage.update({
        "evaluations": len(lines) + len(mon_lines), "programs": len(lines) + sum(cells.values()),
        "distinct_nontrivial": len(set(keys)) + len({(s["flavour"], tuple(map(tuple, s["operations"])), tuple(map(str, s["mangling"].items()))) for s in mon_sums}),
        "rule": "model tie: real SyncState.update(...) x 1-4 deliveries with arbitrary otype/path/hash/exists/accurate values on an entry in any of the six "
                "Exists states (CORRUPT with saved value included) or on no entry, provider truth = file / folder / deleted / never existed, both id "
                "styles, forced and non-forced get_latest, real EventManager._process_event with id-less / walk / ordinary events over a small index; "
                "distinct by (id style, truth, entry state, event fields, mode).  Trace refinement: histories of the reliable families "
                "(settled, burst with fresh names, one-sided interleaved on id-stable flavours, disjoint concurrent) run twice from identical "
                "worlds, prompt and mangled (one kind at a time and all kinds together); every quiescence compared by the Lean layer monc14; "
                "distinct by (flavour, operations, mangling)",
        "samples": [{"model_line": lines[0] if lines else None}, {"monitor_line": mon_lines[0][:600] if mon_lines else None, "run": mon_sums[0] if mon_sums else None}],
        "disagreements_checked": len(dis) + len(rejects) + len(hard),
        "model_tie_lines": len(lines), "model_tie_histogram": dict(hist),
        "paired_runs": sum(cells.values()), "paired_runs_by_family": dict(collections.Counter(k[0] for k in cells.elements())),
        "paired_runs_by_flavour": dict(collections.Counter(k[1] for k in cells.elements())),
        "paired_runs_by_mangling": dict(collections.Counter(k[2] for k in cells.elements())),
        "mangler_statistics": dict(stats), "monitor_lines": len(mon_lines), "prompt_runs_dropped_not_converged": unreliable, "histories_skipped_by_construction": dict(skipped),
        "traces_validated_against_impl": len(mon_lines),
        "fingerprints": fingerprints(dict(MODEL_FP, **EC.ENGINE_FP)),
    })
    res.assumptions += [
        "step-atomic engine semantics; harness determinisation (sequential ids, virtual clock, insertion-ordered sets) selects one admissible behaviour",
        "the generator is restricted to families / flavours / manglings on which the pinned engine was measured reliable (>= 2000 paired runs per "
        "mangling kind, zero failures); the shapes on which the pinned engine itself violates C14 are the listed known findings, excluded by construction",
        "path-id sides get duplication (adjacent), walks (with no event waiting), per-event batching (window-synchronous families; an id's events kept "
        "together with the event that ends it), id-less events, and events for ids that never existed or were deleted (one stale event per id); "
        "delay / permutation / replay / dropped paths only on id-stable sides, and not for histories that reuse a name inside an unsynced window",
        "engine writes are compared exactly only where both runs see the same truth from their first engine step of a window on (settled, burst); "
        "for interleaved families only the per-version transfer bound; for name reuse only trees and '.conflicted' artefacts",
        "the Lean theorems of part 2 are about the relation the layer evaluates; the engine is tied to it by sampled runs (partial)",
        "model tie: size / mtime, prior_oid, the path/oid indexes and root-change notification are outside the model; provider = MockProvider",
    ]
    for v, s in rejects[:3]:
        res.violation(dict(s, property=PID, monitor_verdict=v))
    for s in hard[:3]:
        res.violation(dict(s, property=PID))
    broken = list(proof_broken)
    if dis:
        broken.append("model tie: %r" % (dis[0],))
    bad_wit = [k for k, v in wit.items() if not v]
    if bad_wit:
        broken.append("witness no longer reproduces on the real code: %s" % bad_wit)
    if broken and not rejects and not hard:
        hit = oracle_state(rng_for(seed, "c14search"), 1500 if tier == "quick" else 20000)
        if hit:
            res.violation({"property": PID, "kind": "a statement of Props/C14.lean fails on the implementation", "failing": hit, "broken": broken[:3]})
        else:
            res.violation({"property": PID, "kind": "proof obligation or model correspondence no longer checks", "broken": broken[:3],
                           "first_disagreements": dis[:3]}, no_input=True)


if __name__ == "__main__":
    if len(sys.argv) > 1 and sys.argv[1] == "--calibrate":
        calibrate(sys.argv[2:])
        sys.exit(0)
    if len(sys.argv) > 1 and sys.argv[1] == "--calibrate-scenarios":
        calibrate_scenarios(sys.argv[2:])
        sys.exit(0)
    standard_main(PID, run)
