"""ENG — the decision tables of the sync engine (cloudsync/sync/manager.py) tied to the Lean model by differential execution.

Library + script (NOT a property check of its own):
    /venv/bin/python harness/eng_decide.py --selftest [--tier quick|thorough]

Lean side: lean/Csverif/Model/Engine.lean (the decision functions), lean/Csverif/Props/Engine.lean (theorems, listed in
lean/obligations/ENG.json), driver layer `engine` (lean/Csverif/Driver/Engine.lean) which evaluates the very definitions the
theorems are about on encoded abstract entries.

Tie: every case is an ABSTRACT entry (two sides: id?, path-vs-sync_path relation, hash-vs-sync_hash relation, exists +
saved-exists, type, change flag, force flag; order of the change times; ignore reason; priority) + an ORACLE (what translate, the
provider calls, the look-ups of other entries and the transfer leaves answer) + the method under test.  The case is REALISED:
a real `SyncEntry` in a real `SyncState` over two real `MockProvider`s, fields written directly, the entry registered in the
indexes; a real `SyncManager` (subclass that overrides ONLY the leaves: download_changed / upload_synced / create_synced /
mkdir_synced / check_disjoint_create / the cross-entry look-ups / the provider calls / notifications, each a recording stub
with the scripted answer).  The REAL method (`sync`, `_sync_one_entry`, `pre_sync`, `embrace_change`,
`handle_path_change_or_creation`, `handle_hash_diff`, `delete_synced`, `handle_rename`, `handle_corrupt`,
`handle_changed_is_missing`, `SyncState.split`, `finished`, and the `SyncEntry`/`SideState` predicates) runs; the returned code
(or escaping exception), the sequence of leaf calls with the side they address, and the entry afterwards (abstracted back:
flags, zeroed peer, ignore reason, exists/saved-exists, relations, priority) are compared with the model's line.

Part 2 (ops `x…`, Model/EngineXfer.lean): the TRANSFER LEAVES with a real temp directory — the real `make_temp_file`,
`download_changed`, `upload_synced`, `create_synced`/`_create_synced`, `mkdir_synced`/`unsafe_mkdir_synced`, `clean_temps`,
and `handle_hash_diff` / `handle_path_change_or_creation` with REAL leaves underneath, on real files in two real directories
(the manager's tempdir and the tempdir of an "earlier run"), a scripted provider (download/upload/create/mkdirs/hash_data/
info_path/info_oid), over all combinations of (temp_file none / same hash / other hash / other path / in the old directory /
random name) x (each directory present or deleted) x (files lying around) x (hash None / set, path None / set, file / folder)
x provider outcome for make_temp_file and download_changed, and random samples for the rest; compared: returned value or
exception, provider calls with the CONTENT TAG of the bytes handed over, the files left (directory, name class, '.tmp', content
tag), the fields recorded on both sides, ignore reason, priority.

Part 3 (ops `y…`, Model/EngineConflict.lean + Model/EngineMore.lean): the real `handle_hash_conflict` / `handle_split_conflict` /
`SyncState.split` (both entries compared afterwards, every escape route of a CloudException), `conflict_rename` (real
`Provider.split`/`join`, scripted `rename` that rejects taken names), `rename_to_fix_conflict`, `_resolve_rename`,
`handle_cloud_file_not_found_error` with a REAL parent entry in the index, `check_disjoint_create` / `_get_untrashed_peers` and
`get_folder_file_conflict` with lists of REAL peer entries, and the other-entry loops of `mkdir_synced`.

Part 4 (ops `z…`, Model/EngineRefresh.lean): the REFRESH.  In these ops `SyncEntry.get_latest` / `unconditionally_get_latest` are the
REAL methods, traced (entry, call site, `sides`, `force`, the sides actually re-read); entries carry numeric change stamps and
`_last_gotten` marks; the provider's answer about an id is scripted per (entry, side).  `zdec` = the trigger alone (exhaustive over
small stamps), `zgl` = a direct call, `zat` = the call sites (`pre_sync`, `handle_split_conflict`, `lookup_creation`, the fill-in loop
of `SyncState.change`), `zren` = the whole `handle_rename` with a REAL entry at the rename target.  On top, engine level
(`check_refresh_histories`, run from C02's `attach` and the selftest): rename-over histories (delete b; rename a -> b) with a concurrent
edit of the target on the other side and a sync step between the two intakes, on all 8 flavours — every traced `get_latest` call is
compared with the model (`zsite`: scope of the call site, `zdec`: which sides are re-read and the new marks), and a user-written
content that no user removed must survive; a lost edit is reported with the concrete run (`--history '<spec>'` re-runs it).

`check_engine_tables(res, tier, seed)` runs the four ties and returns (n_cases, disagreements); C01-C04 call `attach`.
"""
import atexit
import collections
import itertools
import os
import shutil
import sys
import tempfile
import time as _time

sys.path.insert(0, os.path.dirname(os.path.abspath(__file__)))
from common import *  # noqa

LAYER = "engine"
PID = "ENG"

ENG_FP = {"cloudsync/sync/manager.py": ["SyncManager._sync_one_entry", "SyncManager._left_sync", "SyncManager._unlink_peer_that_left_sync", "SyncManager.pre_sync", "SyncManager.check_revivify", "SyncManager.sync",
                                        "SyncManager.path_conflict", "SyncManager.finished", "SyncManager.embrace_change",
                                        "SyncManager.handle_path_change_or_creation", "SyncManager.handle_rename", "SyncManager.handle_corrupt",
                                        "SyncManager.delete_synced", "SyncManager._handle_dir_delete_not_empty", "SyncManager.handle_hash_diff",
                                        "SyncManager.handle_changed_is_missing", "SyncManager.handle_cloud_file_not_found_error",
                                        "SyncManager.handle_file_name_error", "SyncManager._temp_file", "SyncManager.make_temp_file",
                                        "SyncManager.download_changed", "SyncManager.upload_synced", "SyncManager._create_synced",
                                        "SyncManager.create_synced", "SyncManager.mkdir_synced", "SyncManager.unsafe_mkdir_synced",
                                        "SyncManager.clean_temps", "SyncManager.handle_hash_conflict", "SyncManager.handle_split_conflict",
                                        "SyncManager.conflict_rename", "SyncManager.rename_to_fix_conflict", "SyncManager._resolve_rename",
                                        "SyncManager._get_untrashed_peers", "SyncManager.check_disjoint_create", "SyncManager.get_folder_file_conflict"],
          "cloudsync/sync/state.py": ["SideState.needs_sync", "SideState.__setattr__", "SideState.clear", "SideState.uncorrupt", "SideState.set_force_sync", "SideState.clean_temp",
                                      "SyncEntry.hash_conflict", "SyncEntry.is_creation", "SyncEntry.is_deletion", "SyncEntry.is_rename",
                                      "SyncEntry.is_path_change", "SyncEntry.ignore", "SyncEntry.punt", "SyncState.updated", "SyncState.finished",
                                      "SyncState.split", "SyncState.update_entry", "SyncState.mark_changed",
                                      # part 4: the refresh
                                      "SyncEntry.get_latest", "SyncEntry.mark_dirty", "SyncEntry.is_latest_side", "SyncState.unconditionally_get_latest",
                                      "SyncState.unconditionally_get_no_info", "SyncState.lookup_creation", "SyncState.change", "SyncState.lookup_path",
                                      "SyncState._change_path"]}

# ---------------------------------------------------------------------------------------------------------------
# the abstract feature space

REL = "ncsed"                      # nn cn ns eq ne
EXS = ["u-", "e-", "t-", "m-", "l-", "c-", "cu", "ce", "ct", "cm", "cl"]       # exists + saved-exists
OTS = "fdn"
IGNS = "ndcti"
PRIOS = [-10, -1, 0, 1, 10, 11, 20, 21, 30, 40, 41, 50, 51, 60, 90, 99, 100, 110]
ORACLE = [("trL", "npsalg"), ("trR", "npsalg"), ("inRoot", "TF"), ("nameConfl", "TF"), ("parentConfl", "TF"),
          ("rdc", "TF"), ("delCreate", "TF"), ("delRename", "TF"), ("del", "ofet"), ("kidsNeedSync", "TF"), ("remaining", "TF"),
          ("dl", "ofmct"), ("up", "ofmnct"), ("childConfl", "TF"), ("disjoint", "TF"), ("mkd", "opxnt"), ("cr", "opncyt"), ("ren", "ofnet"),
          ("rcEnt", "TF"), ("rcNeedsSync", "TF"), ("rcDelExists", "TF"), ("fixFnf", "TF"), ("hcTemp", "TF"),
          ("revOtherL", "TF"), ("revOtherR", "TF"), ("revInfoL", "nxp"), ("revInfoR", "nxp"), ("revTrL", "TF"), ("revTrR", "TF")]
ORACLE_NAMES = [n for n, _ in ORACLE]
SIDE_FIELDS = [("oid", "TF"), ("p", REL), ("h", REL), ("exs", EXS), ("ot", OTS), ("ch", "TF"), ("fs", "TF")]
SPACE_SIDE = 1
for _n, _d in SIDE_FIELDS:
    SPACE_SIDE *= len(_d)
SPACE_ENTRY = SPACE_SIDE * SPACE_SIDE * 2 * len(IGNS) * len(PRIOS)
SPACE_ORACLE = 1
for _n, _d in ORACLE:
    SPACE_ORACLE *= len(_d)

# weights for random completion (first = most likely); the weights only steer the sample, every value occurs
W_SIDE = {"oid": "TTTF", "p": "ccceeedddns", "h": "ccceeedddns", "ot": "ffffffdddddn", "ch": "TTF", "fs": "FFFFFT",
          "exs": ["e-"] * 8 + ["t-"] * 3 + ["m-"] * 2 + ["u-"] * 2 + ["l-"] + ["c-", "cu", "ce", "ce", "ct", "cm", "cl"]}
W_ORACLE = {"trL": "pppssalgn", "trR": "pppssalgn", "inRoot": "TF", "nameConfl": "FFT", "parentConfl": "FFFFT", "rdc": "FFFFFFT",
            "delCreate": "FFFFT", "delRename": "FFFFT", "del": "ooofet", "kidsNeedSync": "TF", "remaining": "TF", "dl": "oooofmct",
            "up": "ooofmnct", "childConfl": "FFT", "disjoint": "FFFT", "mkd": "ooopxnt", "cr": "ooopncyt", "ren": "ooofneeet",
            "rcEnt": "TF", "rcNeedsSync": "TF", "rcDelExists": "FFT", "fixFnf": "FFT", "hcTemp": "FFFT",
            "revOtherL": "FFFT", "revOtherR": "FFFT", "revInfoL": "pppnx", "revInfoR": "pppnx", "revTrL": "TTF", "revTrR": "TTF"}
W_IGN = "nnnnnnndcti"
W_PRIO = [0] * 8 + PRIOS + [10, 10, 20, 30]


def rand_side(rng):
    return {k: rng.choice(W_SIDE[k]) for k, _ in SIDE_FIELDS}


def rand_oracle(rng):
    return {k: rng.choice(W_ORACLE[k]) for k in ORACLE_NAMES}


def rand_case(rng, op, focus=None):
    c = {"op": op, "side": rng.choice("LR"), "l": rand_side(rng), "r": rand_side(rng), "ord": rng.choice("TF"), "ign": rng.choice(W_IGN),
         "prio": rng.choice(W_PRIO), "o": rand_oracle(rng), "pc": rng.choice(W_PRIO)}
    if focus:
        apply_focus(c, focus, rng)
    return c


def apply_focus(c, focus, rng):
    """focus: {key: allowed values}; keys `c.x`/`s.x` = field x of the changed / synced side, `o.x` oracle, `tr` = the translate
    answer toward the synced side, `side`, `ign`, `prio`, `ord`, `pc`"""
    if "side" in focus:
        c["side"] = rng.choice(focus["side"])
    ch = "l" if c["side"] == "L" else "r"
    sy = "r" if c["side"] == "L" else "l"
    for k, allowed in focus.items():
        v = rng.choice(allowed)
        if k == "side":
            continue
        if k.startswith("c."):
            c[ch][k[2:]] = v
        elif k.startswith("s."):
            c[sy][k[2:]] = v
        elif k.startswith("l.") or k.startswith("r."):
            c[k[0]][k[2:]] = v
        elif k.startswith("o."):
            c["o"][k[2:]] = v
        elif k == "tr":
            c["o"]["trR" if c["side"] == "L" else "trL"] = v
        elif k == "trback":
            c["o"]["trL" if c["side"] == "L" else "trR"] = v
        else:
            c[k] = v


def enc_side(s):
    return s["oid"] + s["p"] + s["h"] + s["exs"] + s["ot"] + s["ch"] + s["fs"]


def enc_oracle(o):
    return "".join(o[k] for k in ORACLE_NAMES)


def enc_case(c):
    if c["op"].startswith("x"):
        return enc_xcase(c)
    if c["op"].startswith("y"):
        return enc_ycase(c)
    if c["op"].startswith("z"):
        return enc_zcase(c)
    return "%s %s %s %s %s %s %d %s %d" % (c["op"], c["side"], enc_side(c["l"]), enc_side(c["r"]), c["ord"], c["ign"], c["prio"],
                                            enc_oracle(c["o"]), c["pc"])


def dec_case(line):
    """inverse of enc_case (for replaying a reported disagreement: `--case "<line>"`)"""
    if line.startswith("z"):
        return dec_zcase(line)
    op, side, l, r, ord_, ign, prio, orc, pc = line.split()

    def side_of(t):
        return {"oid": t[0], "p": t[1], "h": t[2], "exs": t[3:5], "ot": t[5], "ch": t[6], "fs": t[7]}
    return {"op": op, "side": side, "l": side_of(l), "r": side_of(r), "ord": ord_, "ign": ign, "prio": int(prio),
            "o": {k: v for k, v in zip(ORACLE_NAMES, orc)}, "pc": int(pc)}


def describe_case(c):
    """the abstract entry in words (for replays / mutation reports)"""
    if c["op"].startswith("z"):
        return {"method": c["op"] + (":" + c["site"] if "site" in c else ""), "changed_side": c.get("side", "-"), "LOCAL": "-", "REMOTE": "-",
                "ignored": "-", "priority": 0, "line": enc_zcase(c), "case": {k: v for k, v in c.items() if k != "op"},
                "legend": "entry = <LOCAL> <REMOTE> <ignored> <priority*10> <changed L> <changed R> <_last_gotten L> <_last_gotten R>; probe = a (id gone) "
                          "| <hash s|e|o><path s|e|o><otype>: same / the synced value / another value; calls = target:site:sides+force:re-read sides"}
    if c["op"].startswith("y"):
        return {"method": c["op"], "changed_side": c.get("side", "-"), "LOCAL": "-", "REMOTE": "-", "ignored": c.get("ign", "-"),
                "priority": c.get("prio", 0) / 10.0, "line": enc_ycase(c), "case": {k: v for k, v in c.items() if k != "op"}}
    if c["op"].startswith("x"):
        return {"method": c["op"], "changed_side": c["side"], "temp_dir": enc_fs(c["fs"]), "CHANGED": enc_xside(c["c"]), "SYNCED": enc_xside(c["s"]),
                "LOCAL": "-", "REMOTE": "-", "ignored": c["ign"], "priority": c["prio"] / 10.0, "oracle": enc_xoracle(c["o"]), "line": enc_xcase(c),
                "legend": "side = otype/oid/path/hash/sync_hash/sync_path/exists/saved/changed/temp_file; temp_dir = <tempdir exists><old dir exists>:"
                          "<next random>:<dir c|o><name k<path>_<hash>|r<n>><.|+ (.tmp)>=<content tag>"}
    def side(s):
        return ("oid=%s path/sync_path=%s hash/sync_hash=%s exists=%s saved=%s otype=%s changed=%s force=%s"
                % (s["oid"], {"n": "None/None", "c": "set/None", "s": "None/set", "e": "equal", "d": "differ"}[s["p"]],
                   {"n": "None/None", "c": "set/None", "s": "None/set", "e": "equal", "d": "differ"}[s["h"]],
                   {"u": "UNKNOWN", "e": "EXISTS", "t": "TRASHED", "m": "MISSING", "l": "LIKELY_TRASHED", "c": "CORRUPT"}[s["exs"][0]],
                   s["exs"][1], {"f": "FILE", "d": "DIRECTORY", "n": "NOTKNOWN"}[s["ot"]], s["ch"], s["fs"]))
    return {"method": c["op"], "changed_side": c["side"], "LOCAL": side(c["l"]), "REMOTE": side(c["r"]),
            "local_change_time_le_remote": c["ord"], "ignored": c["ign"], "priority": c["prio"] / 10.0,
            "oracle": {k: v for k, v in c["o"].items()}, "parent_priority": c["pc"] / 10.0, "line": enc_case(c)}


# ---------------------------------------------------------------------------------------------------------------
# the rig: real SyncState / SyncEntry / SyncManager, stubbed leaves

class _Backoff(Exception):
    pass


class Rig:
    _tmp = None

    def __init__(self):
        import_repo()
        if Rig._tmp is None:
            base = "/dev/shm" if os.path.isdir("/dev/shm") else None
            Rig._tmp = tempfile.mkdtemp(prefix="eng_", dir=base)
            atexit.register(shutil.rmtree, Rig._tmp, True)
        self._old_tempdir = tempfile.tempdir
        tempfile.tempdir = Rig._tmp
        import types
        import cloudsync.sync.state as st
        import cloudsync.sync.manager as mg
        import cloudsync.exceptions as ex
        from cloudsync.providers.mock import MockProvider
        from cloudsync.types import FILE, DIRECTORY, NOTKNOWN, IgnoreReason, OInfo
        from cloudsync.notification import NotificationType, SourceEnum
        self.st, self.mg, self.ex = st, mg, ex
        self.OInfo = OInfo
        self.OT = {"f": FILE, "d": DIRECTORY, "n": NOTKNOWN}
        self.OTR = {v: k for k, v in self.OT.items()}
        self.EX = {"u": st.UNKNOWN, "e": st.EXISTS, "t": st.TRASHED, "m": st.MISSING, "l": st.LIKELY_TRASHED, "c": st.CORRUPT}
        self.EXR = {v: k for k, v in self.EX.items()}
        self.IGN = {"n": IgnoreReason.NONE, "d": IgnoreReason.DISCARDED, "c": IgnoreReason.CONFLICT, "t": IgnoreReason.TEMP_RENAME,
                    "i": IgnoreReason.IRRELEVANT}
        self.IGNR = {v: k for k, v in self.IGN.items()}
        self.fx = []
        self.x = None
        self.o = None
        self.case = None
        self.ent = None
        self.ctx = None
        self.rev_active = False
        self.fix_calls = 0
        self.roots = ("/L", "/R")
        self.now = 1000.0
        rig = self

        # -- clock: strictly increasing, so that `time.time()` is newer than every recorded change time
        self._old_time = st.time

        def tick():
            rig.now += 1.0
            return rig.now
        st.time = types.SimpleNamespace(time=tick, sleep=lambda s: None, monotonic=tick)

        # -- SyncEntry leaves (class-level: `type(ent) is SyncEntry` is asserted by the state)
        self._old_punt = st.SyncEntry.punt
        self._old_get_latest = st.SyncEntry.get_latest

        def punt(self_):
            if self_ is rig.ent:
                rig.fx.append("punt")
            return rig._old_punt(self_)

        def get_latest(self_, force=False, sides=(0, 1)):
            if rig.x is not None and getattr(rig.x, "real_get_latest", False):
                return rig.x.traced_get_latest(self_, force, sides, sys._getframe(1))        # part 4: the REAL method, traced
            if self_ is rig.ent:
                rig.fx.append("glf" if force else "gl")
        st.SyncEntry.punt = punt
        st.SyncEntry.get_latest = get_latest

        # -- providers: real MockProviders, the calls the decision code makes are scripted
        self.provs = (MockProvider(False, True), MockProvider(False, True))
        for side, p in enumerate(self.provs):
            p.name = "mock-" + "lr"[side]
            p.connect({"key": "val"})
            p.delete = lambda oid, _s=side: rig.prov_delete(_s, oid)
            p.rename = lambda oid, path, _s=side: rig.prov_rename(_s, oid, path)
            p.listdir = lambda oid, _s=side: rig.prov_listdir(_s, oid)
            p.is_subpath_of_root = lambda path, strict=False: rig.o["inRoot"] == "T"
            p.info_oid = lambda oid, use_cache=True, _s=side: rig.prov_info_oid(_s, oid)
            p.info_path = lambda path, use_cache=True, _s=side: rig.x.info_path(_s, path) if rig.x else None
            p.download = lambda oid, f, _s=side: rig.x.download(_s, oid, f)
            p.upload = lambda oid, f, _s=side: rig.x.upload(_s, oid, f)
            p.create = lambda path, f, _s=side: rig.x.create(_s, path, f)
            p.mkdirs = lambda path, _s=side: rig.x.mkdirs(_s, path)
            p.hash_data = lambda f, _s=side: rig.x.hash_data(_s, f)

        class Other:
            """another entry of the state table (what the cross-entry look-ups find)"""
            class S:
                def __init__(self, side):
                    self.side = side
                    self.oid = "oidX"
                    self.exists = st.EXISTS
                    self.otype = FILE

                def needs_sync(self):
                    return self.side == 0 and rig.o["rcNeedsSync"] == "T"

                def set_force_sync(self):
                    rig.fx.append("fk" + "LR"[self.side])

                def set_aged(self):
                    rig.fx.append("reprio")

            def __init__(self):
                self.sides = [Other.S(0), Other.S(1)]
                self.priority = 0
                self.ignored = IgnoreReason.NONE

            def __getitem__(self, i):
                return self.sides[i]

            def is_creation(self, side):
                return rig.o["delCreate"] == "T"

            def is_rename(self, side):
                return rig.o["delRename"] == "T"

            def is_deletion(self, side):
                return False

            def get_latest(self, *a, **k):
                pass

            def needs_sync(self):
                return rig.o["kidsNeedSync"] == "T"
        self.Other = Other

        class RState(st.SyncState):
            def lookup_path(self_, side, path, stale=False):
                if rig.ctx == "mkdir":
                    return [rig.ent] + ([] if getattr(rig.x.other, "discarded", False) else [rig.x.other])
                if rig.ctx == "delete":
                    return [rig.ent, rig.other]
                if rig.ctx == "rename":
                    if side == rig.synced:
                        return [rig.ent] + ([rig.other] if rig.o["rcEnt"] == "T" else [])
                    return []
                return super().lookup_path(side, path, stale)

            def lookup_oid(self_, side, oid):
                if rig.x and getattr(rig.x, "mk_lookup_pending", False):
                    rig.x.mk_lookup_pending = False
                    return rig.x.other2 if rig.x.o["alreadyDir"] else None
                if rig.rev_active and rig.o["revOther" + "LR"[side]] == "T":
                    return rig.other
                return super().lookup_oid(side, oid)

            def unconditionally_get_latest(self_, ent, side):
                if rig.x is not None and getattr(rig.x, "real_get_latest", False):
                    rig.x.reread.append(side)
                return super().unconditionally_get_latest(ent, side)

            def get_kids(self_, parent_path, side):
                if rig.ctx == "delete":
                    return iter([(rig.other, "kid")])
                return super().get_kids(parent_path, side)

            def split(self_, ent):
                rig.fx.append("split")
                if rig.x and getattr(rig.x, "fake_split", False):
                    return (ent, 1, ent, 0)      # what split does to the entry is tied by the op `split`; here only the call counts
                r = super().split(ent)
                rig.last_split = r
                return r

            def update(self_, side, otype, oid, path=None, hash=None, exists=True, prior_oid=None, size=None, mtime=None, accurate=False):  # noqa
                if rig.x and getattr(rig.x, "record_update", False):
                    rig.fx.append("adopt")
                return super().update(side, otype, oid, path=path, hash=hash, exists=exists, prior_oid=prior_oid, size=size, mtime=mtime,
                                      accurate=accurate)

        class NM:
            def notify(self_, n):
                if n.ntype == NotificationType.SYNC_CORRUPT_IGNORED:
                    rig.fx.append("nc" + "LR"[n.source.value])
                elif n.ntype == NotificationType.SYNC_DISCARDED:
                    rig.fx.append("nd" + "LR"[n.source.value])

            def notify_from_exception(self_, source, e, path=None):
                pass

        FIN, PUNT = mg.FINISHED, mg.PUNT

        class RManager(mg.SyncManager):
            # ---- wrappers that only set the look-up context / record the call, then run the REAL method
            def delete_synced(self_, sync, changed, synced, ignore_reason=IgnoreReason.DISCARDED):
                old, rig.ctx = rig.ctx, "delete"
                try:
                    return super().delete_synced(sync, changed, synced, ignore_reason)
                finally:
                    rig.ctx = old

            def handle_rename(self_, sync, changed, synced, translated_path):
                old, rig.ctx, rig.synced = rig.ctx, "rename", synced
                try:
                    return super().handle_rename(sync, changed, synced, translated_path)
                finally:
                    rig.ctx = old

            def check_revivify(self_, sync):
                rig.rev_active = True
                try:
                    return super().check_revivify(sync)
                finally:
                    rig.rev_active = False

            def finished(self_, side, sync):
                rig.fx.append("fin" + "LR"[side])
                return super().finished(side, sync)

            def handle_file_name_error(self_, sync, synced, translated_path):
                rig.fx.append("ne" + "LR"[synced])
                return super().handle_file_name_error(sync, synced, translated_path)

            def handle_cloud_file_not_found_error(self_, changed, sync, synced):
                rig.fx.append("fnf")
                old, rig.ctx, rig.synced = rig.ctx, "rename", synced
                try:
                    return super().handle_cloud_file_not_found_error(changed, sync, synced)
                finally:
                    rig.ctx = old

            def backoff(self_):
                raise _Backoff()

            # ---- leaves: scripted
            def handle_hash_conflict(self_, sync):
                rig.fx.append("hc")
                if rig.o["hcTemp"] == "T":
                    raise ex.CloudTemporaryError("scripted")
                return True

            def check_disjoint_create(self_, sync, changed, synced, translated_path):
                rig.fx.append("cd")
                return rig.o["disjoint"] == "T"

            def _get_child_conflict(self_, sync, changed):
                return [rig.other] if rig.o["childConfl"] == "T" else []

            def _get_parent_conflict(self_, sync, changed):
                if rig.o["parentConfl"] == "T":
                    rig.other.priority = rig.case["pc"] / 10.0
                    return rig.other
                return None

            def check_rename_is_delete_create(self_, sync, changed):
                return FIN if rig.o["rdc"] == "T" else None

            def rename_to_fix_conflict(self_, sync, side, path, temp_rename=False):
                rig.fx.append("cf" + "LR"[side])
                rig.fix_calls += 1
                if rig.fix_calls == 1 and rig.o["fixFnf"] == "T":
                    raise ex.CloudFileNotFoundError("scripted")
                return True

            def download_changed(self_, changed, sync):
                rig.fx.append("dl" + "LR"[changed])
                a = rig.o["dl"]
                if a == "o":
                    return True
                if a == "f":
                    return False
                if a == "m":
                    sync[changed].exists = st.MISSING                       # manager.py 541
                    return False
                if a == "c":
                    raise ex.CloudCorruptError("scripted")
                raise ex.CloudTemporaryError("scripted")

            def upload_synced(self_, changed, sync):
                synced = 1 - changed
                rig.fx.append("up" + "LR"[synced])
                a = rig.o["up"]
                if a == "o":                                                # the statements of manager.py 656-665
                    sync[synced].hash = b"hNEW"
                    sync[synced].sync_hash = b"hNEW"
                    if not sync[synced].sync_path:
                        sync[synced].sync_path = sync[synced].path
                    sync[changed].sync_hash = sync[changed].hash
                    sync[changed].sync_path = sync[changed].path
                    self_.update_entry(sync, synced, exists=True, oid=sync[synced].oid, path=sync[synced].sync_path)
                    return True
                if a == "f":
                    return False
                if a == "m":
                    sync[synced].exists = st.MISSING                        # 674
                    return False
                if a == "n":
                    super().handle_file_name_error(sync, synced, sync[synced].path)    # 692
                    return True
                if a == "c":
                    raise ex.CloudCorruptError("scripted")
                raise ex.CloudTemporaryError("scripted")

            def create_synced(self_, changed, sync, translated_path):
                synced = 1 - changed
                rig.fx.append("cr" + "LR"[synced])
                a = rig.o["cr"]
                if a == "o":                                                # the statements of manager.py 726-733
                    sync[synced].sync_hash = b"hNEW"
                    sync[synced].sync_path = translated_path
                    sync[changed].sync_hash = sync[changed].hash
                    sync[changed].sync_path = sync[changed].path
                    self_.update_entry(sync, synced, exists=True, oid="oidNEW%d" % synced, path=sync[synced].sync_path, hash=b"hNEW")
                    return FIN
                if a == "p":
                    return PUNT
                if a == "n":
                    super().handle_file_name_error(sync, synced, translated_path)      # 779-780
                    return FIN
                if a == "c":
                    raise ex.CloudCorruptError("scripted")
                if a == "y":
                    raise ex.CloudTooManyRetriesError("scripted")
                raise ex.CloudTemporaryError("scripted")

            def mkdir_synced(self_, changed, sync, translated_path):
                synced = 1 - changed
                rig.fx.append("mk" + "LR"[synced])
                a = rig.o["mkd"]
                if a == "o":                                                # the statements of manager.py 593-599
                    sync[synced].sync_path = translated_path
                    sync[changed].sync_path = sync[changed].path
                    self_.update_entry(sync, synced, exists=True, oid="oidNEW%d" % synced, path=translated_path)
                    return FIN
                if a == "p":
                    return PUNT
                if a == "x":
                    sync.mark_dirty(synced)                                 # 632-633: falls off the end
                    return None
                if a == "n":
                    super().handle_file_name_error(sync, synced, translated_path)      # 642-644
                    return FIN
                raise ex.CloudTemporaryError("scripted")

        self.state = RState(self.provs)
        self.mgr = RManager(self.state, self.provs, self.translate, lambda a, b: None, NM(), sleep=(0.01, 0.01))
        self.other = Other()
        self.xrig = None
        self.yrig = None
        self.zrig = None
        self.last_split = None

    def close(self):
        st = self.st
        if self.xrig is not None:
            self.xrig.close()
        if self.yrig is not None:
            self.yrig.close()
        if self.zrig is not None:
            self.zrig.close()
        st.SyncEntry.punt = self._old_punt
        st.SyncEntry.get_latest = self._old_get_latest
        st.time = self._old_time
        tempfile.tempdir = self._old_tempdir
        try:
            self.mgr.done()
        except Exception:  # noqa
            pass

    # -- scripted answers ---------------------------------------------------------------------------------------
    def translate(self, dest, path):
        """the application's translate(dest, <path on the other side>); the manager's lambda already maps a falsy path to None"""
        src = 1 - dest
        if path.startswith("/X/revived"):
            return "/Y/revived" if self.o["revTr" + "LR"[src]] == "T" else None
        a = self.o["trL" if dest == 0 else "trR"]
        root = self.roots[dest]
        d = self.ent[dest]
        if a == "n":
            return None
        if a == "p":
            return d.path if d.path is not None else root + "/m"
        if a == "s":
            return d.sync_path if d.sync_path is not None else root + "/k"
        if a == "a":
            return (d.sync_path if d.sync_path is not None else root + "/k") + "/"
        if a == "l":
            return root + "/a"
        return root + "/z"

    def prov_delete(self, side, oid):
        ex = self.ex
        if oid == "oidX":
            self.fx.append("do" + "LR"[side])
            if self.o["rcDelExists"] == "T":
                raise ex.CloudFileExistsError("scripted")
            return
        self.fx.append("del" + "LR"[side])
        a = self.o["del"]
        if a == "f":
            raise ex.CloudFileNotFoundError("scripted")
        if a == "e":
            raise ex.CloudFileExistsError("scripted")
        if a == "t":
            raise ex.CloudTemporaryError("scripted")

    def prov_rename(self, side, oid, path):
        if self.x is not None and hasattr(self.x, "rename"):
            return self.x.rename(side, oid, path)
        ex = self.ex
        self.fx.append("rn" + "LR"[side])
        a = self.o["ren"]
        if a == "o":
            return "oidREN%d" % side
        if a == "f":
            raise ex.CloudFileNotFoundError("scripted")
        if a == "n":
            raise ex.CloudFileNameError("scripted")
        if a == "e":
            raise ex.CloudFileExistsError("scripted")
        raise ex.CloudTemporaryError("scripted")

    def prov_listdir(self, side, oid):
        self.fx.append("ls" + "LR"[side])
        if self.o["remaining"] == "T":
            return [self.OInfo(otype=self.OT["f"], oid="oidKID", hash=b"hK", path=self.roots[side] + "/m/kid")]
        return []

    def prov_info_oid(self, side, oid):
        if self.x:
            return self.x.info_oid(side, oid)
        if not self.rev_active:
            return None
        a = self.o["revInfo" + "LR"[side]]
        if a == "n":
            return None
        return self.OInfo(otype=self.OT["f"], oid=oid, hash=b"h1", path=None if a == "x" else "/X/revived" + "LR"[side])

    # -- realisation / abstraction ------------------------------------------------------------------------------
    def realise(self, case):
        st = self.st
        state = self.state
        state.forget()
        state._last_changed_time = 0.0
        self.now = 1000.0
        self.roots = ("/Lconflicted", "/Rconflicted") if case["o"]["nameConfl"] == "T" else ("/L", "/R")
        ent = st.SyncEntry(state, self.OT[case["l"]["ot"]])
        times = (5.0, 6.0) if case["ord"] == "T" else (6.0, 5.0)
        for sd, key in ((0, "l"), (1, "r")):
            a = case[key]
            ss = ent[sd]
            root = self.roots[sd]
            ss._otype = self.OT[a["ot"]]
            ss._oid = ("oid%d" % sd) if a["oid"] == "T" else None
            p = a["p"]
            ss._path = root + "/m" if p in "ced" else None
            ss._sync_path = {"n": None, "c": None, "s": root + "/k", "e": root + "/m", "d": root + "/k"}[p]
            h = a["h"]
            ss._hash = b"h1" if h in "ced" else None
            ss._sync_hash = {"n": None, "c": None, "s": b"h0", "e": b"h1", "d": b"h0"}[h]
            ss._exists = self.EX[a["exs"][0]]
            ss._saved_exists = None if a["exs"][1] == "-" else self.EX[a["exs"][1]]
            ss._changed = times[sd] if a["ch"] == "T" else None
            ss._force_sync = a["fs"] == "T"
            if ss._oid is not None:
                state._oids[sd][ss._oid] = ent
                if ss._path is not None:
                    state._paths[sd].setdefault(ss._path, {})[ss._oid] = ent
        ent._priority = case["prio"] / 10.0
        ent._ignored = self.IGN[case["ign"]]
        if ent[0]._changed or ent[1]._changed:
            state._changeset_storage.add(ent)
        state._dirtyset.clear()
        self.ent = ent
        self.case = case
        self.o = case["o"]
        self.fx = []
        self.ctx = None
        self.rev_active = False
        self.fix_calls = 0
        self.other = self.Other()
        return ent

    def abstract(self, ent):
        def rel(cur, syn, match):
            if cur is None and syn is None:
                return "n"
            if syn is None:
                return "c"
            if cur is None:
                return "s"
            return "e" if match else "d"
        out = []
        for sd in (0, 1):
            ss = ent[sd]
            out.append(("T" if ss._oid is not None else "F")
                       + rel(ss._path, ss._sync_path, self.provs[sd].paths_match(ss._sync_path, ss._path, for_display=True))
                       + rel(ss._hash, ss._sync_hash, ss._hash == ss._sync_hash)
                       + self.EXR[ss._exists] + ("-" if ss._saved_exists is None else self.EXR[ss._saved_exists])
                       + self.OTR[ss._otype] + ("T" if ss._changed else "F") + ("T" if ss._force_sync else "F"))
        both = ent[0]._changed and ent[1]._changed
        order = "T" if (not both or ent[0]._changed <= ent[1]._changed) else "F"
        return "%s %s %s %s %d" % (out[0], out[1], order, self.IGNR[ent._ignored], int(round(ent._priority * 10)))

    # -- one case ---------------------------------------------------------------------------------------------------
    def run(self, case):
        if case["op"].startswith("x"):
            if self.xrig is None:
                self.xrig = XRig(self)
            return self.xrig.run(case)
        if case["op"].startswith("y"):
            if self.yrig is None:
                self.yrig = YRig(self)
            return self.yrig.run(case)
        if case["op"].startswith("z"):
            if self.zrig is None:
                self.zrig = ZRig(self)
            return self.zrig.run(case)
        mg, ex = self.mg, self.ex
        ent = self.realise(case)
        op = case["op"]
        c = 0 if case["side"] == "L" else 1
        s = 1 - c
        m = self.mgr
        if op == "preds":
            B = lambda v: "T" if v else "F"
            vals = [ent[0].needs_sync(), ent[1].needs_sync(), ent.is_creation(0), ent.is_creation(1), ent.is_deletion(0), ent.is_deletion(1),
                    ent.is_rename(0), ent.is_rename(1), ent.is_path_change(0), ent.is_path_change(1), ent.hash_conflict(),
                    ent[0].is_corrupt, ent[1].is_corrupt, ent[0].corrupt_gone, ent[1].corrupt_gone, m.path_conflict(ent)]
            return "".join(B(v) for v in vals)
        code = lambda r: ("N" if r is None else "?bool" if isinstance(r, bool) else
                          {mg.FINISHED: "F", mg.PUNT: "P", mg.REQUEUE: "R"}.get(r, "?%r" % (r,)))
        tf = lambda r: "T" if r is True else "F" if r is False else "?%r" % (r,)
        try:
            if op == "embrace":
                out = code(m.embrace_change(ent, c, s))
            elif op == "hpcc":
                out = code(m.handle_path_change_or_creation(ent, c, s))
            elif op == "hashdiff":
                out = code(m.handle_hash_diff(ent, c, s))
            elif op == "deleteD":
                out = code(m.delete_synced(ent, c, s))
            elif op == "deleteI":
                out = code(m.delete_synced(ent, c, s, self.IGN["i"]))
            elif op == "rename":
                out = code(m.handle_rename(ent, c, s, m.translate(s, ent[c].path)))
            elif op == "corrupt":
                out = code(m.handle_corrupt(c, ent))
            elif op == "missing":
                out = code(m.handle_changed_is_missing(ent, c, s))
            elif op == "sync":
                out = tf(m.sync(ent))
            elif op == "presync":
                out = tf(m.pre_sync(ent))
            elif op == "syncone":
                try:
                    out = tf(m._sync_one_entry(ent))
                except _Backoff:
                    out = "B"
            elif op == "split":
                self.state.split(ent)
                out = "ok"
                self.fx = []
            elif op == "finished":
                m.finished(c, ent)
                out = "ok"
                self.fx = []
            else:
                raise HarnessError("unknown op %s" % op)
        except AssertionError:
            out = "!assertion"
        except TypeError:
            out = "!typeError"
        except ex.CloudTemporaryError:
            out = "!temp"
        except ex.CloudTooManyRetriesError:
            out = "!tooMany"
        except ex.CloudCorruptError:
            out = "!corrupt"
        except HarnessError:
            raise
        except Exception as e:  # noqa
            out = "!other:" + type(e).__name__
        if op in ("split",) and out != "ok":
            self.fx = []
        return "%s | %s | %s" % (out, ",".join(self.fx) if self.fx else "-", self.abstract(ent))


# ---------------------------------------------------------------------------------------------------------------
# part 2: the TRANSFER LEAVES with a real temp directory (Model/EngineXfer.lean, ops `x…` of the driver layer)
#
# A case: the changed side (L/R), a temp-directory state (does the manager's tempdir exist / does the directory of an earlier run
# exist, files by NAME CLASS — keyed k<p>_<h> = md5(path p + msgpack(hash h)), random r<n> — final or ".tmp", each with a content
# tag), the two sides with tagged values (path/hash/sync_hash/sync_path tags, temp_file as directory + name class), ignore reason,
# priority, and the provider answers.  Realised with REAL files in two real directories, a REAL SyncEntry, the REAL
# make_temp_file / download_changed / upload_synced / create_synced / mkdir_synced / clean_temps / handle_hash_diff /
# handle_path_change_or_creation of a SyncManager subclass that overrides only cross-entry helpers, and a scripted provider.

def enc_opt(v):
    return "~" if v is None else str(v)


def enc_name(n):
    return "k%d_%d" % (n[1], n[2]) if n[0] == "k" else "r%d" % n[1]


def enc_loc(l):
    return l[0] + enc_name(l[1])


def enc_fs(fs):
    files = sorted("%s%s=%d" % (enc_loc((d, n)), "+" if part else ".", tag) for (d, n, part, tag) in fs["files"])
    return "%s%s:%d:%s" % ("T" if fs["cur"] else "F", "T" if fs["old"] else "F", fs["next"], ",".join(files) if files else "-")


def enc_xside(x):
    return "/".join([x["ot"], "T" if x["oid"] else "F", enc_opt(x["path"]), enc_opt(x["hash"]), enc_opt(x["sh"]), enc_opt(x["sp"]),
                     x["ex"], x["saved"], "T" if x["ch"] else "F", "~" if x["temp"] is None else enc_loc(x["temp"])])


def enc_xoracle(o):
    ap = o["atPath"]
    return "/".join([o["dl"] + o["up"] + o["cr"] + o["mk"], enc_opt(o["newHash"]), enc_opt(o["infoPath"]), "T" if o["infoAfterFnf"] else "F",
                     "T" if o["splitRet"] else "F", "~" if ap is None else ("n" if ap == "n" else str(ap)), enc_opt(o["ourHashThere"]),
                     str(o["tp"]), "".join("T" if o[k] else "F" for k in ("dupDirChanged", "liveOther", "dupDirSynced", "fileConflict", "alreadyDir"))])


def enc_xcase(c):
    base = "%s %s %s %s %s %d %s" % (c["op"], enc_fs(c["fs"]), enc_xside(c["c"]), enc_xside(c["s"]), c["ign"], c["prio"], enc_xoracle(c["o"]))
    if c["op"] == "xretry":
        base += " %d %s" % (c["h2"], enc_xoracle(c["o2"]))
    return base


X_TAGS = (1, 2, 3)


class XRig:
    """real files + the real transfer methods; shares state / providers / patches with a Rig"""

    def __init__(self, rig):
        import hashlib
        import msgpack
        self.rig = rig
        self.hashlib, self.msgpack = hashlib, msgpack
        st, mg, ex = rig.st, rig.mg, rig.ex
        self.base = tempfile.mkdtemp(prefix="x_", dir=Rig._tmp)
        self.n = 0
        self.o = None
        self.mk_lookup_pending = False
        self.fake_split = True
        x = self
        FILE, DIRECTORY = rig.OT["f"], rig.OT["d"]

        class XOther:
            class S:
                def __init__(self):
                    self.otype = FILE
                    self.exists = st.EXISTS
                    self.oid = "oidXO"

            def __init__(self, dir_changed, dir_synced, live, c):
                self.sides = [XOther.S(), XOther.S()]
                self.sides[c].otype = DIRECTORY if dir_changed else FILE
                self.sides[1 - c].otype = DIRECTORY if dir_synced else FILE
                if not live:
                    self.sides[1 - c].exists = st.TRASHED

            def __getitem__(self, i):
                return self.sides[i]

            def ignore(self, reason, previous_reasons=None):
                rig.fx.append("disc")
                self.discarded = True
        self.XOther = XOther
        IgnoreReason = type(rig.IGN["n"])

        class XManager(mg.SyncManager):
            """the REAL transfer leaves; only cross-entry helpers are scripted"""
            def mkdir_synced(self_, changed, sync, translated_path):
                old, rig.ctx = rig.ctx, "mkdir"
                try:
                    return super().mkdir_synced(changed, sync, translated_path)
                finally:
                    rig.ctx = old

            def handle_split_conflict(self_, defer_ent, defer_side, replace_ent, replace_side):
                rig.fx.append("hsc")
                return x.o["splitRet"]

            def resolve_conflict(self_, side_states):
                rig.fx.append("resolve")

            def get_folder_file_conflict(self_, sync, translated_path, synced):
                return x.other if x.o["fileConflict"] else None

            def rename_to_fix_conflict(self_, sync, side, path, temp_rename=False):
                rig.fx.append("cf")
                return True

            def handle_file_name_error(self_, sync, synced, translated_path):
                rig.fx.append("ne")
                return super().handle_file_name_error(sync, synced, translated_path)

            def handle_cloud_file_not_found_error(self_, changed, sync, synced):
                rig.fx.append("fnf")
                old, rig.ctx, rig.synced = rig.ctx, "rename", synced
                try:
                    return super().handle_cloud_file_not_found_error(changed, sync, synced)
                finally:
                    rig.ctx = old

            def check_disjoint_create(self_, sync, changed, synced, translated_path):
                return False

            def check_rename_is_delete_create(self_, sync, changed):
                return None

        class NM:
            def notify(self_, n):
                pass

            def notify_from_exception(self_, source, e, path=None):
                pass
        self.mgr = XManager(rig.state, rig.provs, self.translate, lambda a, b: None, NM(), sleep=(0.01, 0.01))
        self._own_tempdir = self.mgr.tempdir

    def close(self):
        self.mgr.tempdir = self._own_tempdir
        try:
            self.mgr.done()
        except Exception:  # noqa
            pass
        shutil.rmtree(self.base, ignore_errors=True)

    # -- values <-> tags ---------------------------------------------------------------------------------------------
    def pstr(self, side, tag):
        return None if tag is None else "/%s/p%d" % ("LR"[side], tag)

    @staticmethod
    def hbytes(tag):
        return None if tag is None else b"h%d" % tag

    @staticmethod
    def tag_of(v):
        if v is None:
            return None
        if isinstance(v, bytes):
            v = v.decode()
        import re
        m = re.search(r"(\d+)/?$", v)
        return int(m.group(1)) if m else -1

    def fname(self, name):
        if name[0] == "k":
            return self.hashlib.md5(bytes(self.pstr(self.c, name[1]), "utf8") + self.msgpack.dumps(self.hbytes(name[2]))).digest().hex()
        return "rnd%029x" % name[1]

    def lpath(self, loc):
        return os.path.join(self.dirs[loc[0]], self.fname(loc[1]))

    def translate(self, dest, path):
        return self.pstr(dest, self.o["tp"])

    # -- scripted provider ---------------------------------------------------------------------------------------------
    @staticmethod
    def ctag(data):
        return int(data[1:]) if data.startswith(b"T") else (0 if data == b"" else -1)

    def oinfo(self, side, oid, use_path=True):
        o = self.o
        return self.rig.OInfo(otype=self.rig.OT["f"], oid=oid, hash=self.hbytes(o["newHash"]),
                              path=self.pstr(side, o["infoPath"]) if use_path else None)

    def _raise(self, a, table):
        ex = self.rig.ex
        kind = table.get(a)
        if kind == "fnf":
            raise FileNotFoundError("scripted")
        if kind == "perm":
            raise PermissionError("scripted")
        if kind == "cloudFnf":
            raise ex.CloudFileNotFoundError("scripted")
        if kind == "exists":
            raise ex.CloudFileExistsError("scripted")
        if kind == "nameErr":
            raise ex.CloudFileNameError("scripted")
        if kind == "corrupt":
            raise ex.CloudCorruptError("scripted")
        if kind == "temp":
            raise ex.CloudTemporaryError("scripted")

    def download(self, side, oid, f):
        self.rig.fx.append("dl")
        self._raise(self.o["dl"], {"f": "fnf", "p": "perm", "c": "cloudFnf", "x": "corrupt", "t": "temp"})
        h = self.rig.ent[side].hash
        t = self.tag_of(h)
        f.write(b"T%d" % t if t else b"")

    def upload(self, side, oid, f):
        self.rig.fx.append("sent%d" % self.ctag(f.read()))
        self._raise(self.o["up"], {"f": "fnf", "c": "cloudFnf", "e": "exists", "n": "nameErr", "x": "corrupt", "t": "temp"})
        return self.oinfo(side, oid)

    def create(self, side, path, f):
        self.rig.fx.append("created%d" % self.ctag(f.read()))
        self._raise(self.o["cr"], {"e": "exists", "c": "cloudFnf", "n": "nameErr", "x": "corrupt", "t": "temp"})
        return self.oinfo(side, "oidNEW%d" % side)

    def hash_data(self, side, f):
        self.rig.fx.append("hd%d" % self.ctag(f.read()))
        return self.hbytes(self.o["ourHashThere"])

    def info_path(self, side, path):
        if side != 1 - self.c:
            return None                                   # the parent look-up of handle_cloud_file_not_found_error
        self.rig.fx.append("ip")
        ap = self.o["atPath"]
        if ap is None:
            return None
        return self.rig.OInfo(otype=self.rig.OT["f"], oid="oidAT", hash=None if ap == "n" else self.hbytes(ap), path=path)

    def info_oid(self, side, oid):
        self.rig.fx.append("io")
        return self.rig.OInfo(otype=self.rig.OT["f"], oid=oid, hash=None, path=None) if self.o["infoAfterFnf"] else None

    def mkdirs(self, side, path):
        self.rig.fx.append("mkdirs")
        self._raise(self.o["mk"], {"e": "exists", "c": "cloudFnf", "n": "nameErr", "t": "temp"})
        self.mk_lookup_pending = True
        return "oidMK"

    # -- realisation -----------------------------------------------------------------------------------------------------
    def realise(self, case):
        rig = self.rig
        st = rig.st
        state = rig.state
        state.forget()
        state._last_changed_time = 0.0
        rig.now = 1000.0
        self.c = c = 0 if case["side"] == "L" else 1
        self.dirs = {"c": os.path.join(self.base, "cur"), "o": os.path.join(self.base, "old")}
        fs = case["fs"]
        for k, present in (("c", fs["cur"]), ("o", fs["old"])):
            dk = self.dirs[k]
            if os.path.isdir(dk):
                if present:
                    for fn in os.listdir(dk):
                        os.unlink(os.path.join(dk, fn))
                else:
                    shutil.rmtree(dk)
            elif present:
                os.mkdir(dk)
        for (dk, name, part, tag) in fs["files"]:
            if os.path.isdir(self.dirs[dk]):
                with open(os.path.join(self.dirs[dk], self.fname(name)) + (".tmp" if part else ""), "wb") as f:
                    f.write(b"T%d" % tag if tag else b"")
        self.known = {}
        for pt in (0,) + X_TAGS:
            for ht in (0,) + X_TAGS:
                if pt and ht:
                    self.known[self.fname(("k", pt, ht))] = "k%d_%d" % (pt, ht)
        for i in range(fs["next"]):
            self.known[self.fname(("r", i))] = "r%d" % i
        self.next0 = fs["next"]
        self.fresh = 0
        self.mgr.tempdir = self.dirs["c"]
        ent = st.SyncEntry(state, rig.OT[case["c"]["ot"]])
        for sd, key in ((c, "c"), (1 - c, "s")):
            a = case[key]
            ss = ent[sd]
            ss._otype = rig.OT[a["ot"]]
            ss._oid = ("oid%d" % sd) if a["oid"] else None
            ss._path = self.pstr(sd, a["path"])
            ss._sync_path = self.pstr(sd, a["sp"])
            ss._hash = self.hbytes(a["hash"])
            ss._sync_hash = self.hbytes(a["sh"])
            ss._exists = rig.EX[a["ex"]]
            ss._saved_exists = None if a["saved"] == "-" else rig.EX[a["saved"]]
            ss._changed = 5.0 if a["ch"] else None
            ss._temp_file = None if a["temp"] is None else self.lpath(a["temp"])
            if ss._oid is not None:
                state._oids[sd][ss._oid] = ent
                if ss._path is not None:
                    state._paths[sd].setdefault(ss._path, {})[ss._oid] = ent
        ent._priority = case["prio"] / 10.0
        ent._ignored = rig.IGN[case["ign"]]
        if ent[0]._changed or ent[1]._changed:
            state._changeset_storage.add(ent)
        state._dirtyset.clear()
        rig.ent = ent
        rig.fx = []
        rig.ctx = None
        self.set_oracle(case["o"])
        return ent

    def set_oracle(self, o):
        self.o = {k: v for k, v in o.items()}
        self.o["mk"] = o["mk"]
        self.other = self.XOther(o["dupDirChanged"], o["dupDirSynced"], o["liveOther"], self.c)
        self.other2 = self.XOther(False, True, True, self.c)
        self.mk_lookup_pending = False

    # -- abstraction -----------------------------------------------------------------------------------------------------
    def name_class(self, fn):
        if fn not in self.known:
            self.known[fn] = "r%d" % (self.next0 + self.fresh)
            self.fresh += 1
        return self.known[fn]

    def abs_loc(self, path):
        if path is None:
            return "~"
        d, fn = os.path.split(path)
        dk = "c" if d == self.dirs["c"] else "o" if d == self.dirs["o"] else "?"
        return dk + self.name_class(fn)

    def abstract(self, ent):
        rig = self.rig
        sides = []
        for sd in (self.c, 1 - self.c):
            ss = ent[sd]
            sides.append("/".join([rig.OTR[ss._otype], "T" if ss._oid is not None else "F", enc_opt(self.tag_of(ss._path)), enc_opt(self.tag_of(ss._hash)),
                                   enc_opt(self.tag_of(ss._sync_hash)), enc_opt(self.tag_of(ss._sync_path)), rig.EXR[ss._exists],
                                   "-" if ss._saved_exists is None else rig.EXR[ss._saved_exists], "T" if ss._changed else "F",
                                   self.abs_loc(ss._temp_file)]))
        files = []
        for dk in ("c", "o"):
            if os.path.isdir(self.dirs[dk]):
                for fn in sorted(os.listdir(self.dirs[dk])):
                    part = fn.endswith(".tmp")
                    base = fn[:-4] if part else fn
                    with open(os.path.join(self.dirs[dk], fn), "rb") as f:
                        tag = self.ctag(f.read())
                    files.append("%s%s%s=%d" % (dk, self.name_class(base), "+" if part else ".", tag))
        fs = "%s%s:%d:%s" % ("T" if os.path.isdir(self.dirs["c"]) else "F", "T" if os.path.isdir(self.dirs["o"]) else "F",
                             self.next0 + self.fresh, ",".join(sorted(files)) if files else "-")
        return "%s | %s | %s | %s %d" % (fs, sides[0], sides[1], rig.IGNR[ent._ignored], int(round(ent._priority * 10)))

    # -- one case -------------------------------------------------------------------------------------------------------------
    def call(self, op, ent):
        mg = self.rig.mg
        m = self.mgr
        c = self.c
        tp = self.pstr(1 - c, self.o["tp"])
        code = lambda r: ("N" if r is None else "?bool" if isinstance(r, bool) else {mg.FINISHED: "F", mg.PUNT: "P", mg.REQUEUE: "R"}.get(r, "?%r" % (r,)))
        tf = lambda r: "T" if r is True else "F" if r is False else "?%r" % (r,)
        if op == "xmktemp":
            m.make_temp_file(ent[c])
            return "ok"
        if op == "xdl":
            return tf(m.download_changed(c, ent))
        if op == "xup":
            return tf(m.upload_synced(c, ent))
        if op == "xcr":
            return code(m.create_synced(c, ent, tp))
        if op == "xmk":
            return code(m.mkdir_synced(c, ent, tp))
        if op == "xclean":
            m.clean_temps(ent)
            return "ok"
        if op in ("xtup", "xretry"):
            return code(m.handle_hash_diff(ent, c, 1 - c))
        if op == "xtcr":
            return code(m.handle_path_change_or_creation(ent, c, 1 - c))
        raise HarnessError("unknown op %s" % op)

    def guarded(self, op, ent):
        ex = self.rig.ex
        try:
            return self.call(op, ent)
        except AssertionError:
            return "!assertion"
        except TypeError:
            return "!typeError"
        except ex.CloudTemporaryError:
            return "!temp"
        except ex.CloudTooManyRetriesError:
            return "!tooMany"
        except ex.CloudCorruptError:
            return "!corrupt"
        except FileNotFoundError:
            return "!fileNotFound"
        except NotImplementedError:
            return "!notImpl"
        except HarnessError:
            raise
        except Exception as e:  # noqa
            return "!other:" + type(e).__name__

    def run(self, case):
        rig = self.rig
        rig.x = self
        try:
            ent = self.realise(case)
            out = self.guarded(case["op"], ent)
            line = "%s | %s | %s" % (out, ",".join(rig.fx) if rig.fx else "-", self.abstract(ent))
            if case["op"] == "xretry":
                # the user edits the file again: an event assigns the new hash (state.py 1013-1014) and stamps the side
                ent[self.c].hash = self.hbytes(case["h2"])
                ent[self.c]._changed = 7.0
                rig.fx = []
                self.set_oracle(case["o2"])
                out2 = self.guarded("xretry", ent)
                line += " || %s | %s | %s" % (out2, ",".join(rig.fx) if rig.fx else "-", self.abstract(ent))
            return line
        finally:
            rig.x = None
            rig.ctx = None


# ---------------------------------------------------------------------------------------------------------------
# part 3: conflict path, conflict names, the parent part of the file-not-found handler, disjoint creates, folder/file conflicts
# (Model/EngineMore.lean, Model/EngineConflict.lean; ops `y…`).  Other entries of the state table are REAL SyncEntry objects
# registered in the real indexes; providers are scripted.

def enc_ycase(c):
    op = c["op"]
    B = lambda b: "T" if b else "F"
    if op == "ycr":
        return " ".join(["ycr", B(True), enc_str(c["path"]), B(c["present"])] + [enc_str(t) for t in c["taken"]])
    if op == "yfix":
        return "yfix %s %s %s %s" % (c["kind"], B(c["mine"]), B(c["other"]), B(c["temp"]))
    if op == "yrr":
        return "yrr %s %s" % (c["kind"], enc_side(c["s"]))
    ent = lambda e: "%s %s %s %s %d" % (enc_side(e["l"]), enc_side(e["r"]), e["ord"], e["ign"], e["prio"])
    if op == "yfnf":
        par = "-" if c["parent"] is None else ent(c["parent"]).replace(" ", ",")
        return "yfnf %s %s %s %s %s" % (c["side"], ent(c["e"]), par, B(c["parentThere"]), B(c["parentSynced"]))
    if op == "ydj":
        return " ".join(["ydj", c["cot"], c["sot"], B(c["info"])] + [p["ex"] + B(p["match"]) + B(p["hs"]) + B(p["ch"]) + p["ot"] for p in c["peers"]])
    if op == "yff":
        return " ".join(["yff"] + [p["ex"] + p["ot"] + B(p["info"]) for p in c["peers"]])
    if op == "ymk":
        return " ".join(["ymk", str(c["prio"])] + [o["cot"] + o["sot"] + o["cex"] + o["sex"] for o in c["others"]])
    if op == "yhc":
        return "yhc %s %s%s%s%s" % (ent(c["e"]), c["dl"], B(c["tempGone"]), B(c["sameHash"]), c["rc"])
    raise HarnessError("unknown y op " + op)


class YRig:
    fake_split = False

    def __init__(self, rig):
        self.rig = rig
        self.record_update = False
        self.base = tempfile.mkdtemp(prefix="y_", dir=Rig._tmp)
        self.case = None
        rig_ = rig
        self._old_ignore = rig.st.SyncEntry.ignore
        y = self

        def ignore(self_, reason, previous_reasons=(rig_.IGN["n"],)):
            if rig_.x is y and self_ in y.index_of:
                rig_.fx.append("ign%d" % y.index_of[self_])
            return y._old_ignore(self_, reason, previous_reasons)
        rig.st.SyncEntry.ignore = ignore
        self.index_of = {}

    def close(self):
        self.rig.st.SyncEntry.ignore = self._old_ignore
        shutil.rmtree(self.base, ignore_errors=True)

    # -- building real entries ---------------------------------------------------------------------------------------------
    def build(self, a, paths, syncpaths, oids, register=True):
        """a real SyncEntry for the abstract entry `a` with the given current/sync path strings and ids per side"""
        rig = self.rig
        st = rig.st
        state = rig.state
        ent = st.SyncEntry(state, rig.OT[a["l"]["ot"]])
        times = (5.0, 6.0) if a["ord"] == "T" else (6.0, 5.0)
        for sd, key in ((0, "l"), (1, "r")):
            x = a[key]
            ss = ent[sd]
            ss._otype = rig.OT[x["ot"]]
            ss._oid = oids[sd] if x["oid"] == "T" else None
            p = x["p"]
            ss._path = paths[sd] if p in "ced" else None
            ss._sync_path = {"n": None, "c": None, "s": syncpaths[sd], "e": paths[sd], "d": syncpaths[sd]}[p]
            h = x["h"]
            h1, h0 = (b"h1L", b"h0L") if sd == 0 else (b"h1R", b"h0R")      # the two providers have their own hash functions
            ss._hash = h1 if h in "ced" else None
            ss._sync_hash = {"n": None, "c": None, "s": h0, "e": h1, "d": h0}[h]
            ss._exists = rig.EX[x["exs"][0]]
            ss._saved_exists = None if x["exs"][1] == "-" else rig.EX[x["exs"][1]]
            ss._changed = times[sd] if x["ch"] == "T" else None
            ss._force_sync = x["fs"] == "T"
            if register and ss._oid is not None:
                state._oids[sd][ss._oid] = ent
                if ss._path is not None:
                    state._paths[sd].setdefault(ss._path, {})[ss._oid] = ent
        ent._priority = a["prio"] / 10.0
        ent._ignored = rig.IGN[a["ign"]]
        if ent[0]._changed or ent[1]._changed:
            state._changeset_storage.add(ent)
        return ent

    def reset(self):
        rig = self.rig
        rig.state.forget()
        rig.state._last_changed_time = 0.0
        rig.now = 1000.0
        rig.roots = ("/L", "/R")
        rig.fx = []
        rig.ctx = None
        rig.o = dict(QUIET)
        rig.last_split = None
        self.index_of = {}
        self.record_update = False

    # -- scripted provider (rig.x = self) ------------------------------------------------------------------------------------
    def info_path(self, side, path):
        c = self.case
        op = c["op"]
        if op == "ycr":
            return self.rig.OInfo(otype=self.rig.OT["f"], oid="oidC", hash=b"h1", path=path) if c["present"] else None
        if op == "yfnf":
            self.rig.fx.append("ipar")
            return self.rig.OInfo(otype=self.rig.OT["d"], oid="oidPARENT", hash=None, path=path) if c["parentThere"] else None
        if op == "ydj":
            self.rig.fx.append("ip")
            if not c["info"]:
                return None
            m = [i for i, p in enumerate(c["peers"]) if p["match"]]
            return self.rig.OInfo(otype=self.rig.OT["f"], oid=("oidP%d" % m[0]) if m else "oidNONE", hash=b"h1", path=path)
        return None

    def info_oid(self, side, oid):
        c = self.case
        if c["op"] == "yfnf":
            self.rig.fx.append("ioid")
            return self.rig.OInfo(otype=self.rig.OT["d"], oid=oid, hash=None, path=("/L", "/R")[side] if c["parentSynced"] else "/Xx")
        if c["op"] == "yff":
            i = int(oid[4:])
            return self.rig.OInfo(otype=self.rig.OT["f"], oid=oid, hash=b"h1", path="/R/m") if c["peers"][i]["info"] else None
        return None

    def rename(self, side, oid, path):
        c = self.case
        self.tries += 1
        base = path.rsplit("/", 1)[-1]
        if base in c["taken"]:
            raise self.rig.ex.CloudFileExistsError("scripted")
        return "oidRENAMED"

    def mkdirs(self, side, path):
        self.rig.fx.append("mkdirs")
        raise self.rig.ex.CloudTemporaryError("scripted")

    def hash_data(self, side, f):
        self.rig.fx.append("hd")
        rep = self.rig.last_split[2]
        return rep[0].hash if self.case["sameHash"] else b"zz"

    # -- ops ---------------------------------------------------------------------------------------------------------------
    def run(self, case):
        rig = self.rig
        rig.x = self
        self.case = case
        try:
            self.reset()
            return getattr(self, "op_" + case["op"])(case)
        finally:
            rig.x = None
            rig.ctx = None
            for name in ("conflict_rename", "handle_split_conflict", "resolve_conflict", "unsafe_mkdir_synced"):
                rig.mgr.__dict__.pop(name, None)

    def op_ycr(self, c):
        self.tries = 0
        try:
            r = self.rig.mg.SyncManager.conflict_rename(self.rig.mgr, 0, c["path"])
        except ValueError:
            return "valueError"
        if r == (None, None, None):
            return "absent"
        return "renamed %s %d" % (enc_str(r[2]), self.tries)

    def _stub_conflict_rename(self, kind, old_oid):
        def stub(side, path):
            if kind == "r":
                return old_oid, "oidNEWNAME", (path or "/L/none") + ".conflicted"
            if kind == "a":
                return None, None, None
            raise ValueError("bad path")
        self.rig.mgr.conflict_rename = stub

    def op_yfix(self, c):
        rig = self.rig
        a = {"l": dict(_S(W_SYNCED)), "r": dict(_S(W_SYNCED)), "ord": "T", "ign": "n", "prio": 0}
        ent = self.build(a, ("/L/m", "/R/m"), ("/L/k", "/R/k"), ("oidMINE", "oidR"))
        other = self.build(a, ("/L/q", "/R/q"), ("/L/k", "/R/k"), ("oidOTHER", "oidR2"), register=c["other"])
        old = "oidMINE" if c["mine"] else "oidOTHER"
        self._stub_conflict_rename(c["kind"], old)
        try:
            r = rig.mg.SyncManager.rename_to_fix_conflict(rig.mgr, ent, 0, "/L/m", temp_rename=c["temp"])
        except ValueError:
            r = False                                   # the model folds the ValueError of conflict_rename into "no rename" (never raised by callers' paths)
            return "F nothing"
        tgt = "nothing"
        for name, e in (("this", ent), ("other", other)):
            if e[0].oid == "oidNEWNAME":
                tgt = name + ("T" if e.ignored == rig.IGN["t"] else "F")
        return "%s %s" % ("T" if r else "F", tgt)

    def op_yrr(self, c):
        rig = self.rig
        a = {"l": c["s"], "r": dict(_S(W_BLANK)), "ord": "T", "ign": "n", "prio": 0}
        ent = self.build(a, ("/L/m", "/R/m"), ("/L/k", "/R/k"), ("oidMINE", "oidR"))
        self._stub_conflict_rename(c["kind"], "oidMINE")
        try:
            r = rig.mg.SyncManager._resolve_rename(rig.mgr, ent[0])
        except ValueError:
            return "F " + rig.abstract(ent).split()[0]
        return "%s %s" % ("T" if r else "F", rig.abstract(ent).split()[0])

    def op_yfnf(self, c):
        rig = self.rig
        mg, ex = rig.mg, rig.ex
        ch = 0 if c["side"] == "L" else 1
        ent = self.build(c["e"], ("/L/m", "/R/m"), ("/L/k", "/R/k"), ("oid0", "oid1"))
        ent[ch]._path = ("/L/m", "/R/m")[ch]            # the handler takes dirname(sync[changed].path)
        parent = None
        if c["parent"] is not None:
            parent = self.build(c["parent"], ("/L", "/R"), ("/Lold", "/Rold"), ("oidPL", "oidPR"))
        rig.ent = ent
        self.record_update = True
        old_tr = rig.mgr.translate
        rig.mgr.translate = lambda side, path: ("/L", "/R")[side] if path else None
        try:
            try:
                r = mg.SyncManager.handle_cloud_file_not_found_error(rig.mgr, ch, ent, 1 - ch)
                out = {mg.FINISHED: "F", mg.PUNT: "P", mg.REQUEUE: "R"}.get(r, "?%r" % (r,))
            except ex.CloudTooManyRetriesError:
                out = "!tooMany"
            except AssertionError:
                out = "!assertion"
        finally:
            rig.mgr.translate = old_tr
        return "%s | %s | %s" % (out, ",".join(rig.fx) if rig.fx else "-", "-" if parent is None else rig.abstract(parent))

    def _peer_entry(self, i, ex_, ot, hs=True, ch=False, path="/R/m"):
        a = {"l": dict(_S(W_BLANK)), "r": dict(_S(W_SYNCED)), "ord": "T", "ign": "n", "prio": 0}
        a["r"].update({"exs": ex_ + "-", "ot": ot, "h": "e" if hs else "d", "ch": "T" if ch else "F"})
        e = self.build(a, ("/L/x%d" % i, path), ("/L/k", path), ("oidQ%d" % i, "oidP%d" % i))
        self.index_of[e] = i
        return e

    def op_ydj(self, c):
        rig = self.rig
        a = {"l": dict(_S(W_NEW_FILE)), "r": dict(_S(W_BLANK)), "ord": "T", "ign": "n", "prio": 0}
        a["l"]["ot"] = c["cot"]
        a["r"]["ot"] = c["sot"]
        ent = self.build(a, ("/L/m", "/R/m"), ("/L/k", "/R/k"), ("oid0", "oid1"))
        peers = [self._peer_entry(i, p["ex"], p["ot"], p["hs"], p["ch"]) for i, p in enumerate(c["peers"])]
        rig.mgr.handle_split_conflict = lambda de, ds, re_, rs: rig.fx.append("hsc%d" % self.index_of[de]) or True
        r = rig.mg.SyncManager.check_disjoint_create(rig.mgr, ent, 0, 1, "/R/m")
        fx = [("disc" + f[3:]) if f.startswith("ign") else f for f in rig.fx]
        for i, pe in enumerate(peers):
            if pe[1].oid is None and ent[1].oid == "oidP%d" % i:
                fx.append("merge%d" % i)
        # the model lists a merge where it happens (before a later split-conflict): with at most one matching peer there is no later one
        return "%s | %s" % ("T" if r else "F", ",".join(fx) if fx else "-")

    def op_yff(self, c):
        rig = self.rig
        a = {"l": dict(_S(W_NEW_DIR)), "r": dict(_S(W_BLANK)), "ord": "T", "ign": "n", "prio": 0}
        ent = self.build(a, ("/L/m", "/R/m"), ("/L/k", "/R/k"), ("oid0", "oid1"))
        peers = [self._peer_entry(i, p["ex"], p["ot"]) for i, p in enumerate(c["peers"])]
        r = rig.mg.SyncManager.get_folder_file_conflict(rig.mgr, ent, "/R/m", 1)
        gone = [str(i) for i, (pe, p) in enumerate(zip(peers, c["peers"])) if pe[1].exists == rig.st.MISSING and p["ex"] != "m"]
        return "%s | %s" % ("~" if r is None else str(self.index_of[r]), ",".join(gone) if gone else "-")

    def op_ymk(self, c):
        rig = self.rig
        mg, ex = rig.mg, rig.ex
        a = {"l": dict(_S(W_NEW_DIR)), "r": dict(_S(W_BLANK)), "ord": "T", "ign": "n", "prio": c["prio"]}
        ent = self.build(a, ("/L/m", "/R/m"), ("/L/k", "/R/k"), ("oid0", "oid1"))
        for i, o in enumerate(c["others"]):
            b = {"l": dict(_S(W_SYNCED)), "r": dict(_S(W_SYNCED)), "ord": "T", "ign": "n", "prio": 0}
            b["l"].update({"ot": o["cot"], "exs": o["cex"] + "-"})
            b["r"].update({"ot": o["sot"], "exs": o["sex"] + "-"})
            e = self.build(b, ("/L/m", "/R/other%d" % i), ("/L/k", "/R/k"), ("oidA%d" % i, "oidB%d" % i))
            self.index_of[e] = i
        rig.mgr.unsafe_mkdir_synced = lambda *aa: (rig.fx.append("unsafe"), mg.SyncManager.unsafe_mkdir_synced(rig.mgr, *aa))[1]
        try:
            r = mg.SyncManager.mkdir_synced(rig.mgr, 0, ent, "/R/m")
            head = "punt" if r == mg.PUNT else "?%r" % (r,)
        except ex.CloudTemporaryError:
            head = "proceed" + ("T" if any(f.startswith("cf") for f in rig.fx) else "F")
        d1, d2, inside = [], [], False
        for f in rig.fx:
            if f == "unsafe":
                inside = True
            elif f.startswith("ign"):
                (d2 if inside else d1).append(f[3:])
        return "%s | %s | %s" % (",".join(d1) if d1 else "-", head, ",".join(d2) if d2 else "-")

    def op_yhc(self, c):
        rig = self.rig
        mg, ex = rig.mg, rig.ex
        ent = self.build(c["e"], ("/L/m", "/R/m"), ("/L/k", "/R/k"), ("oid0", "oid1"))
        rig.ent = ent
        rig.o["dl"] = {"o": "o", "f": "f", "m": "m", "t": "t", "x": "c"}[c["dl"]]
        tf = os.path.join(self.base, "conflict.tmp")
        if c["tempGone"]:
            if os.path.exists(tf):
                os.unlink(tf)
        else:
            with open(tf, "wb") as f:
                f.write(b"x")
        ent[1]._temp_file = tf

        def resolve(side_states):
            rig.fx.append("resolve")
            if c["rc"] == "t":
                raise ex.CloudTemporaryError("scripted")
            if c["rc"] == "c":
                raise ex.CloudFileNotFoundError("scripted")
        rig.mgr.resolve_conflict = resolve
        try:
            r = mg.SyncManager.handle_hash_conflict(rig.mgr, ent)
            out = "T" if r is True else "F" if r is False else "?%r" % (r,)
        except AssertionError:
            out = "!assertion"
        except ex.CloudTemporaryError:
            out = "!temp"
        except ex.CloudException:
            out = "!corrupt"
        fx = ["dl" if f in ("dlL", "dlR") else f for f in rig.fx]
        rep = rig.last_split[2] if rig.last_split else ent
        return "%s | %s | %s | %s" % (out, ",".join(fx) if fx else "-", rig.abstract(ent), rig.abstract(rep))


# -- x-case generation ---------------------------------------------------------------------------------------------------------

def x_rand_side(rng, **kw):
    exs = rng.choice(W_SIDE["exs"])
    x = {"ot": rng.choice("fffd"), "oid": rng.random() < 0.85, "path": rng.choice((1, 1, 2, None)), "hash": rng.choice((1, 2, 3, None)),
         "sh": rng.choice((1, 2, None)), "sp": rng.choice((1, 2, None)), "ex": exs[0], "saved": exs[1], "ch": rng.random() < 0.7, "temp": None}
    x.update(kw)
    return x


def x_rand_oracle(rng, **kw):
    o = {"dl": rng.choice("ooofpcxt"), "up": rng.choice("ooofcenxt"), "cr": rng.choice("oooeecnxt"), "mk": rng.choice("oooecnt"),
         "newHash": rng.choice((1, 2, 3, 3, None)), "infoPath": rng.choice((1, 2, None)), "infoAfterFnf": rng.random() < 0.5,
         "splitRet": rng.random() < 0.5, "atPath": rng.choice((None, "n", 1, 2, 3)), "ourHashThere": rng.choice((1, 2, 3, None)),
         "tp": rng.choice((1, 2)), "dupDirChanged": rng.random() < 0.25, "liveOther": rng.random() < 0.3, "dupDirSynced": rng.random() < 0.25,
         "fileConflict": rng.random() < 0.2, "alreadyDir": rng.random() < 0.25}
    o.update(kw)
    return o


def x_temp_choices(path, hash_):
    """temp_file candidates: none / same key in the tempdir / other hash / other path / in the directory of an earlier run / random"""
    p = path or 1
    h = hash_ or 1
    oh = 2 if h == 1 else 1
    op = 2 if p == 1 else 1
    return [None, ("c", ("k", p, h)), ("c", ("k", p, oh)), ("c", ("k", op, h)), ("o", ("k", p, h)), ("o", ("k", p, oh)), ("c", ("r", 0)), ("o", ("r", 0))]


def x_filesets(temp, path, hash_):
    """which files lie around: the one temp_file names (right / wrong content), its '.tmp', a finished one for the current key"""
    p = path or 1
    h = hash_ or 1
    out = [[]]
    cur_key = ("c", ("k", p, h))
    if temp is not None:
        d, n = temp
        tag = n[2] if n[0] == "k" else 0
        out += [[(d, n, False, tag)], [(d, n, False, tag), (d, n, True, 0)], [(d, n, True, 3)], [(d, n, False, 3 if tag != 3 else 1)]]
        if temp != cur_key:
            out += [[(cur_key[0], cur_key[1], False, h)], [(d, n, False, tag), (cur_key[0], cur_key[1], False, h)]]
    else:
        out += [[(cur_key[0], cur_key[1], False, h)], [(cur_key[0], cur_key[1], True, 0)]]
    return out


def x_structured_cases(rng):
    """make_temp_file / download_changed over ALL combinations of (hash None / set, path, type, where temp_file points, which of the two
    directories exist, which files lie around, provider outcome)"""
    for op in ("xmktemp", "xdl"):
        for hash_ in (None, 1, 2):
            for path in (1, None):
                for ot in "fd":
                    for temp in x_temp_choices(path, hash_):
                        for cur, old in ((True, True), (True, False), (False, True), (False, False)):
                            for files in x_filesets(temp, path, hash_):
                                files = [f for f in files if (cur if f[0] == "c" else old)]
                                nxt = 1 if (any(f[1][0] == "r" for f in files) or (temp and temp[1][0] == "r")) else 0
                                for dl in ("ofpcxt" if op == "xdl" else "o"):
                                    c = x_rand_side(rng, ot=ot, path=path, hash=hash_, temp=temp, oid=(rng.random() < 0.9))
                                    yield {"op": op, "side": rng.choice("LR"), "fs": {"cur": cur, "old": old, "next": nxt, "files": files},
                                           "c": c, "s": x_rand_side(rng), "ign": rng.choice("nnnci"), "prio": rng.choice((0, 0, 10, 20, 60)),
                                           "o": x_rand_oracle(rng, dl=dl)}


def x_random_case(rng, op):
    side = rng.choice("LR")
    c = x_rand_side(rng)
    s_ = x_rand_side(rng)
    o = x_rand_oracle(rng)
    if op in ("xup", "xcr", "xtup", "xtcr", "xretry", "xclean", "xmk"):
        c["ot"] = "f" if op != "xmk" else "d"
    if op in ("xcr", "xtup", "xtcr", "xretry"):
        c["path"] = c["path"] or 1
    temps = x_temp_choices(c["path"], c["hash"])
    c["temp"] = rng.choice(temps + temps[1:3])
    if op == "xclean":
        s_["temp"] = rng.choice(x_temp_choices(s_["path"], s_["hash"]))
    files = list(rng.choice(x_filesets(c["temp"], c["path"], c["hash"])))
    if op == "xclean" and s_["temp"] and rng.random() < 0.7:
        files.append((s_["temp"][0], s_["temp"][1], False, 1))
    if op in ("xup", "xcr") and c["temp"] is not None and rng.random() < 0.7 and not any(f[:3] == (c["temp"][0], c["temp"][1], False) for f in files):
        files.append((c["temp"][0], c["temp"][1], False, rng.choice((0, 1, 2, 3))))
    cur, old = rng.random() < 0.85, rng.random() < 0.7
    prio = rng.choice((0, 0, 0, 1, 10, 11, 20, 50, 51, 60, -10))
    if op in ("xtup", "xretry"):
        # the guards of handle_hash_diff (1577-1594) hold; the corrupt branch (handle_corrupt) is tied by the op `hashdiff`
        c["oid"] = True
        s_["oid"] = True
        if s_["ex"] in "tm":
            s_["ex"], s_["saved"] = "e", "-"
        o["dl"] = rng.choice("ooofpct")
        o["up"] = rng.choice("ooofcent")
    if op == "xretry":
        if o["up"] == "c":
            o["infoAfterFnf"] = True
        if o["dl"] == "o" and o["up"] == "o":
            o["up"] = rng.choice("fte")
    if op == "xtcr":
        # a pending FILE creation reaching 1238-1253 of handle_path_change_or_creation
        c.update({"oid": True, "ex": "e", "saved": "-", "ch": True, "sp": None, "ot": "f"})
        s_.update({"oid": False, "ex": "u", "saved": "-"})
        o["dl"] = rng.choice("ooofpct")
        o["cr"] = rng.choice("oooeecnt")
    seen = set()
    files = [f for f in files if (cur if f[0] == "c" else old) and not (f[:3] in seen or seen.add(f[:3]))]
    nxt = 1 if (any(f[1][0] == "r" for f in files) or any(x["temp"] and x["temp"][1][0] == "r" for x in (c, s_))) else 0
    case = {"op": op, "side": side, "fs": {"cur": cur, "old": old, "next": nxt, "files": files}, "c": c, "s": s_,
            "ign": rng.choice("nnnnci"), "prio": prio, "o": o}
    if op == "xretry":
        case["h2"] = rng.choice([t for t in X_TAGS if t != c["hash"]])
        case["o2"] = x_rand_oracle(rng, dl=rng.choice("ooof"), up=rng.choice("oooft"), tp=o["tp"])
    return case


# -- y-case generation ---------------------------------------------------------------------------------------------------------

Y_BASES = ["a", "a.txt", "a.b.c", ".hidden", "a.", "long name.tar.gz", "x.conflicted", "x.conflicted.txt"]
Y_FOLDERS = ["/L", "/L/d", "/L/d e/f", ""]


def y_conflict_names(base, n):
    i = base.find(".")
    stem, ext = (base[:i], base[i:]) if i >= 0 else (base, "")
    return [stem + ".conflicted" + ("" if k == 1 else str(k)) + ext for k in range(1, n + 1)]


def y_rand_entry(rng):
    return {"l": rand_side(rng), "r": rand_side(rng), "ord": rng.choice("TF"), "ign": rng.choice(W_IGN), "prio": rng.choice(W_PRIO)}


def y_random_case(rng, op):
    if op == "ycr":
        base = rng.choice(Y_BASES)
        folder = rng.choice(Y_FOLDERS)
        path = (folder + "/" + base) if rng.random() < 0.93 else folder + "/"
        cands = y_conflict_names(base, 12)
        k = rng.choice((0, 0, 1, 2, 3, 5, 11))
        taken = cands[:k]
        if rng.random() < 0.3:
            taken = [t for t in taken if rng.random() < 0.8] + [rng.choice(cands)]       # holes and later names
        rng.shuffle(taken)
        return {"op": op, "path": path, "present": rng.random() < 0.85, "taken": taken}
    if op == "yfix":
        return {"op": op, "kind": rng.choice("rrra"), "mine": rng.random() < 0.5, "other": rng.random() < 0.6, "temp": rng.random() < 0.5}
    if op == "yrr":
        return {"op": op, "kind": rng.choice("rrra"), "s": rand_side(rng)}
    if op == "yfnf":
        side = rng.choice("LR")
        e = y_rand_entry(rng)
        e["prio"] = rng.choice((0, 10, 20, 21, 30, 50, 51, 60, 0, 20, 30))
        parent = None
        if rng.random() < 0.8:
            parent = y_rand_entry(rng)
            k = "l" if side == "L" else "r"
            parent[k]["oid"] = "T"
            parent[k]["p"] = rng.choice("ced")
            parent["ign"] = rng.choice("nnnnnt")
            if rng.random() < 0.6:                      # the interesting region: a parent that is known and looks synced
                parent[k].update({"exs": "e-", "ch": rng.choice("TF")})
        return {"op": op, "side": side, "e": e, "parent": parent, "parentThere": rng.random() < 0.5, "parentSynced": rng.random() < 0.5}
    if op == "ydj":
        n = rng.choice((0, 1, 1, 2, 3))
        peers = [{"ex": rng.choice("eeetmul"), "match": False, "hs": rng.random() < 0.5, "ch": rng.random() < 0.5, "ot": rng.choice("ffd")}
                 for _ in range(n)]
        if peers and rng.random() < 0.75:
            rng.choice(peers)["match"] = True
        return {"op": op, "cot": rng.choice("fffd"), "sot": rng.choice("ffd"), "info": rng.random() < 0.8, "peers": peers}
    if op == "yff":
        n = rng.choice((0, 1, 2, 3))
        return {"op": op, "peers": [{"ex": rng.choice("eeetmu"), "ot": rng.choice("ffd"), "info": rng.random() < 0.6} for _ in range(n)]}
    if op == "ymk":
        n = rng.choice((0, 1, 2, 3))
        return {"op": op, "prio": rng.choice((-10, 0, 1, 10)),
                "others": [{"cot": rng.choice("fd"), "sot": rng.choice("fd"), "cex": rng.choice("eeetm"), "sex": rng.choice("eeetm")} for _ in range(n)]}
    if op == "yhc":
        e = y_rand_entry(rng)
        if rng.random() < 0.85:                         # a hash conflict: both hashes and paths set, both differ from the synced ones
            for k in "lr":
                e[k].update({"h": rng.choice("cd"), "p": rng.choice("ced")})
            e["l"]["oid"] = rng.choice("TTTTF")
        return {"op": op, "e": e, "dl": rng.choice("ooooofmtx"), "tempGone": rng.random() < 0.15, "sameHash": rng.random() < 0.35,
                "rc": rng.choice("oootc")}
    raise HarnessError(op)


Y_OPS = [("ycr", 4), ("yfix", 1), ("yrr", 1), ("yfnf", 5), ("ydj", 5), ("yff", 2), ("ymk", 2), ("yhc", 5)]


def gen_ycases(tier, seed):
    rng = rng_for(seed, "eng-more")
    unit = 300 if tier == "quick" else 4000
    cases = []
    for op, w in Y_OPS:
        cases += [y_random_case(rng, op) for _ in range(unit * w)]
    return cases


X_OPS = [("xup", 3), ("xcr", 4), ("xmk", 3), ("xclean", 1), ("xtup", 3), ("xtcr", 3), ("xretry", 3)]


def gen_xcases(tier, seed):
    rng = rng_for(seed, "eng-xfer")
    st_cases = list(x_structured_cases(rng))
    if tier == "quick":
        rng.shuffle(st_cases)
        st_cases = st_cases[:len(st_cases) // 4]
    unit = 400 if tier == "quick" else 6000
    cases = st_cases
    for op, w in X_OPS:
        cases += [x_random_case(rng, op) for _ in range(unit * w)]
    return cases


# ---------------------------------------------------------------------------------------------------------------
# case generation: per method, focused partial assignments (each steers the sample into one region of the decision
# table; the rest of the entry and of the oracle is drawn at random) + unfocused random cases

CUR = "ced"
UNLINK_HIT = {"ign": "nnnct", "c.oid": "T", "s.oid": "T", "s.p": "ced", "s.exs": ["e-"], "trback": "n", "c.ch": "T", "c.h": "dcde", "c.p": "dcde",
              "c.exs": ["e-", "e-", "t-", "m-"]}
UNLINK_NEAR = {"c.oid": "TTTF", "s.oid": "TTTF", "s.p": "cedns", "s.exs": ["e-", "e-", "e-", "t-", "u-", "c-", "ce", "m-", "l-"], "trback": "nnp",
               "c.ch": "TTF", "c.fs": "FFFT", "c.h": "dcden", "c.p": "dcde"}
UNLINK_BOTH = {"ign": "nnd", "l.oid": "T", "r.oid": "T", "l.p": "ced", "r.p": "ced", "l.exs": ["e-"], "r.exs": ["e-"], "o.trL": "n", "o.trR": "n",
               "l.ch": "TF", "r.ch": "TF", "l.h": "de", "r.h": "de"}
FOCUS = {
    "preds": [{}],
    "finished": [{}],
    "split": [{}, {"l.oid": "T"}],
    "corrupt": [{}],
    "missing": [{}, {"s.exs": ["e-"]}, {"s.exs": ["e-"], "prio": [40, 41, 50]}],
    "hashdiff": [{}, {"c.p": CUR}, {"c.p": CUR, "s.exs": ["e-", "u-", "l-", "ce", "cu"], "s.oid": "T"},
                 {"c.p": CUR, "s.exs": ["t-", "m-"]}, {"c.p": CUR, "s.oid": "F"}, {"c.p": CUR, "s.exs": ["c-", "cu", "ce", "ct", "cm", "cl"]}],
    "deleteD": [{}, {"o.delCreate": "F", "o.delRename": "F"}, {"o.delCreate": "F", "o.delRename": "F", "s.oid": "T", "o.del": "e"},
                {"o.delCreate": "F", "o.delRename": "F", "s.oid": "T", "o.del": "e", "o.kidsNeedSync": "F", "o.remaining": "T", "prio": [1, 90, 99, 100, 110]},
                {"o.delCreate": "F", "tr": "n"}, {"o.delCreate": "F", "o.delRename": "F", "ign": "c"}],
    "deleteI": [{}, {"o.delCreate": "F", "o.delRename": "F"}, {"o.delCreate": "F", "o.delRename": "F", "s.oid": "T", "o.del": "e"},
                {"o.delCreate": "F", "o.delRename": "F", "s.oid": "T", "o.del": "e", "o.kidsNeedSync": "F", "o.remaining": "T", "prio": [1, 90, 99, 100, 110]}],
    "rename": [{"c.p": CUR, "tr": "psalg"}, {"c.p": CUR, "tr": "lg"}, {"c.p": CUR, "tr": "lg", "s.h": "sed"}, {"c.p": CUR, "tr": "lg", "s.h": "sed", "o.ren": "e"},
               {"c.p": CUR, "tr": "lg", "s.h": "sed", "o.ren": "e", "prio": [1, 10, 20]}, {"c.p": CUR, "tr": "lg", "s.h": "sed", "o.ren": "f"},
               {"c.p": CUR, "tr": "spa"}],
    "hpcc": [{}, {"c.p": CUR, "tr": "psalg"}, {"c.p": "ed", "tr": "psalg", "s.exs": ["t-"]},
             {"c.p": "ed", "tr": "psalg", "s.exs": ["t-"], "prio": [1, 10, 20]},
             {"c.p": "ed", "tr": "psalg", "s.exs": ["t-"], "prio": [1, 10, 20], "s.ch": "T", "c.h": "en"},
             {"c.p": CUR, "tr": "psalg", "c.exs": ["e-"], "c.ch": "T", "c.oid": "T", "s.oid": "F"},
             {"c.p": CUR, "tr": "psalg", "c.exs": ["e-"], "c.ch": "T", "c.oid": "T", "s.exs": ["m-", "t-"]},
             {"c.p": CUR, "tr": "psalg", "c.exs": ["e-"], "c.ch": "T", "c.oid": "T", "s.oid": "F", "o.disjoint": "F", "c.ot": "f"},
             {"c.p": CUR, "tr": "psalg", "c.exs": ["e-"], "c.ch": "T", "c.oid": "T", "s.oid": "F", "o.disjoint": "F", "c.ot": "d"},
             {"c.p": "d", "tr": "lg", "c.exs": ["e-"], "s.oid": "T", "s.exs": ["e-"], "s.h": "sed"},
             {"c.p": "d", "tr": "psalg", "c.exs": ["c-", "ce", "ct"]}],
    "embrace": [{}, {"c.p": CUR, "tr": "n"}, {"c.p": "ed", "tr": "n", "o.inRoot": "F"}, {"ign": "di"}, {"ign": "c"},
                {"ign": "c", "c.p": CUR, "tr": "psalg"},
                {"ign": "n", "c.p": CUR, "c.exs": ["e-"], "tr": "psalg", "o.parentConfl": "T"},
                {"ign": "n", "c.p": "d", "c.exs": ["e-"], "tr": "psalg", "o.parentConfl": "T", "s.exs": ["t-"], "prio": [20, 21, 30, 40], "pc": [20, 21, 30, 50]},
                {"ign": "n", "tr": "psalg", "o.parentConfl": "F", "o.rdc": "T"},
                {"ign": "n", "tr": "psalg", "o.parentConfl": "F", "o.rdc": "F", "c.exs": ["t-"]},
                {"ign": "n", "tr": "psalg", "o.parentConfl": "F", "o.rdc": "F", "c.exs": ["t-"], "s.p": CUR, "s.exs": ["e-"], "s.ch": "T", "s.oid": "T"},
                {"ign": "n", "tr": "psalg", "o.parentConfl": "F", "o.rdc": "F", "c.exs": ["t-"], "s.p": CUR, "s.exs": ["e-"], "s.ch": "T", "s.oid": "T", "s.ot": "f"},
                {"ign": "n", "tr": "psalg", "o.parentConfl": "F", "o.rdc": "F", "c.exs": ["m-"]},
                {"ign": "n", "tr": "psalg", "o.parentConfl": "F", "o.rdc": "F", "c.exs": ["e-"], "c.p": CUR, "c.ch": "T", "c.oid": "T"},
                {"ign": "n", "tr": "psalg", "o.parentConfl": "F", "o.rdc": "F", "c.exs": ["e-"], "c.p": "e", "c.h": "cd", "c.ch": "T", "c.oid": "T", "s.oid": "T", "s.exs": ["e-"]},
                {"ign": "n", "tr": "psalg", "o.parentConfl": "F", "o.rdc": "F", "c.exs": ["e-"], "c.p": "e", "c.h": "e", "s.exs": ["c-", "ce", "ct", "cm"]},
                {"ign": "n", "tr": "psalg", "o.parentConfl": "F", "o.rdc": "F", "c.exs": ["e-"], "c.p": "c", "c.ch": "T", "c.oid": "T", "s.oid": "F", "o.disjoint": "F"},
                {"ign": "n", "tr": "lg", "o.parentConfl": "F", "o.rdc": "F", "c.exs": ["e-"], "c.p": "d", "c.ch": "T", "c.oid": "T", "s.oid": "T", "s.exs": ["e-"], "s.h": "e"}],
    "sync": [{}, {"l.h": "cd", "r.h": "cd", "l.p": CUR, "r.p": CUR},
             {"ign": "n", "c.ch": "T", "c.oid": "T", "o.parentConfl": "F", "o.rdc": "F", "tr": "psalg"},
             {"ign": "n", "c.ch": "T", "c.oid": "T", "s.ch": "F", "o.parentConfl": "F", "o.rdc": "F", "tr": "psalg"},
             {"ign": "n", "l.ch": "T", "r.ch": "T", "l.oid": "T", "r.oid": "T", "o.parentConfl": "F", "o.rdc": "F", "o.trL": "psalg", "o.trR": "psalg"},
             {"c.ch": "T", "c.oid": "T", "c.exs": ["ct", "cm", "cl"]},
             {"c.ch": "T", "c.oid": "T", "c.h": "ns", "c.ot": "f", "c.exs": ["e-"]},
             {"c.ch": "T", "c.oid": "F"},
             {"c.ch": "T", "c.fs": "F", "c.h": "en", "c.p": "en", "c.exs": ["e-", "u-", "c-", "ce"]},
             {"c.ch": "T", "c.fs": "F", "c.h": "en", "c.p": "en", "c.exs": ["e-", "u-"], "s.exs": ["c-", "ce", "ct"]},
             # path conflict: both renamed to different names after a sync
             {"ign": "nnnt", "l.p": "d", "r.p": "d", "l.exs": ["e-"], "r.exs": ["e-"], "l.h": "ed", "r.h": "ed", "l.ch": "T", "r.ch": "T", "l.oid": "T", "r.oid": "T",
              "o.trL": "nlgsa", "o.trR": "nlgsa", "o.parentConfl": "F", "o.rdc": "F"},
             {"ign": "n", "l.p": "d", "r.p": "d", "l.exs": ["e-"], "r.exs": ["e-"], "l.h": "e", "r.h": "e", "l.ch": "T", "r.ch": "T", "l.oid": "T", "r.oid": "T",
              "o.trL": "lg", "o.trR": "lg", "o.parentConfl": "F", "o.rdc": "F"},
             {"ign": "n", "l.p": "d", "r.p": "d", "l.exs": ["e-"], "r.exs": ["e-"], "l.ot": "d", "r.ot": "d", "l.h": "n", "r.h": "n", "l.ch": "T", "r.ch": "T",
              "l.oid": "TTF", "r.oid": "T", "o.trL": "nlg", "o.trR": "lgp", "o.parentConfl": "F", "o.rdc": "F"},
             # a peer that left the sync root (its path no longer translates) while the other side has a change: unlinked by a split
             UNLINK_HIT, UNLINK_NEAR, UNLINK_BOTH],
    "presync": [{}, {"ign": "di"}, {"ign": "i", "c.ch": "T", "c.p": "cn", "c.oid": "T"},
                {"ign": "i", "c.ch": "T", "c.p": "cn", "c.oid": "T", "o.revOtherL": "F", "o.revOtherR": "F", "o.revInfoL": "p", "o.revInfoR": "p"}],
    "syncone": [{}, {"ign": "di"}, {"ign": "i", "c.ch": "T", "c.p": "cn", "c.oid": "T", "o.revOtherL": "F", "o.revOtherR": "F", "o.revInfoL": "p", "o.revInfoR": "p"},
                {"ign": "n", "c.ch": "T", "c.oid": "T", "o.parentConfl": "F", "o.rdc": "F", "tr": "psalg"},
                UNLINK_HIT, UNLINK_NEAR],
}
# relative weight of the methods in the sample
OPS = [("preds", 3), ("finished", 1), ("split", 1), ("corrupt", 1), ("missing", 1), ("hashdiff", 3), ("deleteD", 2), ("deleteI", 1), ("rename", 3),
       ("hpcc", 5), ("embrace", 8), ("sync", 8), ("presync", 2), ("syncone", 4)]


# ---------------------------------------------------------------------------------------------------------------
# part 4: REFRESH SCOPES (Model/EngineRefresh.lean, ops `z…`).  In these ops `SyncEntry.get_latest` is the REAL method, traced:
# which entry, from which call site, the `sides` and `force` it was given, and which sides `unconditionally_get_latest` re-read
# (the decision `max(changed over sides) > _last_gotten`).  Entries carry numeric change stamps and `_last_gotten` marks; what the
# providers answer about an id is scripted per (entry, side) as a probe (gone / same / the synced value / another value).

Z_STAMPS = [0, 0, 3, 5, 7, 9]


def enc_re(e):
    return "%s %s %s %d %d %d %d %d" % (enc_side(e["l"]), enc_side(e["r"]), e["ign"], e["prio"], e["ch"][0], e["ch"][1], e["lg"][0], e["lg"][1])


def enc_zcase(c):
    op = c["op"]
    B = lambda b: "T" if b else "F"
    pid = B(c["pid"][0]) + B(c["pid"][1]) if "pid" in c else ""
    if op == "zdec":
        return "zdec %d %d %d %d %s %s" % (c["ch"][0], c["ch"][1], c["lg"][0], c["lg"][1], c["scope"], B(c["force"]))
    if op == "zgl":
        return "zgl %s 1000 %s %s %s %s %s" % (enc_re(c["e"]), c["scope"], B(c["force"]), c["probes"][0], c["probes"][1], pid)
    if op == "zat":
        return "zat %s %s %s 1000 %s %s %s" % (c["site"], c["sd"], enc_re(c["e"]), c["probes"][0], c["probes"][1], pid)
    if op == "zren":
        return "zren %s %s %s 1000 %s %d %s %s %s %s %s" % (c["side"], enc_re(c["e"]), "-" if c["cf"] is None else enc_re(c["cf"]),
                                                           enc_oracle(c["o"]), c["pc"], c["probes"][0], c["probes"][1],
                                                           c["cprobes"][0], c["cprobes"][1], pid)
    raise HarnessError("unknown z op " + op)


def dec_zcase(line):
    """inverse of enc_zcase (`--case "<line>"`)"""
    t = line.split()
    side_of = lambda x: {"oid": x[0], "p": x[1], "h": x[2], "exs": x[3:5], "ot": x[5], "ch": x[6], "fs": x[7]}
    B = lambda x: x == "T"

    def re_of(w):
        return {"l": side_of(w[0]), "r": side_of(w[1]), "ign": w[2], "prio": int(w[3]), "ch": (int(w[4]), int(w[5])), "lg": (int(w[6]), int(w[7]))}
    op = t[0]
    if op == "zdec":
        return {"op": op, "ch": (int(t[1]), int(t[2])), "lg": (int(t[3]), int(t[4])), "scope": t[5], "force": B(t[6])}
    if op == "zgl":
        return {"op": op, "e": re_of(t[1:9]), "scope": t[10], "force": B(t[11]), "probes": (t[12], t[13]), "pid": (B(t[14][0]), B(t[14][1]))}
    if op == "zat":
        return {"op": op, "site": t[1], "sd": t[2], "e": re_of(t[3:11]), "probes": (t[12], t[13]), "pid": (B(t[14][0]), B(t[14][1]))}
    if op == "zren":
        rest = t[10:]
        cf = None
        if rest[0] == "-":
            rest = rest[1:]
        else:
            cf, rest = re_of(rest[:8]), rest[8:]
        return {"op": op, "side": t[1], "e": re_of(t[2:10]), "cf": cf, "o": {k: v for k, v in zip(ORACLE_NAMES, rest[1])}, "pc": int(rest[2]),
                "probes": (rest[3], rest[4]), "cprobes": (rest[5], rest[6]), "pid": (B(rest[7][0]), B(rest[7][1]))}
    raise HarnessError("unknown z op " + op)


class ZRig:
    real_get_latest = True

    def __init__(self, rig):
        self.rig = rig
        self.calls = []
        self.reread = []
        self.ents = {}
        self.fresh = 0

    def close(self):
        pass

    # -- the trace ----------------------------------------------------------------------------------------------------------
    def traced_get_latest(self, ent, force, sides, frame):
        rig = self.rig
        who = frame.f_code.co_name
        target = "self" if ent is rig.ent else "conflict"
        if who == "pre_sync":
            site = "preSync"
        elif who == "handle_rename":
            site = "renameConflict" if target == "conflict" else ("renameFixFnf" if rig.fix_calls else "renameRetry")
        elif who == "handle_split_conflict":
            site = "splitDefer" + "LR"[frame.f_locals["defer_side"]]
        elif who == "lookup_creation":
            site = "lookupCreation"
        elif who == "change":
            site = "changeFill" + "LR"[frame.f_locals["side"]]
        else:
            site = "direct"
        if ent is rig.ent:
            rig.fx.append("glf" if force else "gl")
        self.reread = []
        rig._old_get_latest(ent, force=force, sides=sides)
        self.calls.append("%s:%s:%s%s:%s" % (target, site, "".join("LR"[s] for s in sides), "T" if force else "F",
                                             "".join("LR"[s] for s in self.reread) or "-"))

    # -- scripted provider ----------------------------------------------------------------------------------------------------
    def info_oid(self, side, oid):
        rig = self.rig
        hit = self.ents.get((side, oid))
        if hit is None:
            return None
        ent, probe = hit
        if probe == "a":
            return None
        ss = ent[side]
        ha, pa, ot = probe
        if ha == "o":
            self.fresh += 1
            h = b"hZ%d" % self.fresh
        elif ha == "e" and ss._sync_hash is not None and ss._hash != ss._sync_hash:
            h = ss._sync_hash
        else:
            h = ss._hash
        if pa == "o":
            self.fresh += 1
            p = "%s/z%d" % (rig.roots[side], self.fresh)
        elif pa == "e" and ss._sync_path is not None and not rig.provs[side].paths_match(ss._sync_path, ss._path, for_display=True):
            p = ss._sync_path
        else:
            p = ss._path
        return rig.OInfo(otype=rig.OT[ot], oid=oid, hash=h, path=p)

    def info_path(self, side, path):
        return None

    # -- entries ------------------------------------------------------------------------------------------------------------
    def stamp(self, ent, e, probes, track=True):
        for sd in (0, 1):
            ent[sd]._changed = float(e["ch"][sd]) if e["ch"][sd] else None
            ent[sd]._last_gotten = float(e["lg"][sd])
            if track and ent[sd]._oid is not None:
                self.ents[(sd, ent[sd]._oid)] = (ent, probes[sd])
        if ent[0]._changed or ent[1]._changed:
            self.rig.state._changeset_storage.add(ent)
        else:
            self.rig.state._changeset_storage.discard(ent)

    def as_case(self, e, op, side="L", o=None, pc=0):
        e = dict(e)
        for k in "lr":
            e[k] = dict(e[k], ch="T" if e["ch"]["lr".index(k)] else "F")
        return {"op": op, "side": side, "l": e["l"], "r": e["r"], "ord": "T", "ign": e["ign"], "prio": e["prio"], "o": o or dict(QUIET),
                "pc": pc}

    def build_conflict(self, e, synced):
        """the entry at the rename target: ids oidX (synced side: what the scripted `delete` recognises) / oidC"""
        rig = self.rig
        st = rig.st
        state = rig.state
        ent = st.SyncEntry(state, rig.OT[e["l"]["ot"]])
        for sd, key in ((0, "l"), (1, "r")):
            x = e[key]
            ss = ent[sd]
            root = rig.roots[sd]
            ss._otype = rig.OT[x["ot"]]
            ss._oid = ("oidX" if sd == synced else "oidC") if x["oid"] == "T" else None
            p = x["p"]
            ss._path = root + "/t" if p in "ced" else None
            ss._sync_path = {"n": None, "c": None, "s": root + "/u", "e": root + "/t", "d": root + "/u"}[p]
            h = x["h"]
            ss._hash = b"g1" if h in "ced" else None
            ss._sync_hash = {"n": None, "c": None, "s": b"g0", "e": b"g1", "d": b"g0"}[h]
            ss._exists = rig.EX[x["exs"][0]]
            ss._saved_exists = None if x["exs"][1] == "-" else rig.EX[x["exs"][1]]
            ss._force_sync = x["fs"] == "T"
            if ss._oid is not None:
                state._oids[sd][ss._oid] = ent
                if ss._path is not None:
                    state._paths[sd].setdefault(ss._path, {})[ss._oid] = ent
        ent._priority = e["prio"] / 10.0
        ent._ignored = rig.IGN[e["ign"]]
        return ent

    def abstract_re(self, ent):
        a = self.rig.abstract(ent).split(" ")
        n = lambda v: int(v or 0)
        return "%s %s %s %s %d %d %d %d" % (a[0], a[1], a[3], a[4], n(ent[0]._changed), n(ent[1]._changed), n(ent[0]._last_gotten),
                                            n(ent[1]._last_gotten))

    # -- ops ----------------------------------------------------------------------------------------------------------------
    def run(self, case):
        rig = self.rig
        rig.x = self
        self.calls, self.reread, self.ents, self.fresh = [], [], {}, 0
        old = [p.oid_is_path for p in rig.provs]
        try:
            for p, v in zip(rig.provs, case.get("pid", (False, False))):
                p.oid_is_path = v
            return getattr(self, "op_" + case["op"])(case)
        finally:
            for p, v in zip(rig.provs, old):
                p.oid_is_path = v
            rig.x = None
            rig.ctx = None
            for name in ("check_revivify", "resolve_conflict"):
                rig.mgr.__dict__.pop(name, None)

    def calls_str(self):
        return ",".join(self.calls) if self.calls else "-"

    def op_zdec(self, c):
        blank = _S(W_BLANK)
        e = {"l": blank, "r": blank, "ign": "n", "prio": 0, "ch": c["ch"], "lg": c["lg"]}
        ent = self.rig.realise(self.as_case(e, "zdec"))
        self.stamp(ent, e, ("a", "a"))
        ent.get_latest(force=c["force"], sides=tuple("LR".index(x) for x in c["scope"]))
        return "%s | %d %d" % (self.calls[0].split(":")[3], int(ent[0]._last_gotten), int(ent[1]._last_gotten))

    def op_zgl(self, c):
        ent = self.rig.realise(self.as_case(c["e"], "zgl"))
        self.stamp(ent, c["e"], c["probes"])
        ent.get_latest(force=c["force"], sides=tuple("LR".index(x) for x in c["scope"]))
        return "%s | %s %d" % (self.calls[0].split(":")[3], self.abstract_re(ent), int(self.rig.now))

    def op_zat(self, c):
        rig = self.rig
        ent = rig.realise(self.as_case(c["e"], "zat", o=dict(QUIET, dl="f")))
        self.stamp(ent, c["e"], c["probes"])
        site = c["site"]
        if site == "preSync":
            rig.mgr.check_revivify = lambda sync: None
            rig.mgr.pre_sync(ent)
        elif site == "splitDefer":
            d = "LR".index(c["sd"])
            rig.mgr.resolve_conflict = lambda pair: None
            other = self.build_conflict({"l": _S(W_NEW_FILE), "r": _S(W_NEW_FILE), "ign": "n", "prio": 0}, 1 - d)
            rig.mgr.handle_split_conflict(ent, d, other, 1 - d)
        elif site == "lookupCreation":
            rig.state.lookup_creation(ent[0]._hash, 0)
        elif site == "changeFill":
            rig.state._changeset_storage.add(ent)
            rig.state.change(0)
        else:
            raise HarnessError("unknown site " + site)
        return "%s | %s" % (self.calls_str(), self.abstract_re(ent))

    def op_zren(self, c):
        rig = self.rig
        mg = rig.mg
        ch = "LR".index(c["side"])
        s = 1 - ch
        o = dict(c["o"], rcEnt="F" if c["cf"] is None else "T")
        ent = rig.realise(self.as_case(c["e"], "zren", side=c["side"], o=o, pc=c["pc"]))
        self.stamp(ent, c["e"], c["probes"])
        cf = None
        if c["cf"] is not None:
            cf = self.build_conflict(c["cf"], s)
            self.stamp(cf, c["cf"], c["cprobes"])
            rig.other = cf
        m = rig.mgr
        code = lambda r: ("N" if r is None else {mg.FINISHED: "F", mg.PUNT: "P", mg.REQUEUE: "R"}.get(r, "?%r" % (r,)))
        try:
            out = code(m.handle_rename(ent, ch, s, m.translate(s, ent[ch].path)))
        except AssertionError:
            out = "!assertion"
        except rig.ex.CloudTemporaryError:
            out = "!temp"
        except HarnessError:
            raise
        except Exception as e:  # noqa
            out = "!other:" + type(e).__name__
        return "%s | %s | %s | %s | %s" % (out, ",".join(rig.fx) if rig.fx else "-", self.calls_str(), self.abstract_re(ent),
                                           "-" if cf is None else self.abstract_re(cf))


def z_rand_probe(rng, absent=2):
    if rng.randrange(10) < absent:
        return "a"
    return rng.choice("sssseo") + rng.choice("sssseo") + rng.choice("ffffdn")


def z_rand_re(rng, quiet=False):
    e = {"l": rand_side(rng), "r": rand_side(rng), "ign": rng.choice(W_IGN), "prio": rng.choice(W_PRIO)}
    if quiet:                   # near a fully synced entry: the decision of manager.py 1314 hangs on what the refresh finds
        for k in "lr":
            e[k] = dict(e[k], oid="T", p=rng.choice("eeeed"), h=rng.choice("eeeeed"), exs=rng.choice(["e-"] * 6 + ["t-", "u-"]),
                        fs=rng.choice("FFFFFFFT"))
        e["ign"] = rng.choice("nnnnnnd")
    ch = [rng.choice(Z_STAMPS), rng.choice(Z_STAMPS)]
    if ch[0] and ch[0] == ch[1]:
        ch[1] += 1
    lg = [rng.choice([0, 0] + Z_STAMPS + ch + [max(ch)] * 3), rng.choice([0, 0] + Z_STAMPS + ch + [max(ch)] * 3)]
    e["ch"], e["lg"] = tuple(ch), tuple(lg)
    for i, k in enumerate("lr"):
        e[k] = dict(e[k], ch="T" if ch[i] else "F")
    return e


Z_SITES = [("preSync", "-"), ("splitDefer", "L"), ("splitDefer", "R"), ("lookupCreation", "-"), ("changeFill", "-")]


def z_random_case(rng, op):
    pid = (rng.random() < 0.4, rng.random() < 0.4)
    if op == "zgl":
        return {"op": "zgl", "e": z_rand_re(rng, quiet=rng.random() < 0.3), "scope": rng.choice(["LR", "LR", "LR", "L", "R", "RL"]),
                "force": rng.random() < 0.25, "probes": (z_rand_probe(rng), z_rand_probe(rng)), "pid": pid}
    if op == "zat":
        site, sd = rng.choice(Z_SITES)
        e = z_rand_re(rng, quiet=rng.random() < 0.3)
        if site == "preSync" and e["ign"] in "di":             # is_discarded: pre_sync ends before the refresh
            e["ign"] = "n"
        if site == "lookupCreation":                          # get_all() lists neither discarded nor conflicted entries
            e["l"] = dict(e["l"], oid="T", ot="f")
            if e["ign"] in "dic":
                e["ign"] = "n"
        if site == "changeFill":
            k = rng.choice("lr")
            e[k] = dict(e[k], p=rng.choice("nns"), exs=rng.choice(["e-", "u-", "e-", "t-"]))
        probes = [z_rand_probe(rng), z_rand_probe(rng)]
        if site == "lookupCreation" and probes[0] != "a":
            probes[0] = probes[0][:2] + "f"
        return {"op": "zat", "site": site, "sd": sd, "e": e, "probes": tuple(probes), "pid": pid}
    if op == "zren":
        side = rng.choice("LR")
        sy = "r" if side == "L" else "l"
        ck = "l" if side == "L" else "r"
        e = z_rand_re(rng)
        # reach the provider's rename: a synced-side sync_path that differs from the translated path, a sync_hash or a folder
        e[sy] = dict(e[sy], oid="T", p=rng.choice("eeds"), h=rng.choice("eeeds") if rng.random() < 0.9 else e[sy]["h"])
        e[ck] = dict(e[ck], p=rng.choice("ddddce"))
        e["prio"] = rng.choice([0, 0, 10, 10, 10, 20, 30, -10, 1, 11])
        o = rand_oracle(rng)
        o["trL" if side == "R" else "trR"] = rng.choice("gggggglpsn")
        o["ren"] = rng.choice("eeeeeeeeeofnt")
        o["nameConfl"] = "F"
        cf = None
        if rng.random() < 0.85:
            cf = z_rand_re(rng, quiet=rng.random() < 0.8)
            cf[sy] = dict(cf[sy], oid="T")
            if rng.random() < 0.5:
                cf[ck] = dict(cf[ck], oid=rng.choice("TTF"))
        cp = [z_rand_probe(rng, absent=1), z_rand_probe(rng, absent=1)]
        return {"op": "zren", "side": side, "e": e, "cf": cf, "o": o, "pc": 0, "probes": (z_rand_probe(rng), z_rand_probe(rng)),
                "cprobes": tuple(cp), "pid": pid}
    raise HarnessError(op)


def z_decision_cases():
    """the trigger of get_latest, exhaustively over stamps in {0,3,5,7}: 4^4 stamp tuples x 4 scopes x force"""
    v = (0, 3, 5, 7)
    for a, b, c_, d in itertools.product(v, v, v, v):
        for scope in ("LR", "L", "R", "RL"):
            for force in (False, True):
                yield {"op": "zdec", "ch": (a, b), "lg": (c_, d), "scope": scope, "force": force}


Z_OPS = [("zgl", 4), ("zat", 4), ("zren", 8)]


def gen_zcases(tier, seed):
    rng = rng_for(seed, "eng-refresh")
    dec = list(z_decision_cases())
    if tier == "quick":
        rng.shuffle(dec)
        dec = dec[:len(dec) // 4]
    unit = 250 if tier == "quick" else 4000
    cases = dec
    for op, w in Z_OPS:
        cases += [z_random_case(rng, op) for _ in range(unit * w)]
    return cases


def exhaustive_pred_cases(rng):
    """every value of one side (all fields) against a random other side: the footprint of needs_sync / is_creation / is_deletion / …"""
    for key in "lr":
        for vals in itertools.product(*[d for _, d in SIDE_FIELDS]):
            c = rand_case(rng, "preds")
            c[key] = {n: v for (n, _), v in zip(SIDE_FIELDS, vals)}
            yield c


def gen_cases(tier, seed):
    rng = rng_for(seed, "eng-decide")
    unit = 1200 if tier == "quick" else 8000
    cases = []
    ex = list(exhaustive_pred_cases(rng))
    if tier == "quick":
        ex = ex[seed % 2::2]
    cases += ex
    for op, w in OPS:
        foc = FOCUS[op]
        n = unit * w
        for i in range(n):
            cases.append(rand_case(rng, op, foc[i % len(foc)]))
    return cases + gen_xcases(tier, seed) + gen_ycases(tier, seed) + gen_zcases(tier, seed)


def run_cases(cases, rig=None):
    """-> (real lines, model lines)"""
    own = rig is None
    rig = rig or Rig()
    try:
        real = [rig.run(c) for c in cases]
    finally:
        if own:
            rig.close()
    model = run_driver(LAYER, [enc_case(c) for c in cases])
    return real, model


def signature(op, line):
    """decision reached: method, code, the leaf calls"""
    parts = line.split(" | ")
    if len(parts) < 3:
        return op + ":" + line[:4]
    return "%s:%s:%s" % (op, parts[0], parts[1])


def check_engine_tables(res=None, tier="quick", seed=0, verbose=False):
    """runs the tie; -> (n_cases, disagreements).  Fills res.coverage['engine_tables'] when a Result is given."""
    t0 = _time.time()
    cases = gen_cases(tier, seed)
    real, model = run_cases(cases)
    bad = []
    hist = collections.Counter()
    per_op = collections.Counter()
    for c, r, m in zip(cases, real, model):
        per_op[c["op"]] += 1
        hist[signature(c["op"], m)] += 1
        if r != m:
            bad.append({"case": describe_case(c), "model": m, "real": r})
    distinct = len({enc_case(c) for c in cases})
    info = {"cases": len(cases), "distinct_cases": distinct, "disagreements": len(bad), "per_method": dict(per_op),
            "decisions_reached": len(hist),
            "coverage_note": "abstract space: %d sides, %.3g entries, %.3g oracles; sampled %d distinct (entry, oracle, method) cases: the predicates "
                             "exhaustively per side, the methods by focused random sampling" % (SPACE_SIDE, SPACE_ENTRY, SPACE_ORACLE, distinct),
            "histogram_top": dict(hist.most_common(40)), "wall_s": round(_time.time() - t0, 1),
            "fingerprints": fingerprints(ENG_FP)}
    if res is not None:
        res.coverage["engine_tables"] = info
    if verbose:
        print("engine decision tables: %d cases (%d distinct), %d decisions reached, %d disagreements, %.1fs"
              % (len(cases), distinct, len(hist), len(bad), info["wall_s"]))
        print("  per method: " + ", ".join("%s=%d" % kv for kv in sorted(per_op.items())))
        print("  " + info["coverage_note"])
        print("  histogram of decisions (method:code:leaf calls), top 60 of %d:" % len(hist))
        for k, v in hist.most_common(60):
            print("    %7d  %s" % (v, k))
        for b in bad[:5]:
            print("  DISAGREEMENT %s\n      model: %s\n      real : %s" % (b["case"]["line"], b["model"], b["real"]))
            print("      entry: %s" % json.dumps({k: b["case"][k] for k in ("method", "changed_side", "LOCAL", "REMOTE", "ignored", "priority")}))
    return len(cases), bad


# ---------------------------------------------------------------------------------------------------------------
# the kernel-checked witnesses of Props/Engine.lean replayed on the REAL methods, and the engine histories that exhibit them

QUIET = dict(trL="p", trR="p", inRoot="T", nameConfl="F", parentConfl="F", rdc="F", delCreate="F", delRename="F", **{"del": "o"},
             kidsNeedSync="F", remaining="F", dl="o", up="o", childConfl="F", disjoint="F", mkd="o", cr="o", ren="o", rcEnt="F",
             rcNeedsSync="F", rcDelExists="F", fixFnf="F", hcTemp="F", revOtherL="F", revOtherR="F", revInfoL="n", revInfoR="n",
             revTrL="F", revTrR="F")
_S = lambda t: {"oid": t[0], "p": t[1], "h": t[2], "exs": t[3:5], "ot": t[5], "ch": t[6], "fs": t[7]}
W_TOMB_MOVED, W_NEW_FILE, W_NEW_DIR, W_SYNCED, W_BLANK = "Tdet-fTF", "Tcce-fTF", "Tcne-dTF", "Teee-fFF", "Fnnu-fFF"


def _wcase(op, side, l, r, ign="n", prio=0, **orc):
    return {"op": op, "side": side, "l": _S(l), "r": _S(r), "ord": "T", "ign": ign, "prio": prio, "o": dict(QUIET, **orc), "pc": 0}


WITNESSES = [
    ("delete_beats_pending_create_when_moved_out", _wcase("embrace", "L", W_TOMB_MOVED, W_NEW_FILE, trR="n", inRoot="F"),
     lambda out: "delR" in out.split(" | ")[1].split(",")),
    ("discarded_embrace_can_delete", _wcase("embrace", "L", W_TOMB_MOVED, W_SYNCED, ign="d", trR="n", inRoot="F"),
     lambda out: "delR" in out.split(" | ")[1].split(",")),
    ("mkdir_exists_error_is_finished", _wcase("sync", "L", W_NEW_DIR, W_BLANK, mkd="x"),
     lambda out: out.startswith("T | cd,mkR,finL | Tcne-dFF Fnnu-fFF")),
    ("rename_fix_called_twice", _wcase("rename", "L", "Tdee-fTF", W_SYNCED, prio=10, trR="g", ren="e"),
     lambda out: out.split(" | ")[1] == "rnR,cfR,cfR"),
]


def _zre(l, r, ign, prio, ch, lg):
    return {"l": _S(l), "r": _S(r), "ign": ign, "prio": prio, "ch": ch, "lg": lg}


def _zwit(target):
    """LOCAL renamed a -> b (retry), REMOTE answers CloudFileExistsError, the REMOTE object at the target has been edited"""
    return {"op": "zren", "side": "L", "e": _zre("Tdee-fTF", W_SYNCED, "n", 10, (5, 0), (5, 5)), "cf": target, "o": dict(QUIET, trR="g", ren="e"),
            "pc": 0, "probes": ("ssf", "osf"), "cprobes": ("ssf", "osf"), "pid": (False, False)}


WITNESSES += [
    # part 5 (section 16): the entry of the confinement defect — the fixed `sync` splits, nothing is written
    ("pre_fix_sync_writes_peer_that_left", _wcase("sync", "L", "Tede-fTF", "Tdee-fFF", trL="n", trR="p"),
     lambda out: out.startswith("F | split | ")),
    # part 4 (Props/Engine.lean section 15)
    ("rename_over_deletes_unseen_edit_when_unstamped", _zwit(_zre(W_SYNCED, W_SYNCED, "n", 0, (0, 0), (0, 0))),
     lambda out: out.split(" | ")[1:3] == ["rnR,doR", "conflict:renameConflict:LRF:-"]),
    ("rename_over_deletes_edit_of_ignored_entry", _zwit(_zre("Teee-fTF", W_SYNCED, "c", 0, (7, 0), (3, 3))),
     lambda out: out.split(" | ")[1:3] == ["rnR,doR", "conflict:renameConflict:LRF:LR"] and out.split(" | ")[4].split(" ")[1].startswith("Ted")),
    ("restricted_conflict_refresh_is_blind", _zwit(_zre("Fnnt-fTF", W_SYNCED, "n", 0, (5, 0), (3, 3))),
     lambda out: out.split(" | ")[1:3] == ["rnR,cfR,cfR", "conflict:renameConflict:LRF:LR"]),
]


def replay_witnesses():
    """-> [(name, reproduces on the real method, real output, model output)]"""
    cases = [c for _, c, _ in WITNESSES]
    real, model = run_cases(cases)
    return [(n, bool(ok(r)) and r == m, r, m) for (n, _, ok), r, m in zip(WITNESSES, real, model)]


def replay_history_moved_out_delete_beats_rename(flavour="path-path"):
    """REAL ENGINE (harness/engine.py World).  Synced file /a.  LOCAL user moves it out of the root (event taken in), then deletes it
    there; REMOTE user renames /a -> /b meanwhile.  The entry is exactly the shape of `delete_beats_pending_create_when_moved_out`
    (LOCAL: TRASHED, path outside the root, sync_path set; REMOTE: flagged pending FILE creation): the head of embrace_change
    deletes the renamed remote file although the guard of 1492-1494 would have ignored the delete.  The same history inside the
    root (flavour oid-oid: the state keeps the in-root path) ends with /b on both sides.
    -> (engine deleted the renamed remote file, final left tree, final right tree)"""
    import_repo()
    from engine import World, tree_lines
    w = World(flavour)
    try:
        w.user(0, "mkdir", "/outside")
        w.user(0, "create", "/local/a", b"v1")
        if w.run_to_quiet() is None:
            return None, None, None
        n0 = len(w.calls)
        w.user(0, "rename", "/local/a", "/outside/a")
        w.step("L")
        w.user(0, "delete", "/outside/a")
        w.user(1, "rename", "/remote/a", "/remote/b")
        for x in "LRS":
            w.step(x)
        w.run_to_quiet(cap=200)
        deleted = any(c.method == "delete" and c.side == 1 for c in w.engine_calls(n0))
        return deleted, tree_lines(w.tree(0)), tree_lines(w.tree(1))
    finally:
        w.close()


def replay_history_mkdir_none(flavour="oid-oid-ci"):
    """REAL ENGINE.  REMOTE user creates FILE /a, LOCAL user makes FOLDER /a; the local event is synced before the remote one is taken
    in: `mkdirs` raises CloudFileExistsError, `mkdir_synced` returns None and the step is FINISHED (the folder's flag is cleared).
    The engine recovers here only because the remote file's own event arrives later and its conflict handling re-flags the folder.
    -> (mkdir_synced returned None and the step reported progress, converged in the end)"""
    import_repo()
    from engine import World, trees_converged
    import cloudsync.sync.manager as mg
    w = World(flavour)
    rets = []
    orig = mg.SyncManager.mkdir_synced

    def wrap(self, changed, sync, tp):
        r = orig(self, changed, sync, tp)
        rets.append(r)
        return r
    mg.SyncManager.mkdir_synced = wrap
    try:
        w.run_to_quiet()
        w.user(1, "create", "/remote/a", b"remote-file")
        w.user(0, "mkdir", "/local/a")
        for x in "LSS":
            w.step(x)
        q = w.run_to_quiet(cap=300)
        return (None in rets), q is not None and trees_converged(w.tree(0), w.tree(1))
    finally:
        mg.SyncManager.mkdir_synced = orig
        w.close()


# ---------------------------------------------------------------------------------------------------------------
# part 4, engine level: RENAME-OVER histories on the REAL engine (harness/engine.py World) with every `SyncEntry.get_latest` call traced.
# One side deletes b and renames a -> b; the other side edits b concurrently (before or after, never taken in first); a sync step runs
# BETWEEN the intake of the two sides (partial-intake schedules).  Two checks per run:
#   (1) every traced call is compared with the model: the (sides, force) of its call site against `Site.scope`, and the per-side
#       decision to re-read + the new `_last_gotten` marks against `getLatest` on the same stamps (driver ops zsite / zdec);
#   (2) the outcome: content a user wrote and no user removed must still exist on some side when the engine is quiet.

def refresh_scheds(side):
    me, ot = "LR"[side], "LR"[1 - side]
    return [(me + "S", "S"), (me + "S", "SS"), (me + "SS", "S"), (me, "S"), (me + "S", ""), (me + "S", ot + "S"), (me + "S" + me, "S"),
            ("S" + me + "S", ot)]


def refresh_history_specs(tier, seed):
    import_repo()
    from engine import FLAVOURS
    specs = []
    for fl in FLAVOURS:
        for side in (0, 1):
            for order in ("after", "before"):
                for i, sm in enumerate(refresh_scheds(side)):
                    specs.append({"flavour": fl, "side": side, "order": order, "sched": sm, "i": i})
    if tier == "quick":
        # every (flavour, side) with the plain partial-intake schedule, the other schedules rotating with the seed
        specs = [s for s in specs if (s["order"] == "after" and s["i"] == 0) or (s["i"] + (s["order"] == "before") * 3) % 8 == (seed + 1) % 8]
    return specs


def _site_of(frame, ent, force):
    who = frame.f_code.co_name
    if who == "pre_sync":
        return "preSync", "-"
    if who == "handle_rename":
        if ent is not frame.f_locals.get("sync"):
            return "renameConflict", "-"
        return ("renameRetry" if ent.priority <= 0 else "renameFixFnf"), "-"
    if who == "handle_split_conflict":
        return "splitDefer", "LR"[frame.f_locals["defer_side"]]
    if who == "lookup_creation":
        return "lookupCreation", "-"
    if who == "change":
        return "changeFill", "LR"[frame.f_locals["side"]]
    return "other:" + who, "-"


class GetLatestTrace:
    """class-level trace of the REAL SyncEntry.get_latest / SyncState.unconditionally_get_latest"""
    def __init__(self):
        import cloudsync.sync.state as st
        self.st = st
        self.calls = []
        self.reread = None

    def __enter__(self):
        st = self.st
        self.o_gl, self.o_un = st.SyncEntry.get_latest, st.SyncState.unconditionally_get_latest
        tr = self

        def get_latest(self_, force=False, sides=(0, 1)):
            frame = sys._getframe(1)
            site, sd = _site_of(frame, self_, force)
            before = [(self_[s].changed or 0, self_[s]._last_gotten) for s in (0, 1)]
            outer, tr.reread = tr.reread, []
            try:
                tr.o_gl(self_, force=force, sides=sides)
            finally:
                rr, tr.reread = tr.reread, outer
            tr.calls.append({"site": site, "sd": sd, "sides": "".join("LR"[s] for s in sides), "force": bool(force), "before": before,
                             "reread": "".join("LR"[s] for s in rr), "after": [self_[s]._last_gotten for s in (0, 1)],
                             "entry": str(self_)})

        def uncond(self_, ent, side):
            if tr.reread is not None:
                tr.reread.append(side)
            return tr.o_un(self_, ent, side)
        st.SyncEntry.get_latest = get_latest
        st.SyncState.unconditionally_get_latest = uncond
        return self

    def __exit__(self, *a):
        self.st.SyncEntry.get_latest, self.st.SyncState.unconditionally_get_latest = self.o_gl, self.o_un


def run_refresh_history(spec, keep_trace=True):
    """-> {"valid", "quiet", "alive", "L", "R", "ops", "engine_calls", "trace"}"""
    import_repo()
    from engine import World, tree_lines
    side, o = spec["side"], 1 - spec["side"]
    roots = ("/local", "/remote")
    w = World(spec["flavour"])
    ops = []

    def user(sd, op, *args):
        r = w.user(sd, op, *args)
        ops.append("user %s %s %s%s" % ("LR"[sd], op, " ".join(a.decode() if isinstance(a, bytes) else a for a in args), "" if r is None else "  -> " + str(r)))
        return r

    def steps(xs):
        for x in xs:
            w.step(x)
            ops.append("step " + x)
    with GetLatestTrace() as tr:
        try:
            user(side, "create", roots[side] + "/a", b"content-a")
            user(side, "create", roots[side] + "/b", b"old-b")
            if w.run_to_quiet() is None:
                return {"valid": False, "why": "base did not quiesce"}
            ops.append("run to quiet")
            n0 = len(w.calls)
            tr.calls.clear()
            if spec["order"] == "before":
                wr = user(o, "write", roots[o] + "/b", b"EDIT")
            user(side, "delete", roots[side] + "/b")
            user(side, "rename", roots[side] + "/a", roots[side] + "/b")
            steps(spec["sched"][0])
            if spec["order"] == "after":
                wr = user(o, "write", roots[o] + "/b", b"EDIT")
            if wr is not None:
                # the engine already removed the target: there is no concurrent edit in this run
                return {"valid": False, "why": "target gone before the edit", "trace": list(tr.calls)}
            steps(spec["sched"][1])
            q = w.run_to_quiet(cap=400)
            ops.append("run to quiet" + ("" if q is not None else " (cap hit)"))
            tl, trr = w.tree(0), w.tree(1)
            alive = any(v[1] == b"EDIT" for v in list(tl.values()) + list(trr.values()))
            return {"valid": True, "quiet": q is not None, "alive": alive, "L": tree_lines(tl), "R": tree_lines(trr), "ops": ops,
                    "engine_calls": [c.brief() for c in w.engine_calls(n0)], "trace": list(tr.calls)}
        finally:
            w.close()


def trace_lines(calls):
    """driver lines for the traced calls -> [(line, expected answer, call)]"""
    out = []
    for c in calls:
        vals = sorted({v for pair in c["before"] for v in pair if v} | {v for v in c["after"] if v})
        rank = {0: 0}
        rank.update({v: i + 1 for i, v in enumerate(vals)})
        r = lambda v: rank[v or 0]
        (chl, lgl), (chr_, lgr) = c["before"]
        out.append(("zdec %d %d %d %d %s %s" % (r(chl), r(chr_), r(lgl), r(lgr), c["sides"], "T" if c["force"] else "F"),
                    "%s | %d %d" % (c["reread"] or "-", r(c["after"][0]), r(c["after"][1])), c))
        if not c["site"].startswith("other:"):
            out.append(("zsite %s %s" % (c["site"], c["sd"]), "%s %s" % (c["sides"], "T" if c["force"] else "F"), c))
    return out


def check_refresh_histories(tier="quick", seed=0, verbose=False):
    """-> info dict: runs, valid, lost (concrete replays), trace disagreements"""
    t0 = _time.time()
    specs = refresh_history_specs(tier, seed)
    lost, notquiet, lines, sites, valid = [], 0, [], collections.Counter(), 0
    for spec in specs:
        r = run_refresh_history(spec)
        lines += trace_lines(r.get("trace", []))
        for c in r.get("trace", []):
            sites["%s:%s%s:%s" % (c["site"] + (c["sd"] if c["sd"] != "-" else ""), c["sides"], "T" if c["force"] else "F", c["reread"] or "-")] += 1
        if not r["valid"]:
            continue
        valid += 1
        if not r["quiet"]:
            notquiet += 1
        elif not r["alive"]:
            lost.append({"history": "rename-over with a concurrent edit of the target", "spec": spec,
                         "oracle": "the content EDIT written by a user and removed by no user exists on neither side at quiescence",
                         "operations": r["ops"], "final_LOCAL": r["L"], "final_REMOTE": r["R"], "engine_calls": r["engine_calls"],
                         "get_latest_trace": r["trace"],
                         "rerun": "python harness/eng_decide.py --history '%s'" % json.dumps(spec)})
    uniq = {}
    for line, want, c in lines:
        uniq.setdefault((line, want), c)
    keys = list(uniq)
    got = run_driver(LAYER, [k[0] for k in keys]) if keys else []
    bad = [{"line": k[0], "real": k[1], "model": g, "call": uniq[k]} for k, g in zip(keys, got) if g != k[1]]
    info = {"runs": len(specs), "valid_runs": valid, "not_quiet": notquiet, "lost_edits": len(lost), "traced_calls": len(lines),
            "distinct_trace_checks": len(keys), "trace_disagreements": len(bad), "call_sites_seen": dict(sites.most_common(30)),
            "wall_s": round(_time.time() - t0, 1)}
    if verbose:
        print("refresh histories: %d runs (%d with a concurrent edit), %d lost edits, %d not quiet; %d traced get_latest calls, %d distinct checks, "
              "%d disagreements, %.1fs" % (len(specs), valid, len(lost), notquiet, len(lines), len(keys), len(bad), info["wall_s"]))
        for k, v in sites.most_common(30):
            print("    %6d  %s" % (v, k))
        for b in bad[:5]:
            print("  TRACE DISAGREEMENT %s\n      model: %s\n      real : %s\n      %s" % (b["line"], b["model"], b["real"], b["call"]["entry"]))
        for l in lost[:3]:
            print("  LOST EDIT %s\n      L=%s R=%s" % (l["spec"], l["final_LOCAL"], l["final_REMOTE"]))
    return info, lost, bad


def attach(res, tier, seed, proof_broken=None):
    """For the engine-level checks (C01-C04): call at the end of run().  Audits the ENG theorems, runs the decision-table tie
    and records both in the evidence (`coverage['engine_tables']`, counted into obligations/discharged/theorems).  A
    disagreement between a real method and its Lean decision table, or an ENG theorem that no longer checks, is reported as a
    violation of the calling property with the concrete abstract entry (`no-failing-input-found`: the tie shows WHERE the
    code left the proved tables, not a violating history)."""
    aud = audit(PID)
    n, bad = check_engine_tables(res, tier, seed)
    info = res.coverage["engine_tables"]
    info.update({"obligations": aud["obligations"], "discharged": aud["discharged"], "proof_failures": aud["failures"]})
    for k in ("obligations", "discharged"):
        if isinstance(res.coverage.get(k), int):
            res.coverage[k] += aud[k]
    if isinstance(res.coverage.get("theorems"), list):
        res.coverage["theorems"] = res.coverage["theorems"] + aud["theorems"]
    res.coverage["disagreements_checked"] = res.coverage.get("disagreements_checked", 0) + n
    res.assumptions.append("engine decision tables (Model/Engine.lean): abstraction of a sync entry to relations/flags; the transfer leaves "
                           "(download/upload/create/mkdir) and cross-entry look-ups are oracle inputs; tied to the real methods by differential "
                           "execution on %d sampled (entry, oracle, method) cases" % n)
    lost, tbad = [], []
    if res.pid == "C02":
        # part 4: rename-over histories on the real engine, every get_latest call traced against the model's refresh scopes;
        # the outcome oracle (no user-written content vanishes) is C02's, so the concrete run is reported there
        hinfo, lost, tbad = check_refresh_histories(tier, seed)
        info["refresh_histories"] = hinfo
        res.coverage["disagreements_checked"] += hinfo["distinct_trace_checks"]
    if lost:
        res.violation({"property": res.pid, "kind": "the engine destroyed content it had not seen: a rename-over history with a concurrent edit of the "
                                                     "target loses the edit (ENG refresh-scope family)",
                       "lost_edits": len(lost), "run": lost[0], "other_runs": [l["spec"] for l in lost[1:20]],
                       "refresh_trace_disagreements": [{k: b[k] for k in ("line", "real", "model")} for b in tbad[:5]],
                       "decision_table_disagreements": len(bad), "first": bad[:3]}, no_input=False)
    elif bad or tbad:
        res.violation({"property": res.pid, "kind": "a real engine method differs from its Lean decision table (ENG tie)",
                       "disagreements": len(bad) + len(tbad), "first": bad[:5], "refresh_trace": tbad[:5]}, no_input=True)
    elif aud["failures"]:
        res.violation({"property": res.pid, "kind": "ENG proof obligation no longer checks", "broken": aud["failures"]}, no_input=True)
    return n, bad


def selftest(argv):
    import argparse
    ap = argparse.ArgumentParser()
    ap.add_argument("--selftest", action="store_true")
    ap.add_argument("--tier", default="quick", choices=["quick", "thorough"])
    ap.add_argument("--no-audit", action="store_true")
    ap.add_argument("--case", default=None, help="replay one case line (as printed in a DISAGREEMENT / replay file)")
    ap.add_argument("--history", default=None, help="re-run one refresh history (the JSON `spec` of a LOST EDIT replay)")
    args = ap.parse_args(argv)
    seed = seed_from_env()
    ok, log, secs = lean_build()
    if not ok:
        print("HARNESS-ERROR ENG: lake build failed\n" + log[-3000:])
        return 2
    if args.history:
        r = run_refresh_history(json.loads(args.history))
        print(json.dumps(r, indent=1, default=str))
        return 0 if (not r["valid"] or (r["quiet"] and r["alive"])) else 1
    if args.case:
        c = dec_case(args.case)
        real, model = run_cases([c])
        print(json.dumps(describe_case(c), indent=1))
        print("model: " + model[0])
        print("real : " + real[0])
        return 0 if real[0] == model[0] else 1
    res = Result(PID, args.tier, seed)
    res.coverage.update({"checker_cmd": "cd lean && lake build Csverif driver && lake env lean <generated #print axioms file for ENG>",
                         "trusted_base": list(TRUSTED_BASE), "lean_build_s": round(secs, 1)})
    broken = []
    if not args.no_audit:
        aud = audit(PID)
        res.coverage.update({"obligations": aud["obligations"], "discharged": aud["discharged"], "theorems": aud["theorems"],
                             "axioms_used": sorted({a for v in aud["axioms"].values() for a in v})})
        print("ENG obligations: %d listed, %d discharged, axioms %s" % (aud["obligations"], aud["discharged"], res.coverage["axioms_used"]))
        for f in aud["failures"]:
            print("  PROOF-BROKEN: " + f)
        broken = aud["failures"]
    n, bad = check_engine_tables(res, args.tier, seed, verbose=True)
    info = res.coverage["engine_tables"]
    # the Lean witnesses on the real methods + the engine histories that exhibit them (shapes, not violations of C01-C04)
    shapes = []
    for name, ok_, r, m in replay_witnesses():
        print("SHAPE witness %s: %s on the real method  [%s]" % (name, "reproduces" if ok_ else "DOES NOT reproduce", r))
        shapes.append({"witness": name, "reproduces": ok_, "real": r, "model": m})
        if not ok_:
            res.notes.append("witness %s no longer reproduces on the real method (stale)" % name)
    d, tl, tr = replay_history_moved_out_delete_beats_rename()
    print("SHAPE history moved-out+delete vs remote rename (path-path): engine deleted the renamed remote file: %s  L=%s R=%s" % (d, tl, tr))
    mn, conv = replay_history_mkdir_none()
    print("SHAPE history folder-vs-file clash (oid-oid-ci): mkdir_synced returned None and the step was FINISHED: %s; converged later: %s" % (mn, conv))
    shapes += [{"history": "moved-out+delete vs remote rename", "engine_deleted_renamed_file": d, "L": tl, "R": tr},
               {"history": "mkdir against an unknown remote file", "mkdir_returned_none": mn, "converged": conv}]
    res.coverage["shapes"] = shapes
    hinfo, lost, tbad = check_refresh_histories(args.tier, seed, verbose=True)
    info["refresh_histories"] = hinfo
    bad = bad + [{"case": {"line": b["line"]}, "model": b["model"], "real": b["real"], "call": b["call"]} for b in tbad] + \
        [{"case": {"line": "history " + json.dumps(l["spec"])}, "model": "the edit survives", "real": "the edit is lost", "run": l} for l in lost]
    res.coverage.update({"evaluations": n, "programs": n, "distinct_nontrivial": info["distinct_cases"],
                         "rule": "distinct (method, abstract entry, oracle) cases; every case runs a real method on a real SyncEntry",
                         "disagreements_checked": n, "samples": [describe_case(gen_cases("quick", seed)[-1])],
                         "fingerprints": info["fingerprints"]})
    if bad:
        res.violation({"property": PID, "kind": "a real engine method differs from its Lean decision table", "disagreements": len(bad),
                       "first": bad[:50]}, no_input=False)
    elif broken:
        res.violation({"property": PID, "kind": "proof obligation no longer checks", "broken": broken}, no_input=True)
    else:
        print("ENG selftest: ok (%d cases, 0 disagreements)" % n)
    return res.finish()


if __name__ == "__main__":
    sys.exit(selftest(sys.argv[1:]))
