import os, sys
sys.path.insert(0, os.path.dirname(os.path.abspath(__file__)))
from engine_checks import *  # noqa
import eng_decide
import c04_objects


def run(res, tier, seed, proof_broken, replay):
    if replay and c04_objects.replay_file(res, replay if os.path.isabs(replay) else os.path.join(VERIF, replay)):
        return
    run_c04(res, tier, seed, proof_broken, replay)
    # the object-identity family: different OBJECTS with related PATHS (Model/Spec/ObjTree.lean, driver layer monc04)
    c04_objects.attach(res, tier, seed, proof_broken)
    # the engine's own decisions: Lean decision tables (Props/Engine.lean) tied to the real methods by differential execution
    before = len(res.violations)
    broken = list(proof_broken)
    eng_decide.attach(res, tier, seed, broken)
    finish_engine_check(res, tier, seed, broken, before)


if __name__ == "__main__":
    standard_main("C04", run)
