"""C17 — the starvation family: one entry whose provider call fails persistently, healthy entries around it.

For EVERY exception class of cloudsync/exceptions.py (listed from the source through the C10 extractor
tools/gen_exc_table.py, so that a new class is picked up) plus a generic Exception, and for every kind of provider call the
sync path issues (create / upload / mkdir / rename / delete on the destination, download on the source), one entry's call is
made to raise that class on every attempt, while 2-4 healthy changes — older and younger than the failing one, at the same
and at other priorities — are pending.  Besides injected faults, the mock providers' own quota (`_set_quota`:
CloudOutOfSpaceError) and lock (`_locked_for_test`: CloudTemporaryError) faults are used.

The real engine (CloudSync over two MockProviders, harness/engine.py World: virtual clock, ordered changeset, managers
stepped by hand) is run; every call of the real SyncManager.do is observed (clock, changeset before/after, the entry
state.change handed out, whether the call ended with the backoff request) and the trace is judged by the Lean monitor
(Model/SchedLoop.lean `Obs.check` / `waitOf`, driver layer `sched`, commands obs / wait) with the definitions the loop
theorems are about:
  pick   the entry attempted is `change` of the changeset,
  stuck  an attempt that raised left the entry pending without lowering its rank  (= not ProgressOnFailure),
  rank   the potential of every waiting eligible entry drops with every attempt that is not a requeue,
  wait   every healthy entry is attempted before the busy iterations exceed potential + arrivals + plain requeues
         (the bound of `loop_no_starvation` / `loop_no_starvation_failures`).
"""
import atexit
import ast
import os
import shutil
import sys
import tempfile
from fractions import Fraction as F

sys.path.insert(0, os.path.dirname(os.path.abspath(__file__)))
sys.path.insert(0, os.path.join(os.path.dirname(os.path.dirname(os.path.abspath(__file__))), "tools"))
from common import *  # noqa

# every engine instance makes (and removes) a temp directory; rmdir under /tmp is slow on this machine
if os.path.isdir("/dev/shm") and os.access("/dev/shm", os.W_OK) and not os.environ.get("C17_KEEP_TMP"):
    _TMP = tempfile.mkdtemp(prefix="c17_", dir="/dev/shm")
    tempfile.tempdir = _TMP
    atexit.register(shutil.rmtree, _TMP, True)

KINDS = ("create", "upload", "mkdir", "rename", "delete", "download")
GENERIC = "RuntimeError"


def exception_classes():
    """names of every class defined in cloudsync/exceptions.py (source order) + a generic Exception; second value: names the
    C10/C17 class map does not know (reported, the case is still run)"""
    import gen_exc_table
    with open(os.path.join(REPO, "cloudsync/exceptions.py"), encoding="utf8") as f:
        tree = ast.parse(f.read())
    names = [n.name for n in tree.body if isinstance(n, ast.ClassDef)]
    unknown = [n for n in names if n not in gen_exc_table.CLASS]
    return names + [GENERIC], unknown


def fr(x):
    x = F(x)
    return "%d/%d" % (x.numerator, x.denominator)


def opt(x):
    return "~" if x is None or x is False and False else fr(x)


def rows(snap):
    return " ; ".join("%d %s %s %s" % (i, fr(p), "~" if lc is None else fr(lc), "~" if rc is None else fr(rc))
                      for i, p, lc, rc, _n in snap)


def gen_case(rng, kind, cname, mode="inject"):
    """layout of one scenario (everything a replay needs)"""
    n_old = rng.choice([0, 1, 1, 2])
    n_young = rng.choice([1, 2, 2, 3])
    while n_old + n_young < 2:
        n_young += 1
    while n_old + n_young > 4:
        n_old -= 1
    prios = [0, 0, 0, 1, 2, -1]
    healthy = [("H%d" % (i + 1), rng.choice(prios)) for i in range(n_old + n_young)]
    return {"kind": kind, "class": cname, "mode": mode, "age": rng.choice([0.5, 2.0, 2.0, 4.0]),
            "fail_priority": rng.choice([0, 0, 0, 1, -1]), "older": healthy[:n_old], "younger": healthy[n_old:],
            "gap": rng.choice([0.25, 0.5, 1.0]), "rounds": 36}


def run_case(case):
    """runs one scenario on the real engine; returns (driver lines, healthy entry ids by name, trace for the replay file)"""
    import engine as E
    import_repo()
    import cloudsync.exceptions as ex
    kind, cname, mode = case["kind"], case["class"], case["mode"]
    cls = getattr(ex, cname, None) or RuntimeError
    prio = dict(case["older"] + case["younger"])
    prio["F"] = prio["F2"] = case["fail_priority"]
    w = E.World("oid-oid", storage=None, aging=case["age"],
                prioritize=lambda side, path: prio.get(os.path.basename(path or ""), 0))
    try:
        for side, root in enumerate(w.roots):
            if not w.provs[side].info_path(root):
                w.user(side, "mkdir", root)
        if kind in ("upload", "rename", "delete"):
            w.user(0, "create", "/local/F", b"v1")
        for _ in range(40):
            for x in "LRS":
                w.step(x, 0.5)
            if not w.busy():
                break
        if w.busy():
            raise HarnessError("starvation family: setup did not settle (%s)" % (case,))
        st = w.cs.state
        ids, names = {}, {}

        def eid(e):
            k = ids.setdefault(id(e), len(ids))
            nm = os.path.basename(e[0].path or e[1].path or "")
            if nm:
                names[k] = nm
            return k
        cur = {}
        orig_change = st.change

        def change(age_):
            cur["earlier"] = w.clock.now - age_
            r = orig_change(age_)
            # the table the selection saw: after the fill-in loop at the head of change() (paths, hence priorities, of
            # id-style events are filled in there), before any sync work
            cur["before"] = snap()
            cur["a"] = None if r is None else eid(r)
            return r
        st.change = change

        def snap():
            return [(eid(e), e.priority, e[0].changed or None, e[1].changed or None, names.get(eid(e)))
                    for e in st._changeset_storage]
        # the fault
        fside = 0 if kind == "download" else 1
        if mode == "inject":
            def hook(side, method, args):
                if side != fside or method != kind:
                    return
                p = w.provs[side]
                if method in ("create", "mkdir"):
                    path = args[0]
                else:
                    o = p._mock_fs.get(args[0])
                    path = o.path if o else None
                if path and os.path.basename(path).startswith("F"):
                    raise cls("injected")
            w.fault_hook = hook
        elif mode == "quota":
            w.provs[1]._set_quota(w.provs[1]._total_size + 600)        # room for the small files, never for the big one
        elif mode == "lock":
            w.provs[1]._locked_for_test.add("/remote/F")
        big = b"x" * 4096 if mode == "quota" else b"x" * 64
        for nm, _p in case["older"]:
            w.user(0, "create", "/local/" + nm, b"ok")
            w.step("L", case["gap"])
        if kind in ("create", "download"):
            w.user(0, "create", "/local/F", big)
        elif kind == "upload":
            w.user(0, "write", "/local/F", big)
        elif kind == "mkdir":
            w.user(0, "mkdir", "/local/F")
        elif kind == "rename":
            w.user(0, "rename", "/local/F", "/local/F2")
        elif kind == "delete":
            w.user(0, "delete", "/local/F")
        w.step("L", case["gap"])
        for nm, _p in case["younger"]:
            w.user(0, "create", "/local/" + nm, b"ok")
            w.step("L", case["gap"])
        lines, trace, trace_obs = ["obsreset"], [], []
        for _k in range(case["rounds"]):
            w.step("L", 0.25)
            w.step("R", 0.25)
            cur.clear()
            r = w.step("S", 0.5)
            if "before" not in cur:
                trace.append({"t": w.clock.now, "attempted": "do() did not reach change()", "result": r})
                continue
            after = snap()
            lines.append("obs %s %s %s | %s | %s" % (fr(cur["earlier"]), "~" if cur["a"] is None else cur["a"],
                                                     enc_bool(bool(r)), rows(cur["before"]), rows(after)))
            trace.append({"t": w.clock.now, "attempted": None if cur["a"] is None else names.get(cur["a"], cur["a"]),
                          "result": r, "pending_before": [(n or i, p, lc, rc) for i, p, lc, rc, n in cur["before"]],
                          "pending_after": [(n or i, p, lc, rc) for i, p, lc, rc, n in after]})
            trace_obs.append(trace[-1])
        hnames = [nm for nm, _p in case["older"] + case["younger"]]
        hids = {nm: k for k, nm in names.items() if nm in hnames}
        synced = {nm: bool(w.provs[1].info_path("/remote/" + nm)) for nm in hnames}
        fault_bit = any(t.get("result") for t in trace)
        for nm in hnames:
            if nm in hids:
                lines.append("wait %d" % hids[nm])
        return lines, [nm for nm in hnames if nm in hids], {"trace": trace, "trace_obs": trace_obs, "healthy_synced": synced, "fault_raised_out_of_do": fault_bit,
                                                           "missing_entries": [nm for nm in hnames if nm not in hids]}
    finally:
        w.close()


def judge(case, lines, hnames, info, out):
    """out: driver answers for `lines`.  Returns a failure dict or None"""
    what = {"pick": "the entry attempted is not the one the selection law gives for the changeset",
            "stuck": "an attempt that ended in an exception left the entry pending with the same priority: the failure did not defer it "
                     "(ProgressOnFailure fails), so it is handed out again ahead of every younger change",
            "dropped": "an attempt that ended in an exception removed the entry from the changeset: the failed change is dropped instead of "
                       "being deferred and re-attempted",
            "rank": "the potential of a waiting eligible entry did not drop although the attempt was not a requeue"}
    first_bad, k = None, 0
    for ln, o in zip(lines, out):
        if ln.startswith("obs "):
            if o.startswith("bad") and first_bad is None:
                first_bad = {"iteration": k, "monitor": o, "text": "; ".join(what.get(t, t) for t in o.split()[2:]),
                             "observation": info["trace_obs"][k] if k < len(info["trace_obs"]) else None}
            k += 1
    waits = [o for ln, o in zip(lines, out) if ln.startswith("wait ")]
    starved, inconclusive = None, None
    for nm, o in zip(hnames, waits):
        el, att, busy, bound = o.split()
        if el == "T" and int(busy) > int(bound) and starved is None:
            starved = (nm, int(busy), int(bound), att, o)
        if el == "T" and att == "F" and int(busy) <= int(bound):
            inconclusive = (nm, o)
    if starved:
        nm, busy, bound, att, o = starved
        return {"statement": "loop_no_starvation: healthy entry %s was pending and eligible, yet %d iterations attempted other entries %s; "
                             "potential + arrivals + plain requeues allow at most %d%s"
                             % (nm, busy, "before it" if att == "T" else "and it was never attempted (synced on the other side: %s)"
                                % info["healthy_synced"].get(nm), bound,
                                " — cause, at iteration %d: %s" % (first_bad["iteration"], first_bad["text"]) if first_bad else ""),
                "monitor": "wait: " + o + (" | " + first_bad["monitor"] if first_bad else ""),
                "iteration": first_bad["iteration"] if first_bad else None, "observation": first_bad["observation"] if first_bad else None}
    if first_bad:
        return {"statement": "loop monitor: " + first_bad["text"], "iteration": first_bad["iteration"], "monitor": first_bad["monitor"],
                "observation": first_bad["observation"]}
    for nm in info["missing_entries"]:
        return {"statement": "starvation family: healthy file %s never became an entry" % nm}
    if inconclusive:
        return {"statement": "inconclusive", "entry": inconclusive[0], "monitor": inconclusive[1]}
    return None


def family(rng, tier):
    """the cases of one run: every class x every call kind (injected) + the mock's own quota and lock faults"""
    classes, unknown = exception_classes()
    cases = []
    reps = 1 if tier == "quick" else 4
    for _ in range(reps):
        for kind in KINDS:
            for c in classes:
                cases.append(gen_case(rng, kind, c))
        for kind in ("create", "upload"):
            cases.append(gen_case(rng, kind, "CloudOutOfSpaceError", "quota"))
        for kind in ("create", "upload", "delete"):
            cases.append(gen_case(rng, kind, "CloudTemporaryError", "lock"))
    return cases, classes, unknown


def run_family(cases):
    """returns (number of driver lines, failures [(case, failure, info)], histogram)"""
    all_lines, meta = [], []
    for case in cases:
        lines, hnames, info = run_case(case)
        meta.append((case, len(all_lines), len(lines), hnames, info))
        all_lines += lines
    out = run_driver("sched", all_lines)
    fails = []
    hist = {"cases": len(cases), "observations": 0, "raised_steps": 0, "idle": 0, "done": 0, "punt": 0, "keep": 0,
            "cases_fault_reached_do": 0, "cases_fault_absorbed_by_inner_handler": 0, "healthy_waits_checked": 0, "inconclusive": 0,
            "max_busy_before_attempt": 0}
    for case, a, n, hnames, info in meta:
        lines, o = all_lines[a:a + n], out[a:a + n]
        for ln, x in zip(lines, o):
            if ln.startswith("obs "):
                hist["observations"] += 1
                kind = x.split()[1]
                hist[kind] += 1
                if ln.split()[3] == "T":
                    hist["raised_steps"] += 1
            elif ln.startswith("wait "):
                hist["healthy_waits_checked"] += 1
                hist["max_busy_before_attempt"] = max(hist["max_busy_before_attempt"], int(x.split()[2]))
        hist["cases_fault_reached_do" if info["fault_raised_out_of_do"] else "cases_fault_absorbed_by_inner_handler"] += 1
        f = judge(case, lines, hnames, info, o)
        if f and f["statement"] == "inconclusive":
            hist["inconclusive"] += 1
            continue
        if f:
            fails.append((case, f, info))
    return len(all_lines), fails, hist


def replay_echo_variant(age=4.0):
    """the two-sided-ageing finding in the shape a reviewer observed on HEAD: the *old* flag is the echo event of the engine's own
    earlier write.  A file is created and synced; the echo of the engine's create marks the remote side changed; the user edits
    the file while that echo is still ageing; as soon as the echo has aged, change() hands the entry out and the fresh edit is
    uploaded before it has aged.  Same root cause as the state-level witness (eligibility is a disjunction over the sides)."""
    import engine as E
    w = E.World("oid-oid", storage=None, aging=age)
    out = {"reproduces": False, "age": age}
    try:
        for side, root in enumerate(w.roots):
            if not w.provs[side].info_path(root):
                w.user(side, "mkdir", root)
        for _ in range(10):
            for x in "LRS":
                w.step(x, 0.25)
        st = w.cs.state
        picks = []
        orig = st.change

        def change(a):
            r = orig(a)
            if r is not None:
                picks.append({"t": w.clock.now, "local_changed": r[0].changed, "remote_changed": r[1].changed, "priority": r.priority})
            return r
        st.change = change
        w.clock.now = 1000.0
        w.user(0, "create", "/local/f", b"v1")
        edit_t, n0 = None, len(w.calls)
        uploads = []
        while w.clock.now < 1000.0 + 4 * age:
            if edit_t is None and any(c.by == "engine" and c.method == "create" for c in w.calls) and \
                    any(p["remote_changed"] for p in picks) is False and w.clock.now >= 1000.0 + 1.75 * age:
                w.user(0, "write", "/local/f", b"v2-edited")
                edit_t = w.clock.now
            for x in "LRS":
                w.step(x, 0.25)
            for c in w.calls[n0:]:
                if c.by == "engine" and c.method == "upload":
                    uploads.append(c.t)
            n0 = len(w.calls)
        out.update({"user_edit_at": edit_t, "engine_upload_at": uploads[:1], "picks": picks[:4]})
        if edit_t is not None and uploads:
            p = [x for x in picks if abs(x["t"] - uploads[0]) < 1e-9]
            out["seconds_after_edit"] = uploads[0] - edit_t
            out["reproduces"] = bool(p and uploads[0] - edit_t < age and p[0]["priority"] >= 0 and p[0]["local_changed"]
                                     and p[0]["remote_changed"] and uploads[0] - p[0]["local_changed"] < age
                                     and uploads[0] - p[0]["remote_changed"] >= age)
    except Exception as e:  # noqa
        out["note"] = "echo variant not available: %r" % (e,)
    finally:
        w.close()
    return out


# ------------------------------------------------------------------ priorities follow the CURRENT path (engine level)

CLASSES = {"urgent": -1, "slow": 2, "normal": 0, "later": 1}


def app_prioritize(root_len):
    """the application's prioritize: keyed on the top-level folder below the sync root and on the name suffix"""
    def prio(side, path):
        if not path:
            return 0
        if path.endswith(".tmp"):
            return 3
        parts = path.split("/")
        # parts = ["", "local"|"remote", top, ...]
        return CLASSES.get(parts[2], 0) if len(parts) > 2 else 0
    return prio


def gen_prio_case(rng, flavour):
    tops = rng.sample(sorted(CLASSES), 2)
    nkids = rng.randint(1, 4)
    names = ["K%d%s" % (i, rng.choice(["", "", ".tmp"])) for i in range(nkids)]
    return {"flavour": flavour, "from": tops[0], "to": tops[1], "nested": rng.random() < 0.5, "kids": names,
            "age": rng.choice([4.0, 20.0, 100.0]), "edit": rng.sample(names, rng.randint(1, len(names))), "rounds": 30}


def run_prio_case(case):
    """a folder with descendants is moved across priority classes and synced; then descendants (and a control file) are modified
    at their new paths under ageing > 0; every SyncManager.do is observed and judged by the Lean monitor (obs + obscls)"""
    import engine as E
    import_repo()
    prio = app_prioritize(0)
    w = E.World(case["flavour"], storage=None, aging=0.002, prioritize=prio)
    try:
        for side, root in enumerate(w.roots):
            if not w.provs[side].info_path(root):
                w.user(side, "mkdir", root)
        a, b = "/local/" + case["from"], "/local/" + case["to"]
        w.user(0, "mkdir", a)
        w.user(0, "mkdir", b)
        w.user(0, "mkdir", a + "/D")
        sub = a + "/D/E" if case["nested"] else a + "/D"
        if case["nested"]:
            w.user(0, "mkdir", sub)
        for nm in case["kids"]:
            w.user(0, "create", sub + "/" + nm, b"v1")
        w.user(0, "create", b + "/N", b"v1")
        if w.run_to_quiet(cap=600) is None:
            raise HarnessError("priority family: setup did not settle (%s)" % (case,))
        w.user(0, "rename", a + "/D", b + "/D")
        if w.run_to_quiet(cap=600) is None:
            raise HarnessError("priority family: move did not settle (%s)" % (case,))
        newsub = b + "/D/E" if case["nested"] else b + "/D"
        st = w.cs.state
        w.cs.aging = case["age"]
        ids, names = {}, {}

        def eid(e):
            k = ids.setdefault(id(e), len(ids))
            names[k] = e[0].path or e[1].path or ""
            return k

        def snap():
            return [(eid(e), e.priority, e[0].changed or None, e[1].changed or None,
                     min([prio(s_, e[s_].path) for s_ in (0, 1) if e[s_].path] or [0])) for e in st._changeset_storage]
        cur = {}
        orig_change = st.change

        def change(age_):
            cur["earlier"] = w.clock.now - age_
            r = orig_change(age_)
            cur["before"] = snap()
            cur["a"] = None if r is None else eid(r)
            return r
        st.change = change
        for nm in case["edit"]:
            w.user(0, "write", newsub + "/" + nm, b"v2-edited")
        w.user(0, "write", b + "/N", b"v2-edited")
        lines, trace = ["obsreset"], []
        dt = case["age"] / 10.0
        for _k in range(case["rounds"]):
            w.step("L", dt / 4)
            w.step("R", dt / 4)
            cur.clear()
            r = w.step("S", dt / 2)
            if "before" not in cur:
                continue
            after = snap()
            lines.append("obs %s %s %s | %s | %s" % (fr(cur["earlier"]), "~" if cur["a"] is None else cur["a"], enc_bool(bool(r)),
                                                     rows([x[:4] + (None,) for x in cur["before"]]), rows([x[:4] + (None,) for x in after])))
            lines.append("obscls " + " ; ".join("%d %s" % (x[0], fr(x[4])) for x in cur["before"]))
            trace.append({"t": w.clock.now, "now_minus_age": cur["earlier"], "attempted": None if cur["a"] is None else names.get(cur["a"]),
                          "pending": [(names.get(x[0]), "priority=%s" % x[1], "changed=%s/%s" % (x[2], x[3]), "class=%s" % x[4])
                                      for x in cur["before"]]})
        return lines, trace
    finally:
        w.close()


def judge_prio(case, lines, trace, out):
    k = -1
    for ln, o in zip(lines, out):
        if ln.startswith("obs "):
            k += 1
            if o.startswith("bad") and "pick" in o:
                return {"statement": "loop monitor: the entry attempted is not the one the selection law gives", "iteration": k,
                        "monitor": o, "observation": trace[k]}
        elif ln.startswith("obscls") and o.startswith("bad"):
            what = {"stale": "PriorityCurrent: a pending entry's stored priority is not the application's prioritize() of its current path "
                             "(plus punts): a path change — its own or its folder's — did not re-prioritise it",
                    "unaged": "nonneg_class_ages: the entry attempted has every current path in a non-negative class of the application's "
                              "prioritize(), yet no change of it was notified at least `age` ago — it is propagated before it has aged "
                              "(its stored priority is stale)",
                    "classorder": "class_order: an eligible entry of a strictly lower class was passed over"}
            return {"statement": "; ".join(what.get(t, t) for t in o.split()[1:]), "iteration": k, "monitor": o, "observation": trace[k]}
    return None


def prio_family(rng, tier):
    cases = []
    for _ in range(3 if tier == "quick" else 20):
        for flavour in ("oid-oid", "path-path", "oid-path"):
            cases.append(gen_prio_case(rng, flavour))
    return cases


def run_prio_family(cases):
    all_lines, meta = [], []
    for case in cases:
        lines, trace = run_prio_case(case)
        meta.append((case, len(all_lines), len(lines), trace))
        all_lines += lines
    out = run_driver("sched", all_lines)
    fails, nobs = [], 0
    for case, a, n, trace in meta:
        f = judge_prio(case, all_lines[a:a + n], trace, out[a:a + n])
        nobs += len(trace)
        if f:
            fails.append((case, f, trace))
    return len(all_lines), fails, {"cases": len(cases), "observations": nobs, "flavours": sorted({c["flavour"] for c in cases})}
