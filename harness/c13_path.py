"""C13 — path algebra.  Correspondence: Lean `CS.Path` model vs cloudsync.provider.Provider helpers
and CloudSync.translate, exhaustively over a small alphabet plus structured/random long paths.
Search oracle (after a break): the C13 laws as executable predicates on the implementation.

Optional parameters: every helper is exercised with each value of its optional parameters AND with the
parameter omitted (ops ending in `_d`; the model line carries the default of the signature in provider.py:
normalize_path(for_display=False), paths_match(for_display=False), is_subpath(strict=False),
is_subpath_of_root(strict=False)); `None` arguments of is_subpath/is_subpath_of_root/paths_match and nested
list/tuple/None arguments of join are part of the model (isSubpathOpt, isSubpathOfRoot, joinArgs)."""
import itertools
import os
import sys

sys.path.insert(0, os.path.dirname(os.path.abspath(__file__)))
from common import *  # noqa

PID = "C13"
ALPHA = ["/", "\\", "a", "A", "b", ".", " ", "\u00e9", ":"]
CONFIGS = [(True, False, True), (False, False, True), (True, True, True), (False, True, True), (True, False, False)]

FP_SPEC = {"cloudsync/provider.py": ["Provider.__normalize_path_list", "Provider.__strip_path_list", "Provider.join",
                                     "Provider.split", "Provider.normalize_path_separators", "Provider.normalize_path",
                                     "Provider.is_subpath", "Provider.replace_path", "Provider.paths_match",
                                     "Provider.dirname", "Provider.basename",
                                     "Provider.is_subpath_of_root"],
           "cloudsync/cs.py": ["CloudSync.translate"]}


def providers():
    import_repo()
    from cloudsync.providers.mock import MockProvider
    provs = {}
    for cs, win, alt in CONFIGS:
        attrs = {"win_paths": win}
        if not alt:
            attrs["alt_sep"] = None
        cls = type("P_%s%s%s" % (cs, win, alt), (MockProvider,), attrs)
        p = cls(False, cs)
        provs[(cs, win, alt)] = p
    return provs


def of_root(p, root, target, *strict):
    """is_subpath_of_root(target[, strict]) on the real provider with its root path set to `root`"""
    saved = p.__dict__.get("_root_path", None)
    p._root_path = root
    try:
        return p.is_subpath_of_root(target, *strict)
    finally:
        if saved is None:
            p.__dict__.pop("_root_path", None)
        else:
            p._root_path = saved


def cfg_tok(cfg):
    return "".join(enc_bool(x) for x in cfg)


def exc_tok(e):
    if isinstance(e, IndexError):
        return "!Index"
    if isinstance(e, ValueError):
        return "!Value"
    return "!Other:" + type(e).__name__


class TranslateShim:
    """Calls the real, unmodified CloudSync.translate with just the attributes it reads."""
    def __init__(self, provs, roots):
        self.providers = provs
        self.roots = roots


def real_eval(provs, cfg, op, args):
    p = provs[cfg]
    try:
        if op == "normseps":
            return enc_str(p.normalize_path_separators(args[0]))
        if op == "join":
            return enc_str(p.join(*args))
        if op == "split":
            a, b = p.split(args[0])
            return enc_str(a) + " " + enc_str(b)
        if op == "dirname":
            return enc_str(p.dirname(args[0]))
        if op == "basename":
            return enc_str(p.basename(args[0]))
        if op == "normalize":
            return enc_str(p.normalize_path(args[0], args[1]))
        if op == "normalize_kw":
            return enc_str(p.normalize_path(args[0], for_display=args[1]))
        if op == "normalize_d":
            return enc_str(p.normalize_path(args[0]))
        if op == "joinn":
            return enc_str(p.join(*args))
        if op == "issub_d":
            r = p.is_subpath(args[0], args[1])
            return "F" if r is False else enc_str(r)
        if op == "issub_kw":
            r = p.is_subpath(args[0], args[1], strict=args[2])
            return "F" if r is False else enc_str(r)
        if op == "issubopt":
            r = p.is_subpath(args[0], args[1], args[2])
            return "F" if r is False else enc_str(r)
        if op in ("issubroot", "issubroot_d"):
            r = of_root(p, args[0], args[1]) if op == "issubroot_d" else of_root(p, args[0], args[1], args[2])
            return "F" if r is False else enc_str(r)
        if op == "match_d":
            return enc_bool(p.paths_match(args[0], args[1]))
        if op == "match_kw":
            return enc_bool(p.paths_match(args[0], args[1], for_display=args[2]))
        if op == "issub":
            r = p.is_subpath(args[0], args[1], args[2])
            return "F" if r is False else enc_str(r)
        if op == "replace":
            return enc_str(p.replace_path(args[0], args[1], args[2]))
        if op == "match":
            return enc_bool(p.paths_match(args[0], args[1], args[2]))
        if op == "translate":
            from cloudsync.cs import CloudSync
            cfg2, r1, r2, path = args
            shim = TranslateShim((provs[cfg2], p), (r2, r1))   # side 0 = target side, side 1 = source side
            return enc_str(CloudSync.translate(shim, 0, path))
    except Exception as e:  # noqa
        return exc_tok(e)
    raise HarnessError("bad op " + op)


# model op and appended default for the implementation ops that omit / name the optional parameter
MODEL_OP = {"normalize_d": ("normalize", [False]), "normalize_kw": ("normalize", []),
            "issub_d": ("issub", [False]), "issub_kw": ("issub", []),
            "issubroot_d": ("issubroot", [False]),
            "match_d": ("match", [False]), "match_kw": ("match", [])}


def jarg_toks(a):
    if a is None:
        return ["~"]
    if isinstance(a, (list, tuple)):
        out = ["["]
        for x in a:
            out += jarg_toks(x)
        return out + ["]"]
    return [enc_str(a)]


def line_for(cfg, op, args):
    if op == "joinn":
        toks = [cfg_tok(cfg), op]
        for a in args:
            toks += jarg_toks(a)
        return " ".join(toks)
    if op in MODEL_OP:
        op, extra = MODEL_OP[op]
        args = list(args) + extra
    toks = [cfg_tok(cfg), op]
    for a in args:
        if a is None:
            toks.append("~")
        elif isinstance(a, bool):
            toks.append(enc_bool(a))
        elif isinstance(a, tuple):
            toks.append(cfg_tok(a))
        else:
            toks.append(enc_str(a))
    return " ".join(toks)


def strings_upto(n, alpha=ALPHA):
    for k in range(n + 1):
        for t in itertools.product(alpha, repeat=k):
            yield "".join(t)


def structured_paths(rng, count):
    comps = ["a", "A", "b", "a b", ".", "..", "\u00e9", "\u00c9", "a.txt", "B", "ab", "a:", "c:", "x" * 9]
    seps = ["/", "/", "/", "\\", "//", "/\\"]
    out = []
    for _ in range(count):
        n = rng.randint(0, 6)
        s = rng.choice(["", "/", "/", "\\", "//", "c:", "c:/"])
        for i in range(n):
            s += rng.choice(comps)
            if i < n - 1 or rng.random() < 0.2:
                s += rng.choice(seps)
        out.append(s)
    return out


def variants(rng, p):
    """paths related to p: case flips, prefix siblings, children, separators changed"""
    v = [p, p.upper(), p.lower(), p.swapcase(), p + "x", p + "/x", p + "\\x/y", p + "/", p.replace("/", "\\"),
         p + " ", p[:-1] if p else p, p + "/A", "/" + p]
    return rng.sample(v, 4)


def case_pairs(rng, count):
    """pairs (a, b) for the two equality flavours: folder parts differing only by case with equal leaves,
    leaf-only case differences, both, alternate / doubled / trailing separators, the root, relative paths.
    The first entries are fixed (they include the reviewer's example), the rest is drawn."""
    fixed = [("/Docs/x.txt", "/docs/x.txt"), ("/docs/X.txt", "/docs/x.txt"), ("/Docs/X.txt", "/docs/x.txt"),
             ("/a/B/c/leaf", "/a/b/c/leaf"), ("\\Top\\Mid\\leaf", "/top/mid/leaf"), ("/\u00c9t\u00e9/leaf", "/\u00e9t\u00e9/leaf"),
             ("/A", "/a"), ("/A/", "/a"), ("A", "/a"), ("/", "/"), ("/", "//"), ("/", "\\"), ("", "/"), ("/a//B/", "\\A\\b"),
             ("/Docs/x.txt/", "/docs//x.txt"), ("/docs/x.txt", "/docs/x.txt"), ("/Docs", "/Docs/"), ("/D/e/F", "/d/E/f")]
    comps = ["Docs", "a", "B", "Mid", "\u00c9t\u00e9", "x y", "r.d", "Q", "zz", "c:"]
    leaves = ["x.txt", "Leaf", "A", "b", "\u00c9", "n.N", "R e"]

    def flip(t, how):
        return {0: t.lower(), 1: t.upper(), 2: t.swapcase(), 3: t}[how]

    def render(parts, lead, sepk, trail):
        sp = ["/", "\\", "//", "/\\"][sepk]
        return lead + sp.join(parts) + trail

    out = list(fixed)
    for _ in range(count):
        n = rng.randint(0, 4)
        folders = [rng.choice(comps) for _ in range(n)]
        leaf = rng.choice(leaves)
        kind = rng.randint(0, 4)      # 0 folder-only case change, 1 leaf-only, 2 both, 3 none (separators only), 4 other leaf
        f2 = [flip(t, rng.randint(0, 2)) for t in folders] if kind in (0, 2) else list(folders)
        l2 = flip(leaf, rng.randint(0, 2)) if kind in (1, 2) else (rng.choice(leaves) if kind == 4 else leaf)
        a = render(folders + [leaf], rng.choice(["/", "/", "", "\\", "//"]), rng.choice([0, 0, 0, 1, 2, 3]), rng.choice(["", "", "/", "\\"]))
        b = render(f2 + [l2], rng.choice(["/", "/", "", "\\"]), rng.choice([0, 0, 1, 2]), rng.choice(["", "", "/"]))
        out.append((a, b))
    return out


def join_arg_lists(rng, count):
    """argument lists for join(): empty components, alternate/doubled separators, nested lists/tuples/None"""
    atoms = ["", "", "a", "A b", "/", "\\", "//", "/a/", "\\a\\", "a//b", "a\\b/", "c:", "c:\\", "\u00e9", "x/", "/x", ".", ".."]
    out = [[], [""], ["", ""], [[]], [None], [[], None, ()], [["/"]], [[""], "a"], ["a", ["b", ("c", [None, "d"])], "e"],
           [["", "/"], "a"], [("//a",), "b"], ["/", "/", "/"], ["", "a", "", "b", ""], ["\\", "a"], ["c:", "\\a"]]

    def nest(depth):
        n = rng.randint(0, 3)
        items = []
        for _ in range(n):
            r = rng.random()
            if r < 0.15 and depth < 3:
                items.append(nest(depth + 1))
            elif r < 0.25 and depth < 3:
                items.append(tuple(nest(depth + 1)))
            elif r < 0.32:
                items.append(None)
            else:
                items.append(rng.choice(atoms))
        return items
    for _ in range(count):
        out.append([x for x in nest(0)] + [rng.choice(atoms) for _ in range(rng.randint(0, 3))])
    return out


def flat_args(args):
    out = []
    for a in args:
        if isinstance(a, str):
            out.append(a)
        elif a:
            out += flat_args(a)
    return out


def gen_cases(tier, seed):
    """yield (cfg, op, args)"""
    rng = rng_for(seed, "c13")
    un_len = 4 if tier == "quick" else 5
    bi_len = 2 if tier == "quick" else 3
    unary = list(strings_upto(un_len))
    small = list(strings_upto(bi_len))
    long_paths = structured_paths(rng, 300 if tier == "quick" else 3000)
    # random long strings over the alphabet
    for _ in range(100 if tier == "quick" else 1000):
        long_paths.append("".join(rng.choice(ALPHA + ["a", "b", "/"]) for _ in range(rng.randint(5, 200))))
    cpairs = case_pairs(rng, 400 if tier == "quick" else 1500)
    jlists = join_arg_lists(rng, 300 if tier == "quick" else 1000)
    tiny = list(strings_upto(3))
    for cfg in CONFIGS:
        # --- both equality flavours on case-variant pairs; every way of passing the flag (positional, keyword, omitted)
        for a, b in cpairs:
            for fd in (False, True):
                yield cfg, "match", [a, b, fd]
                yield cfg, "normalize", [a, fd]
                yield cfg, "normalize", [b, fd]
            yield cfg, "match_d", [a, b]
            yield cfg, "match_kw", [a, b, True]
            yield cfg, "normalize_d", [a]
            yield cfg, "normalize_kw", [b, True]
            for st in (False, True):
                yield cfg, "issub", [a, b, st]
                yield cfg, "issub", [b, a, st]
            yield cfg, "issub_d", [a, b]
            yield cfg, "issub_kw", [b, a, True]
            yield cfg, "replace", [a, b, "/T o\\"]
            yield cfg, "replace", [a + "/k/L", b, "to/"]
        # --- None arguments, root path of the provider
        for a, b in cpairs[:60]:
            for st in (False, True):
                yield cfg, "issubopt", [None, a, st]
                yield cfg, "issubopt", [a, None, st]
                yield cfg, "issubroot", [a, b, st]
                yield cfg, "issubroot", [a, a + "/In/side", st]
                yield cfg, "issubroot", [None, b, st]
                yield cfg, "issubroot", [a, None, st]
            yield cfg, "issubroot_d", [a, b]
            yield cfg, "issubroot_d", [b, b]
            yield cfg, "issubopt", [None, None, False]
        # --- join: zero args, empty components, alternate separators, nested lists / tuples / None
        for al in jlists:
            yield cfg, "joinn", al
            yield cfg, "join", flat_args(al)
        # --- dirname / basename / split on the root and every tiny string
        for s in tiny:
            yield cfg, "dirname", [s]
            yield cfg, "basename", [s]
        for s in [None, "", "/a", "/A/b"]:
            for t in [None, "", "/a", "/a/B"]:
                yield cfg, "match", [s, t, True]
                yield cfg, "match_d", [s, t]
        for s in unary + long_paths:
            yield cfg, "normseps", [s]
            yield cfg, "split", [s]
            yield cfg, "normalize", [s, False]
            yield cfg, "normalize", [s, True]
            yield cfg, "join", [s]
        small2 = list(strings_upto(2))
        # all pairs up to length 2 for every binary helper; in the thorough tier additionally all pairs up to length 3 for the
        # two decision helpers on the first two configurations (keeps the run within minutes)
        for s in small2:
            for t in small2:
                yield cfg, "join", [s, t]
                yield cfg, "issub", [s, t, False]
                yield cfg, "issub", [s, t, True]
                yield cfg, "match", [s, t, False]
                yield cfg, "match", [s, t, True]
        if bi_len > 2 and cfg in CONFIGS[:2]:
            for s in small:
                for t in small:
                    if len(s) > 2 or len(t) > 2:
                        yield cfg, "issub", [s, t, False]
                        yield cfg, "join", [s, t]
        pool3 = [s for s in small if len(s) <= (1 if tier == "quick" else 2)]
        for s in pool3:
            for t in pool3:
                for u in pool3:
                    yield cfg, "join", [s, t, u]
                    yield cfg, "replace", [s, t, u]
        for s in [None, "", "/a"]:
            for t in [None, "", "/a", "/A"]:
                yield cfg, "match", [s, t, False]
        for p in long_paths:
            for q in variants(rng, p):
                yield cfg, "issub", [p, q, False]
                yield cfg, "issub", [q, p, True]
                yield cfg, "issub", [p, q, True]
                yield cfg, "issub", [q, p, False]
                yield cfg, "match", [p, q, False]
                yield cfg, "match", [p, q, True]
                yield cfg, "join", [p, q]
                yield cfg, "replace", [q, p, rng.choice(long_paths)]
                yield cfg, "dirname", [q]
                yield cfg, "basename", [q]
        # translate between this cfg and every other cfg
        roots = ["/", "/r", "/R/s", "/r/", "\\r", "/a b", "r"]
        for cfg2 in CONFIGS:
            for r1 in roots:
                for r2 in roots[:4]:
                    pts = [r1, r1 + "/x", r1 + "x", r1 + "/X/y.txt", r1.upper() + "/q", "/other/x", "/", "", r1 + "//z/"]
                    pts += rng.sample(long_paths, 2)
                    for pth in pts:
                        yield cfg, "translate", [cfg2, r1, r2, pth]


def nontrivial_key(op, args, out):
    """a case is non-trivial when the helper did real work: output differs from its first string input
    or it is a positive/negative decision on non-empty inputs; distinct by (op, cfg-independent args, out)"""
    if out.startswith("!"):
        return True
    strs = [a for a in args if isinstance(a, str)]
    if op in ("issub", "match", "replace", "translate"):
        return all(len(s) > 0 for s in strs)
    return bool(strs) and enc_str(strs[0]) != out


# ---------------------------------------------------------------- laws (search oracle)

def laws_on_impl(provs, tier, seed, known_open, budget_s=120):
    """The C13 theorems (Props/C13.lean) as executable predicates on the implementation, with exactly the
    theorems' hypotheses (WF configuration = win_paths off; Absolute folder; HasName relative part).
    Returns the first failing input not listed as a known finding."""
    import time as _t
    t0 = _t.time()
    rng = rng_for(seed, "c13laws")
    pool = list(strings_upto(3)) + structured_paths(rng, 400)
    rels = ["x", "x/y", "a b", "X.txt", "\u00e9/z", "x\\y", "/x/", "//x", "A", ".."]
    lawpairs = case_pairs(rng, 600 if tier == "quick" else 3000)
    lawpairs += [(a, b) for a in structured_paths(rng, 60) for b in variants(rng, a)]
    lawjoins = join_arg_lists(rng, 200)
    from cloudsync.cs import CloudSync

    def fail(law, cfg, **kw):
        return {"law": law, "config": {"case_sensitive": cfg[0], "win_paths": cfg[1], "alt_sep": cfg[2]}, "input": kw}

    def known(law, cfg, **kw):
        return law_ident(law, cfg, kw) in known_open

    wf = [c for c in CONFIGS if not c[1]]
    for cfg in wf:
        p = provs[cfg]
        alt = cfg[2]

        def absolute(s):
            return p.normalize_path_separators(s).startswith("/")

        def hasname(r):
            return any(ch != "/" and not (alt and ch == "\\") for ch in r)

        # ---- the flag laws (Props/C13.lean, section "both flag values, optional arguments")
        pcs = provs[(True, False, alt)]          # same separators, case-sensitive: `{ c with cs := true }`

        def fold(x):
            return x if cfg[0] else x.lower()
        for a, b in lawpairs:
            if _t.time() - t0 > budget_s:
                return None
            try:
                m_t, m_f = p.paths_match(a, b, True), p.paths_match(a, b, False)
                if cfg[0]:
                    if m_t != m_f:
                        return fail("pathsMatch_display_iff_default_cs", cfg, a=a, b=b, for_display_true=m_t, for_display_false=m_f)
                else:
                    na, nb = pcs.normalize_path(a), pcs.normalize_path(b)
                    want = p.dirname(na).lower() == p.dirname(nb).lower() and p.basename(na) == p.basename(nb)
                    if m_t != want:
                        return fail("pathsMatch_display_iff_ci", cfg, a=a, b=b, got=m_t, expected=want)
                if m_t and not m_f:
                    return fail("pathsMatch_display_implies_default", cfg, a=a, b=b)
                if p.paths_match(a, b) != m_f:
                    return fail("pathsMatch_iff_normalize (flag omitted: leaf case must be kept only when asked, default for_display=False)", cfg, a=a, b=b)
                for fd in (False, True):
                    if p.paths_match(a, b, fd) != (p.normalize_path(a, fd) == p.normalize_path(b, fd)):
                        return fail("pathsMatch_iff_normalize", cfg, a=a, b=b, fd=fd)
                for x in (a, b):
                    n_t, n_f = p.normalize_path(x, True), p.normalize_path(x, False)
                    if p.normalize_path(x) != n_f:
                        return fail("normalizePath (flag omitted: default for_display=False)", cfg, p=x)
                    if cfg[0]:
                        if n_t != n_f:
                            return fail("case_sensitive_normalize_preserves_case", cfg, p=x, for_display_true=n_t, for_display_false=n_f)
                        for fd, n in ((False, n_f), (True, n_t)):
                            if any(ch != "/" and ch not in x for ch in n):
                                return fail("case_sensitive_normalize_chars", cfg, p=x, fd=fd, got=n)
                    else:
                        nx = pcs.normalize_path(x)
                        if p.dirname(n_t) != p.dirname(nx).lower() or p.basename(n_t) != p.basename(nx):
                            return fail("display_folds_folders_keeps_leaf", cfg, p=x, got=n_t, case_sensitive_form=nx)
                        if n_t.lower() != n_f:
                            return fail("pathsMatch_display_leaf", cfg, p=x)
                    for fd, n in ((False, n_f), (True, n_t)):
                        if p.normalize_path(n, fd) != n and not known("normalizePath_idem", cfg, p=x, fd=fd):
                            return fail("normalizePath_idem", cfg, p=x, fd=fd)
                        if not p.paths_match(n, x):
                            return fail("normalizePath_matches_self", cfg, p=x, fd=fd, normal_form=n)
                # strict flag of is_subpath: differs from the default exactly on equal (normalised, folded) paths
                for f, t in ((a, b), (b, a), (a, a + "/k"), (a, a)):
                    same = bool(f) and bool(t) and fold(p.normalize_path_separators(f)) == fold(p.normalize_path_separators(t))
                    d = p.is_subpath(f, t)
                    if p.is_subpath(f, t, False) != d:
                        return fail("isSubpath_strict (flag omitted: default strict=False)", cfg, f=f, t=t)
                    if p.is_subpath(f, t, True) != (False if same else d):
                        return fail("isSubpath_strict", cfg, f=f, t=t, strict_true=p.is_subpath(f, t, True), strict_false=d)
                    if same and d != "/":
                        return fail("isSubpath_same", cfg, f=f, t=t, strict_false=d)
                if p.is_subpath(None, a) is not False or p.is_subpath(a, None, True) is not False:
                    return fail("isSubpathOpt_rel", cfg, p=a)
                for root, t in ((a, b), (b, a), (a, a), (a, a + "/k"), (None, a)):
                    for st in (False, True):
                        if of_root(p, root, t, st) != p.is_subpath(root, t, st):
                            return fail("isSubpathOfRoot_eq", cfg, root=root, target=t, strict=st, got=of_root(p, root, t, st))
                    if of_root(p, root, t) != p.is_subpath(root, t, False):
                        return fail("isSubpathOfRoot_eq (flag omitted: default strict=False)", cfg, root=root, target=t)
            except Exception as e:
                return fail("total", cfg, a=a, b=b, exc=repr(e))
        for al in lawjoins:
            try:
                if p.join(*al) != p.join(*flat_args(al)):
                    return fail("joinArgs_nested", cfg, args=repr(al))
            except Exception as e:
                return fail("total", cfg, args=repr(al), exc=repr(e))
        for s in pool:
            if _t.time() - t0 > budget_s:
                return None
            try:
                ns = p.normalize_path_separators(s)
                if p.normalize_path_separators(ns) != ns and not known("normSeps_idem", cfg, p=s):
                    return fail("normSeps_idem", cfg, p=s)
                for fd in (False, True):
                    n = p.normalize_path(s, fd)
                    if p.normalize_path(n, fd) != n and not known("normalizePath_idem", cfg, p=s, fd=fd):
                        return fail("normalizePath_idem", cfg, p=s, fd=fd)
                if not cfg[0]:
                    if p.normalize_path(s, True).lower() != p.normalize_path(s, False):
                        return fail("pathsMatch_display_leaf", cfg, p=s)
                    if p.basename(p.normalize_path(s, True)) != provs[(True, False, alt)].basename(provs[(True, False, alt)].normalize_path(s, False)):
                        return fail("pathsMatch_display_leaf_basename", cfg, p=s)
                if s:
                    d, b = p.split(s)
                    if not p.paths_match(p.join(d, b), s) and not known("split_join", cfg, p=s):
                        return fail("split_join", cfg, p=s)
                if not p.paths_match(s, s):
                    return fail("pathsMatch_refl", cfg, p=s)
                if absolute(s):
                    for rel in rels:
                        if not hasname(rel):
                            continue
                        j = p.join(s, rel)
                        r = p.is_subpath(s, j)
                        if not r or p.join(s, r) != j:
                            if not known("isSubpath_join", cfg, f=s, rel=rel):
                                return fail("isSubpath_join", cfg, f=s, rel=rel, got=r)
                            continue
                        for to in ("/to", "/", "t", "//t/"):
                            try:
                                m = p.replace_path(j, s, to)
                            except ValueError:
                                m = None
                            if m is None or not p.paths_match(m, p.join(to, rel)):
                                if not known("replacePath_join", cfg, f=s, rel=rel, to=to):
                                    return fail("replacePath_join", cfg, f=s, rel=rel, to=to, got=m)
                if ns and ns != "/":
                    for x in "xA." + ("" if alt else "\\"):
                        for t in ("", "/y", "y/z", "//"):
                            for strict in (False, True):
                                if p.is_subpath(s, ns + x + t, strict) is not False and not known("isSubpath_prefix_sibling", cfg, f=s, x=x, t=t):
                                    return fail("isSubpath_prefix_sibling", cfg, f=s, target=ns + x + t, strict=strict)
            except Exception as e:  # the model is total: an exception is a law failure too
                if not known("total", cfg, p=s):
                    return fail("total", cfg, p=s, exc=repr(e))
        for _ in range(3000 if tier == "quick" else 30000):
            if _t.time() - t0 > budget_s:
                return None
            a = rng.choice(pool)
            b = rng.choice(variants(rng, a))
            c = rng.choice(variants(rng, b))
            try:
                for fd in (False, True):
                    if p.paths_match(a, b, fd) != p.paths_match(b, a, fd):
                        return fail("pathsMatch_symm", cfg, a=a, b=b, fd=fd)
                    if p.paths_match(a, b, fd) and p.paths_match(b, c, fd) and not p.paths_match(a, c, fd):
                        return fail("pathsMatch_trans", cfg, a=a, b=b, c=c, fd=fd)
                    if p.paths_match(a, b, fd) != (p.normalize_path(a, fd) == p.normalize_path(b, fd)):
                        return fail("pathsMatch_iff_normalize", cfg, a=a, b=b, fd=fd)
            except Exception as e:
                return fail("total", cfg, a=a, b=b, c=c, exc=repr(e))
        for cfg2 in wf:
            q = provs[cfg2]
            same_alt = (not cfg2[2]) or cfg2[2] == cfg[2]   # translate_roundtrip_partial: alt of target none or equal
            for r1 in ["/", "/r", "/R/s", "/a b", "r", "/r/"]:
                for r2 in ["/", "/t", "/T/u", "\\t"]:
                    fwd = TranslateShim((q, p), (r2, r1))   # translate(0, path in p) -> q
                    back = TranslateShim((p, q), (r1, r2))  # translate(0, path in q) -> p
                    abs1 = p.normalize_path_separators(r1).startswith("/")
                    abs2 = q.normalize_path_separators(r2).startswith("/")
                    rn = p.normalize_path_separators(r1)
                    paths = [r1 + rel for rel in ["", "/x", "/X/y.txt", "/a b/\u00e9", "x", "/..", "//x", "\\w"]] + [rn.upper() + "/Q", "/other", ""]
                    for path in paths:
                        try:
                            t = CloudSync.translate(fwd, 0, path)
                            inside = p.is_subpath(r1, path) is not False
                            if not inside and t is not None:
                                return fail("translate_outside_none", cfg, cfg2=cfg_tok(cfg2), r1=r1, r2=r2, path=path, got=t)
                            if inside and t is None:
                                return fail("translate_inside_some", cfg, cfg2=cfg_tok(cfg2), r1=r1, r2=r2, path=path)
                            if t is not None and abs2 and q.is_subpath(r2, t) is False:
                                return fail("translate_lands_in_root", cfg, cfg2=cfg_tok(cfg2), r1=r1, r2=r2, path=path, got=t)
                            if t is not None and abs1 and abs2 and same_alt:
                                bk = CloudSync.translate(back, 0, t)
                                if bk is None or not p.paths_match(bk, path):
                                    if not known("translate_roundtrip", cfg, cfg2=cfg_tok(cfg2), r1=r1, r2=r2, path=path):
                                        return fail("translate_roundtrip", cfg, cfg2=cfg_tok(cfg2), r1=r1, r2=r2, path=path, got=t, back=bk)
                        except Exception as e:
                            return fail("total", cfg, cfg2=cfg_tok(cfg2), r1=r1, r2=r2, path=path, exc=repr(e))
                    if rn and rn != "/":
                        for sib in [rn + "x", rn + "x/y", rn + "2/private.txt", rn + ".bak/z"]:
                            try:
                                if CloudSync.translate(fwd, 0, sib) is not None:
                                    return fail("translate_prefix_sibling_none", cfg, cfg2=cfg_tok(cfg2), r1=r1, r2=r2, path=sib)
                            except Exception as e:
                                return fail("total", cfg, cfg2=cfg_tok(cfg2), r1=r1, r2=r2, path=sib, exc=repr(e))
    return None


def law_ident(law, cfg, kw):
    return "%s/%s/%s" % (law, cfg_tok(cfg), ",".join("%s=%s" % (k, enc_str(v) if isinstance(v, str) else v) for k, v in sorted(kw.items()) if k != "exc"))


# ---------------------------------------------------------------- main

def run(res, tier, seed, proof_broken, replay):
    provs = providers()
    opens, fixed = load_known_findings(PID)
    # 2. replay known findings / fixed entries
    stale = []
    for ident, what in opens.items():
        law, cfgt, argt = ident.split("/", 2)
        cfg = tuple(x == "T" for x in cfgt)
        kw = {}
        for kv in [x for x in argt.split(",") if x]:
            k, v = kv.split("=", 1)
            kw[k] = dec_str(v)
        if replay_law(provs, law, cfg, kw):
            res.known.append("%s :: %s" % (ident, what))
        else:
            stale.append(ident)
    for ident, what in fixed.items():
        law, cfgt, argt = ident.split("/", 2)
        cfg = tuple(x == "T" for x in cfgt)
        kw = {}
        for kv in [x for x in argt.split(",") if x]:
            k, v = kv.split("=", 1)
            kw[k] = dec_str(v)
        if replay_law(provs, law, cfg, kw):
            res.violation({"property": PID, "kind": "regression of fixed finding", "id": ident, "what": what,
                           "how_to_replay": "python3 harness/c13_path.py --replay-ident '%s'" % ident})
    # 3. correspondence
    cases = list(gen_cases(tier, seed))
    lines = [line_for(c, op, a) for c, op, a in cases]
    model = run_driver("path", lines)
    disagreements = []
    distinct = set()
    ops = {}
    errs = {}
    flags = {}
    for (cfg, op, args), m in zip(cases, model):
        r = real_eval(provs, cfg, op, args)
        ops[op] = ops.get(op, 0) + 1
        base = op.split("_")[0]
        if base in ("normalize", "match", "issub", "issubopt", "issubroot"):
            how = "omitted" if op.endswith("_d") else ("keyword" if op.endswith("_kw") else "positional")
            val = "default" if op.endswith("_d") else enc_bool(args[-1])
            k = "%s cs=%s %s=%s (%s)" % (base, enc_bool(cfg[0]), "for_display" if base in ("normalize", "match") else "strict", val, how)
            flags[k] = flags.get(k, 0) + 1
        if r.startswith("!"):
            errs[r] = errs.get(r, 0) + 1
        if nontrivial_key(op, args, r):
            distinct.add((op, tuple(map(str, args)), r))
        if r != m:
            disagreements.append({"config": cfg_tok(cfg), "op": op, "args": [a if not isinstance(a, tuple) else cfg_tok(a) for a in args],
                                  "implementation": r, "model": m})
    res.coverage.update({
        "evaluations": len(cases), "distinct_nontrivial": len(distinct),
        "rule": "exhaustive strings over %r up to length %d (unary ops), all pairs up to length %d (binary), triples up to length %d, "
                "plus structured/random long paths and their variants, plus case-variant pairs (folder-only / leaf-only / both / separator-only "
                "differences, alternate, doubled and trailing separators, root) under both values of for_display and strict, with the "
                "optional parameter passed positionally, by keyword and omitted, None arguments, is_subpath_of_root, and join() on "
                "nested list/tuple/None argument lists, for configs (case_sensitive, win_paths, alt_sep) in %r; "
                "non-trivial = result differs from the first argument, or a decision on all-non-empty arguments, or an exception; "
                "distinct by (op, args, result)" % (ALPHA, 4 if tier == "quick" else 5, 2 if tier == "quick" else 3,
                                                    1 if tier == "quick" else 2, CONFIGS),
        "samples": [{"line": lines[i], "model": model[i]} for i in (0, len(lines) // 3, len(lines) // 2, len(lines) - 1)],
        "exhaustive": True, "programs": len(cases), "disagreements_checked": len(disagreements),
        "op_histogram": ops, "optional_parameter_histogram": flags, "error_kinds": errs, "fingerprints": fingerprints(FP_SPEC),
        "stale_known_findings": stale,
    })
    res.assumptions += ["str.lower() is modelled as a per-character map (ASCII + Latin-1); other Unicode is outside the theorem's guard",
                        "default values of optional parameters (for_display=False, strict=False) are attached by the harness to the model line of the calls that omit them"]
    broken = list(proof_broken)
    if disagreements:
        broken.append("correspondence path-layer: %d disagreements, first %r" % (len(disagreements), disagreements[0]))
    if broken:
        # 4. search
        hit = laws_on_impl(provs, tier, seed, set(opens), budget_s=60 if tier == "quick" else 600)
        if hit:
            res.violation({"property": PID, "kind": "law fails on implementation", "failing": hit, "broken": broken,
                           "replay": "call the named helper(s) of cloudsync.provider.Provider with the given input"})
        else:
            res.violation({"property": PID, "kind": "proof obligation or correspondence no longer checks", "broken": broken,
                           "first_disagreements": disagreements[:5]}, no_input=True)


def replay_law(provs, law, cfg, kw):
    """True if the law still fails on the implementation at this exact input."""
    p = provs[cfg]
    try:
        if law == "total":
            s = kw["p"]
            p.normalize_path(s); p.normalize_path(s, True); p.split(s); p.join(s); p.is_subpath("/", s); p.is_subpath(s, "/a")
            d, b = p.split(s)
            p.join(d, b)
            return False
        if law == "split_join":
            d, b = p.split(kw["p"])
            return not p.paths_match(p.join(d, b), kw["p"])
    except Exception:
        return True
    return False


if __name__ == "__main__":
    standard_main(PID, run)
