"""C05 — conflict-resolution contract: both sides end up with the resolver's answer.

Two ties (DESIGN.md section 6, C05):
 (A) decision-table model (lean/Csverif/Model/Resolver.lean) of `SyncManager.__safe_call_resolver`, `SyncEntry.hash_conflict`
     and the answer handling of `resolve_conflict`, tied by DIFFERENTIAL EXECUTION: the real `_SyncManager__safe_call_resolver`
     is called on a real SyncManager with stub handles for every answer shape x handle order x object types, the real
     `SyncEntry.hash_conflict` on real entries over a small alphabet, and the driver layer `resolver` runs the model on the
     same lines; outputs are diffed.
 (B) TRACE REFINEMENT of the real engine with a scripted, logging resolver: conflict shapes create/create and edit/edit,
     contents equal / empty / large, every resolver behaviour, every flavour (+ different hash functions per side, sqlite),
     random engine schedules after the conflict exists.  One line per run goes to the Lean driver layer `monc05`, which decides
     with the model's outcome function (`ok` / `reject <reason>`).
Open known finding (exact replay on the real engine): merged data with keep=True never settles.
Fixed findings (exact replays re-checked on every run; a regression is a VIOLATION with the replay): a falsy non-None answer (`()`, `0`, `False`,
an empty handle returned bare, ...) used to be returned unvalidated and the conflict was never resolved (commit <SHA_A>); in create/create, after
a temporary resolver failure and a further user edit, the resolver used to be handed the superseded bytes of the edited side (commit <SHA_B>).
"""
import io
import os
import random
import sys

sys.path.insert(0, os.path.dirname(os.path.abspath(__file__)))
from histories import *  # noqa

PID = "C05"
FP = {"cloudsync/sync/manager.py": ["ResolveFile.__init__", "ResolveFile.download", "ResolveFile.fh", "ResolveFile.read", "ResolveFile.seek",
                                    "ResolveFile.__len__", "SyncManager.__resolve_file_likes", "SyncManager.__safe_call_resolver",
                                    "SyncManager.__resolver_merge_upload", "SyncManager.resolve_conflict", "SyncManager.handle_hash_conflict",
                                    "SyncManager.handle_split_conflict", "SyncManager.check_disjoint_create", "SyncManager._resolve_rename",
                                    "SyncManager.conflict_rename", "SyncManager.sync", "SyncManager.upload_synced"],
      "cloudsync/sync/state.py": ["SyncEntry.hash_conflict", "SyncState.split"],
      "cloudsync/cs.py": ["CloudSync.resolve_conflict", "CloudSync.__init__"]}

STEP_CAP = 400


def _fast_tempdir():
    """the engine makes one temp directory per SyncManager; keep them on a memory file system (removed at exit)"""
    import atexit
    import shutil
    import tempfile
    if os.path.isdir("/dev/shm") and not getattr(_fast_tempdir, "done", None):
        d = tempfile.mkdtemp(prefix="c05_", dir="/dev/shm")
        tempfile.tempdir = d
        atexit.register(shutil.rmtree, d, True)
        _fast_tempdir.done = d


_fast_tempdir()

# ----------------------------------------------------------------------------------------------------------------
# hash functions for the two sides (the same-hash shortcut hashes one side's bytes with the OTHER side's function)

def _md5(b):
    import hashlib
    return hashlib.md5(b).digest()


def _sha1(b):
    import hashlib
    return hashlib.sha1(b).digest()


def _sha256hex(b):
    import hashlib
    return hashlib.sha256(b).hexdigest()


def _salted(b):
    import hashlib
    return b"s:" + hashlib.md5(b"salt" + b).digest()


HASHES = {"md5": _md5, "sha1": _sha1, "sha256hex": _sha256hex, "salted": _salted}
HASH_PAIRS = [("md5", "md5"), ("md5", "sha1"), ("sha256hex", "md5"), ("salted", "sha1")]


class RWorld(World):
    """World whose two MockProviders get their own hash functions (a small copy of World.__init__; engine.py is not edited)"""
    def __init__(self, flavour="oid-oid", storage="mock", resolver=None, hashes=("md5", "md5"), aging=0.002, roots=ROOTS):
        self.clock = VClock()
        install_determinism(self.clock)
        from cloudsync.providers.mock import MockProvider
        lf, rf = FLAVOURS[flavour]
        self.flavour = flavour
        self.roots = roots
        self.hashes = hashes
        self.provs = (MockProvider(lf[0], lf[1], filter_events=lf[2], hash_func=HASHES[hashes[0]]),
                      MockProvider(rf[0], rf[1], filter_events=rf[2], hash_func=HASHES[hashes[1]]))
        for i, p in enumerate(self.provs):
            p.name = "mock-" + "lr"[i]
            p.connect({"key": "val"})
        self.calls = []
        self.by = "user"
        self.fault_hook = None
        self.after_hook = None
        self._wrap_providers()
        self.storage_kind = storage
        self.storage_dict = {}
        self.sqlite_path = None
        self.notifications = []
        self.resolver = resolver
        self.translate_fn = None
        self.smart = False
        self.aging = aging
        self.prioritize = None
        self.cs = None
        self.escaped = []
        self.new_engine()


# ----------------------------------------------------------------------------------------------------------------
# contents

LARGE = 70000          # > 64 KiB


def content_bytes(kind, salt):
    """kind: 'small' | 'empty' | 'large' | 'nul'"""
    if kind == "empty":
        return b""
    if kind == "large":
        return (b"%s-" % salt) * (LARGE // (len(salt) + 1) + 1)
    if kind == "nul":
        return b"\x00\xff" + salt + b"\x00"
    return b"data-" + salt


class Tags:
    """distinct byte strings <-> distinct small numbers (what the Lean monitor sees)"""
    def __init__(self):
        self.t = {}

    def tag(self, data):
        data = bytes(data)
        if data not in self.t:
            self.t[data] = len(self.t) + 1
        return self.t[data]


# ----------------------------------------------------------------------------------------------------------------
# the scripted resolver

class NotFileLike:
    def __init__(self):
        self.x = 1


class Script:
    """answer = dict(kind=..., ...):
         pick   side keep            -> (handle labelled `side`, keep)
         merged data keep            -> (BytesIO(data), keep)
         none | raises exc           -> None / raise
         nontuple what               -> a non-tuple value (what: 'handle0','handle1','str','int','list','dict','bytesio')
         wronglen n                  -> tuple of length n != 2 (n=0 is the falsy empty tuple)
         notfile what keep           -> 2-tuple whose first element is not file-like ('str','none','bytes','int','obj')
         falsy what                  -> a falsy non-None non-tuple value ('zero','false','emptystr','emptylist','emptybytes')
       temp = number of leading calls that raise CloudTemporaryError
       read = 'full' | 'none' | 'partial' | 'len'   (how the resolver reads its two handles before answering)"""
    def __init__(self, answer, temp=0, read="full"):
        self.answer, self.temp, self.read = answer, temp, read
        self.log = []
        self.probe = None       # callable() -> (bytes at the path on the local side, on the remote side) at call time

    def __call__(self, f1, f2):
        import cloudsync.exceptions as ex
        ent = {"sides": (f1.side, f2.side), "paths": (f1.path, f2.path), "bytes": [None, None], "lens": [None, None],
               "otypes": (str(f1.otype), str(f2.otype))}
        self.log.append(ent)
        ent["actual"] = self.probe() if self.probe else None
        ent["temp_raised"] = len(self.log) <= self.temp
        for i, f in enumerate((f1, f2)):
            if self.read == "full":
                ent["bytes"][i] = f.read()
            elif self.read == "partial":
                head = f.read(3)
                ent["bytes"][i] = head + f.read()
                f.seek(1)
            elif self.read == "len":
                ent["lens"][i] = len(f)
                ent["bytes"][i] = f.read()
        if len(self.log) <= self.temp:
            raise ex.CloudTemporaryError("resolver busy")
        a = self.answer
        k = a["kind"]
        by_side = {f1.side: f1, f2.side: f2}
        if k == "pick":
            return (by_side[a["side"]], a["keep"])
        if k == "merged":
            return (io.BytesIO(a["data"]), a["keep"])
        if k == "none":
            return None
        if k == "raises":
            if a["exc"] == "value":
                raise ValueError("resolver failed")
            if a["exc"] == "key":
                raise KeyError("resolver failed")
            if a["exc"] == "cloudfnf":
                raise ex.CloudFileNotFoundError("resolver failed")
            if a["exc"] == "cloudexists":
                raise ex.CloudFileExistsError("resolver failed")
            raise RuntimeError("resolver failed")
        if k == "nontuple":
            w = a["what"]
            return {"handle0": by_side[0], "handle1": by_side[1], "str": "f1", "int": 7, "list": [f1, True], "dict": {"fh": f1},
                    "bytesio": io.BytesIO(b"zz")}[w]
        if k == "wronglen":
            return {0: (), 1: (f1,), 3: (f1, True, 1), 4: (f1, f2, True, False)}[a["n"]]
        if k == "notfile":
            first = {"str": "f1", "none": None, "bytes": b"data", "int": 5, "obj": NotFileLike()}[a["what"]]
            return (first, a["keep"])
        if k == "falsy":
            return {"zero": 0, "false": False, "emptystr": "", "emptylist": [], "emptybytes": b""}[a["what"]]
        raise HarnessError("bad answer " + repr(a))


def answer_token(a, temp):
    """the answer as the Lean monitor sees it (Model/Resolver.lean `Behaviour`)"""
    k = a["kind"]
    pre = "temp %d " % temp
    if k == "pick":
        return pre + "pick %s %s" % ("LR"[a["side"]], enc_bool(a["keep"]))
    if k == "merged":
        return pre + "merged %s %s"          # data tag filled by caller
    if k == "none":
        return pre + "none"
    if k == "raises":
        return pre + "raises"
    if k == "nontuple":
        return pre + "nontuple T"
    if k == "falsy":
        return pre + "nontuple F"
    if k == "wronglen":
        return pre + "wronglen %d" % a["n"]
    if k == "notfile":
        return pre + "notfile %s" % enc_bool(a["keep"])
    raise HarnessError("bad answer")


# ----------------------------------------------------------------------------------------------------------------
# one run

def sib_split(tree, rel, fold=False):
    """(content at rel or None / 'D', [contents of '.conflicted' siblings of rel], other '.conflicted' entries)"""
    if fold:
        tree = {k.lower(): v for k, v in tree.items()}
        rel = rel.lower()
    folder, leaf = rel.rsplit("/", 1)
    stem = leaf.split(".", 1)[0]
    main = None
    sibs, stray = [], []
    for k, v in sorted(tree.items()):
        if k == rel:
            main = "D" if v[0] == "d" else v[1]
        elif conflicted(k):
            kf, kl = k.rsplit("/", 1)
            if kf == folder and kl.startswith(stem) and ".conflicted" in kl:
                sibs.append("D" if v[0] == "d" else v[1])
            else:
                stray.append(k)
    return main, sibs, stray


def run_case(case):
    """case: dict(flavour, hashes, storage, shape 'cc'|'ee', rel, cl, cr, base, first (side whose user op comes first), answer, temp,
                   read, sched (list of 'L','R','S' executed after the conflict exists), qseed)
       returns dict(quiet, trees, log, ...)"""
    script = Script(case["answer"], case.get("temp", 0), case.get("read", "full"))
    w = RWorld(case["flavour"], storage=case.get("storage", "mock"), resolver=script, hashes=tuple(case.get("hashes", ("md5", "md5"))))
    rng = random.Random(case.get("qseed", 0))
    rec = Recorder(w, rng)
    rec.spell_roots = False
    rel = case["rel"]
    out = {"case": case}
    try:
        folder = rel.rsplit("/", 1)[0]
        if folder:
            w.user(0, "mkdir", w.roots[0] + folder)
        if case.get("bystander"):
            w.user(0, "create", w.roots[0] + "/zz", b"bystander")
        if case["shape"] == "ee":
            bs = case.get("base_side", 0)
            if folder and bs == 1:
                w.user(1, "mkdir", w.roots[1] + folder)
            w.user(bs, "create", w.roots[bs] + rel, case["base"])
        if not rec.quiesce(cap=STEP_CAP):
            out["setup_failed"] = "base did not go quiet"
            return out
        if not trees_converged(w.tree(0), w.tree(1)):
            out["setup_failed"] = "base did not converge"
            return out
        n_pre = len(script.log)
        fold = case.get("fold", False)
        rels = (rel, case.get("rel_r", rel))       # the remote user may spell the name in another case (case-insensitive pairs only)

        def probe():
            got = []
            for s_ in (0, 1):
                m_ = sib_split(w.tree(s_), rels[s_], fold)[0]
                got.append(m_)
            return tuple(got)
        script.probe = probe
        orig_engine = rec.engine

        def engine_and_snapshot(which, watch_side=None):
            before = len(script.log)
            r_ = orig_engine(which, watch_side)
            if "immediate" not in out and len(script.log) > before and not script.log[-1]["temp_raised"]:
                # the step in which the resolver answered: what `resolve_conflict` did to the two sides, before any later step
                out["immediate"] = (sib_split(w.tree(0), rels[0], fold)[:2], sib_split(w.tree(1), rels[1], fold)[:2])
                out["immediate_call"] = len(script.log) - 1
            return r_
        rec.engine = engine_and_snapshot
        order = (0, 1) if case.get("first", 0) == 0 else (1, 0)
        for s in order:
            data = case["cl"] if s == 0 else case["cr"]
            err = w.user(s, "create" if case["shape"] == "cc" else "write", w.roots[s] + rels[s], data)
            if err:
                out["setup_failed"] = "user op rejected: " + err
                return out
        # optional: ONE transient provider fault at the n-th provider call the engine makes from now on
        if case.get("fault") is not None:
            import cloudsync.exceptions as _ex
            cnt = {"n": 0, "hit": None}

            def hook(side_, method_, args_):
                cnt["n"] += 1
                if cnt["n"] == case["fault"] + 1 and fault_allowed(case, method_):
                    cnt["hit"] = "%s:%s" % ("LR"[side_], method_)
                    raise _ex.CloudTemporaryError("injected fault")
            w.fault_hook = hook
            out["fault_counter"] = cnt
        # the conflict exists now; below: engine steps, and at most one further user edit of one side before it is resolved
        re = case.get("reedit")
        out["reedit_applied"] = None

        def maybe_reedit(nsteps, force=False):
            if not re or out["reedit_applied"] is not None:
                return
            due = force or (re["when"] == "after_temp_call" and len(script.log) > n_pre) or (re["when"] != "after_temp_call" and nsteps >= re["when"])
            if not due:
                return
            now = probe()
            settled = any(not c["temp_raised"] for c in script.log[n_pre:]) or now[0] == now[1]
            if settled:
                out["reedit_applied"] = "too-late"
                return
            err = w.user(re["side"], "write", w.roots[re["side"]] + rels[re["side"]], re["data"])
            out["reedit_applied"] = "rejected:" + err if err else "yes"
            # the engine is told about the edit before it looks at the conflict again (event intake of that side); without this the
            # engine legitimately works from what it knew (its cached download), which is not what this check is about
            for _ in range(re.get("intake", 1)):
                rec.engine("LR"[re["side"]])
        maybe_reedit(0)
        for n_, x in enumerate(case.get("sched", [])):
            rec.engine(x)
            maybe_reedit(n_ + 1)
        if re and re["when"] == "after_temp_call" and out["reedit_applied"] is None:
            # step until the resolver has been called once (it raises CloudTemporaryError), then edit
            for _ in range(60):
                rec.engine(rng.choice("LRS"))
                maybe_reedit(0)
                if out["reedit_applied"] is not None:
                    break
        maybe_reedit(10 ** 9, force=bool(re) and out["reedit_applied"] is None and re["when"] != "after_temp_call")
        q = rec.quiesce(cap=STEP_CAP)
        out.update({"quiet": q, "L": w.tree(0), "R": w.tree(1), "log": script.log[n_pre:], "pre_calls": n_pre,
                    "steps": rec.engine_steps, "escaped": list(w.escaped)})
        if q:
            # stability: a quiet engine stays quiet (no further resolver calls, no further writes)
            ncalls = len(w.calls)
            nlog = len(script.log)
            for _ in range(3):
                for x in "LRS":
                    rec.engine(x)
            out["late_calls"] = len(script.log) - nlog
            out["late_writes"] = len([c for c in w.calls[ncalls:] if c.by == "engine" and c.method != "download" and not c.error])
            out["L2"], out["R2"] = w.tree(0), w.tree(1)
        return out
    finally:
        w.close()


# ----------------------------------------------------------------------------------------------------------------
# the property's own statement, evaluated on a run of the implementation (search oracle of step 4; also used for calibration).
# It is the same contract the Lean monitor executes (Model/Resolver.lean `contract`), written independently.

FALLBACK_KINDS = ("none", "raises", "nontuple", "wronglen", "notfile")


def effective(case, out):
    """contents of the two sides when the conflict is resolved (a further user edit replaces that side's content);
       None if the run is outside the contract's premise (the further edit came after the conflict was already settled)"""
    cl, cr = case["cl"], case["cr"]
    ra = out.get("reedit_applied")
    if ra == "yes":
        if case["reedit"]["side"] == 0:
            cl = case["reedit"]["data"]
        else:
            cr = case["reedit"]["data"]
    elif ra is not None:
        return None
    return cl, cr


def python_contract(case, out):
    """None if the run satisfies C05's statement, else a short reason"""
    if out.get("setup_failed"):
        return None
    eff = effective(case, out)
    if eff is None:
        return None
    cl, cr = eff
    a = case["answer"]
    fold = case.get("fold", False)
    rels = (case["rel"], case.get("rel_r", case["rel"]))
    base = case["base"] if case["shape"] == "ee" else None
    ul, ur = cl != base, cr != base          # which sides carry unsynchronised content
    differ = ul and ur and cl != cr
    if not out["quiet"]:
        return "did not go quiet within %d steps" % STEP_CAP
    log = out["log"]
    want_calls = (case.get("temp", 0) + 1) if differ else 0
    total = len(log) + out.get("late_calls", 0)
    nfaults = 1 if (out.get("fault_counter") or {}).get("hit") else 0
    # an injected transient provider fault may abort one visit after the resolver was asked: one more call is allowed per fault
    if not (want_calls <= total <= want_calls + (nfaults if want_calls else 0)) or out.get("pre_calls"):
        return "resolver called %d times, contract says %d" % (total + out.get("pre_calls", 0), want_calls)
    for c in log:
        if sorted(c["sides"]) != [0, 1]:
            return "handles labelled %r" % (c["sides"],)
        for i in (0, 1):
            side = c["sides"][i]
            want = c["actual"][side]
            if c["bytes"][i] is not None and c["bytes"][i] != want:
                return "handle labelled %s carried other bytes than that side's content" % "LR"[side]
            if c["lens"][i] is not None and (want in (None, "D") or c["lens"][i] != len(want)):
                return "len(handle) wrong"
            if not str(c["paths"][i]).lower() == (ROOTS[side] + rels[side]).lower():
                return "handle path %r is not the side's path" % (c["paths"][i],)
    if log and tuple(log[-1]["actual"]) != (cl, cr) and not nfaults:
        return "the answered call saw other contents than the sides held"
    if not differ:
        winner, loser, keep = (cl if ul else cr), None, False
    elif a["kind"] == "pick":
        winner, loser, keep = (cl, cr, a["keep"]) if a["side"] == 0 else (cr, cl, a["keep"])
    elif a["kind"] == "merged":
        if a["keep"]:
            return None   # the property does not state an outcome for (merged, keep=True); see the known finding
        winner, loser, keep = a["data"], None, False
    elif a["kind"] in FALLBACK_KINDS or a["kind"] == "falsy":
        winner, loser, keep = cr, cl, True
    else:
        raise HarnessError("bad answer")
    nsib = 0
    for side, key in ((0, "L"), (1, "R")):
        main, sibs, stray = sib_split(out[key], rels[side], fold)
        if main != winner:
            return "side %s ends with %s at the path, contract says %s" % (key, brief(main), brief(winner))
        if len(sibs) > 1:
            return "side %s has %d '.conflicted' siblings" % (key, len(sibs))
        for sb in sibs:
            if not keep:
                return "side %s has a '.conflicted' sibling although nothing was to be kept" % key
            if sb != loser:
                return "side %s: '.conflicted' sibling carries %s, not the losing version" % (key, brief(sb))
        nsib += len(sibs)
        if out.get(key + "2") is not None and out[key + "2"] != out[key]:
            return "side %s changed after quiescence" % key
    if keep and nsib == 0:
        return "losing version was not kept as a '.conflicted' sibling"
    return None


def brief(b):
    if b is None:
        return "nothing"
    if b == "D":
        return "a folder"
    return repr(b[:12]) + ("..(%d bytes)" % len(b) if len(b) > 12 else "")


# ----------------------------------------------------------------------------------------------------------------
# generator

PICKS = [{"kind": "pick", "side": s, "keep": k} for s in (0, 1) for k in (True, False)]
GARBAGE = ([{"kind": "none"}] + [{"kind": "raises", "exc": e} for e in ("value", "key", "runtime", "cloudfnf", "cloudexists")] +
           [{"kind": "nontuple", "what": x} for x in ("handle0", "handle1", "str", "int", "list", "dict", "bytesio")] +
           [{"kind": "wronglen", "n": n} for n in (1, 3, 4)] +
           [{"kind": "notfile", "what": x, "keep": k} for x in ("str", "none", "bytes", "int", "obj") for k in (True, False)])
FALSY = [{"kind": "falsy", "what": x} for x in ("zero", "false", "emptystr", "emptylist", "emptybytes")] + [{"kind": "wronglen", "n": 0}]
RELS = ["/a", "/c.txt", "/d/a", "/d/b.tar.gz", "/Mixed.Case"]
SCHED_PATTERNS = ["random", "random", "random", "LSR", "RSL", "SS", "LLRRS", "none"]


def gen_content_pair(rng, i):
    """(cl, cr, class label)"""
    kinds = ["small", "small", "empty", "large", "nul"]
    r = rng.random()
    if r < 0.22:
        k = rng.choice(kinds)
        c = content_bytes(k, b"same%d" % i)
        return c, c, "equal-" + k
    kl, kr = rng.choice(kinds), rng.choice(kinds)
    if kl == kr == "empty":
        return b"", b"", "equal-empty"
    return content_bytes(kl, b"L%d" % i), content_bytes(kr, b"R%d" % i), kl + "/" + kr


def merged_data(rng, cl, cr, i):
    r = rng.random()
    if r < 0.5:
        return b"merged-%d" % i, "fresh"
    if r < 0.6:
        return b"", "empty"
    if r < 0.7:
        return content_bytes("large", b"M%d" % i), "large"
    if r < 0.8:
        return cl, "same-as-local"
    if r < 0.9:
        return cr, "same-as-remote"
    return cl + cr, "concat"


def gen_sched(rng):
    p = rng.choice(SCHED_PATTERNS)
    if p == "random":
        return [rng.choice("LRS") for _ in range(rng.randint(1, 14))]
    if p == "none":
        return []
    return list(p)


def known_bad_answer(a):
    """syntactic filter: answer shapes on which the engine itself violates C05 (open known findings)"""
    if a["kind"] == "merged" and a["keep"]:
        return "merged-keep-never-settles"
    return None


def fault_allowed(case, method):
    """syntactic filter: a transient fault at an `upload` while MERGED data is being written to both sides leaves one side written
    (partial application under a fault: C10's subject, not C05's; measured unreliable on the pinned engine) - never injected"""
    return not (method == "upload" and case["answer"]["kind"] == "merged")


def known_bad_case(case):
    """syntactic filter on whole cases (none at present: create/create with a further edit was excluded until commit <SHA_B>)"""
    return None


def gen_case(rng, i, flavour, allow_known_bad=False):
    cl, cr, cclass = gen_content_pair(rng, i)
    r = rng.random()
    if r < 0.40:
        a = dict(rng.choice(PICKS))
    elif r < 0.58:
        d, dclass = merged_data(rng, cl, cr, i)
        a = {"kind": "merged", "data": d, "keep": False, "dclass": dclass}
    else:
        a = dict(rng.choice(GARBAGE + FALSY))
    case = {"flavour": flavour, "hashes": list(rng.choice(HASH_PAIRS)), "storage": "sqlite" if rng.random() < 0.2 else "mock",
            "shape": rng.choice(["cc", "ee"]), "rel": rng.choice(RELS), "cl": cl, "cr": cr, "base": b"base-%d" % i,
            "base_side": rng.randint(0, 1), "first": rng.randint(0, 1), "answer": a, "temp": rng.choice([0, 0, 0, 1, 2]),
            "read": rng.choice(["full", "full", "none", "partial", "len"]), "sched": gen_sched(rng), "qseed": rng.randint(0, 10 ** 6),
            "bystander": rng.random() < 0.3, "cclass": cclass}
    if rng.random() < 0.3:
        # a further user edit of one side before the conflict is resolved (after a temporary resolver failure, or after k engine steps)
        case["reedit"] = {"side": rng.randint(0, 1), "data": content_bytes(rng.choice(["small", "small", "nul", "large"]), b"X%d" % i),
                          "when": "after_temp_call" if rng.random() < 0.5 else rng.randint(0, 3), "intake": rng.choice([1, 1, 2])}
        if case["reedit"]["when"] == "after_temp_call":
            case["temp"] = rng.choice([1, 2])
    if not case.get("reedit") and rng.random() < 0.2:
        # one transient provider fault (CloudTemporaryError) at the n-th provider call the engine makes once the conflict exists
        case["fault"] = rng.randint(0, 9)
    if flavour.endswith("-ci") and rng.random() < 0.3:
        # both accounts case-insensitive: the remote user spells the name differently
        case["rel_r"] = case["rel"].swapcase() if case["shape"] == "cc" else case["rel"]
        case["fold"] = True
    assert allow_known_bad or not (known_bad_answer(a) or known_bad_case(case))
    return case


def case_brief(case):
    d = dict(case)
    for k in ("cl", "cr", "base"):
        d[k] = brief(d[k])
    a = dict(d["answer"])
    if "data" in a:
        a["data"] = brief(a["data"])
    d["answer"] = a
    if d.get("reedit"):
        d["reedit"] = dict(d["reedit"], data=brief(d["reedit"]["data"]))
    return d


def calibrate(n, seed, flavours=None):
    import collections
    import time as _t
    fails = collections.Counter()
    examples = {}
    t0 = _t.time()
    total = 0
    skipped = [0]
    rng = random.Random(seed)
    for i in range(n):
        for fl in (flavours or list(FLAVOURS)):
            case = gen_case(rng, i, fl)
            out = run_case(case)
            total += 1
            if out.get("setup_failed"):
                fails["setup:" + out["setup_failed"]] += 1
                examples.setdefault("setup:" + out["setup_failed"], case_brief(case))
                continue
            if effective(case, out) is None:
                fails["(skipped: further edit after settlement)"] += 0
                skipped[0] += 1
                continue
            why = python_contract(case, out)
            if why:
                key = (fl, case["shape"], case["answer"]["kind"], bool(case.get("reedit")), case.get("rel_r"), why[:60])
                fails[key] += 1
                examples.setdefault(key, case_brief(case))
    print("runs", total, "skipped", skipped[0], "secs", round(_t.time() - t0, 1))
    for k, v in fails.most_common():
        print(v, k)
        print("    ", examples.get(k))



# ----------------------------------------------------------------------------------------------------------------
# (A) differential tie of the decision tables

class StubHandle:
    """what `__safe_call_resolver` looks at in a handle: .side, .otype; file-like (read/close)"""
    def __init__(self, side, otype, nbytes=3):
        self.side, self.otype, self._n = side, otype, nbytes

    def read(self, *a):
        return b"x" * self._n

    def close(self):
        pass


class EmptyStubHandle(StubHandle):
    """a handle of an EMPTY file: ResolveFile defines __len__, so it is falsy"""
    def __len__(self):
        return 0


class LenStubHandle(StubHandle):
    def __len__(self):
        return 5


class ReadOnlyThing:
    def read(self):
        return b""


class FileLikeThing:
    def read(self, *a):
        return b"merged"

    def close(self):
        pass


def tie_values():
    """(label, model tokens, factory(h0, h1) -> python value or exception instance to raise)"""
    import cloudsync.exceptions as ex
    vals = []
    vals.append(("None", ["none"], lambda h0, h1: None))
    for lab, v in (("0", 0), ("False", False), ("''", ""), ("[]", []), ("b''", b""), ("{}", {}), ("0.0", 0.0)):
        vals.append((lab, ["falsy"], lambda h0, h1, v=v: v))
    vals.append(("bare-empty-handle", ["falsy"], lambda h0, h1: EmptyStubHandle(h0.side, h0.otype)))
    for lab, f in (("bare-h0", lambda h0, h1: h0), ("bare-h1", lambda h0, h1: h1), ("'f1'", lambda h0, h1: "f1"), ("7", lambda h0, h1: 7),
                   ("[h0,True]", lambda h0, h1: [h0, True]), ("{'fh':h0}", lambda h0, h1: {"fh": h0}), ("BytesIO", lambda h0, h1: io.BytesIO(b"zz")),
                   ("True", lambda h0, h1: True), ("bare-handle-with-len", lambda h0, h1: LenStubHandle(h0.side, h0.otype)),
                   ("object()", lambda h0, h1: object())):
        vals.append((lab, ["truthy"], f))
    firsts = [("h0", "h0", lambda h0, h1: h0), ("h1", "h1", lambda h0, h1: h1), ("BytesIO", "d9", lambda h0, h1: io.BytesIO(b"m")),
              ("filelike-object", "d9", lambda h0, h1: FileLikeThing()), ("'str'", "x", lambda h0, h1: "f1"), ("None", "x", lambda h0, h1: None),
              ("bytes", "x", lambda h0, h1: b"data"), ("5", "x", lambda h0, h1: 5), ("read-only-object", "x", lambda h0, h1: ReadOnlyThing()),
              ("empty-handle", "h0", None)]
    keeps = [("True", True), ("False", False), ("1", 1), ("0", 0), ("'yes'", "yes"), ("''", ""), ("None", None)]
    vals.append(("()", ["tuple", "0", "x", "F"], lambda h0, h1: ()))
    for flab, ftok, ff in firsts:
        if ff is None:
            continue
        vals.append(("(%s,)" % flab, ["tuple", "1", ftok, "F"], lambda h0, h1, ff=ff: (ff(h0, h1),)))
        for klab, kv in keeps:
            vals.append(("(%s,%s)" % (flab, klab), ["tuple", "2", ftok, enc_bool(bool(kv))], lambda h0, h1, ff=ff, kv=kv: (ff(h0, h1), kv)))
        vals.append(("(%s,True,1)" % flab, ["tuple", "3", ftok, "T"], lambda h0, h1, ff=ff: (ff(h0, h1), True, 1)))
        vals.append(("(%s,h1,True,False)" % flab, ["tuple", "4", ftok, "T"], lambda h0, h1, ff=ff: (ff(h0, h1), h1, True, False)))
    for name in ("ValueError", "KeyError", "RuntimeError", "ZeroDivisionError", "OSError", "AssertionError", "StopIteration"):
        cls = {"ValueError": ValueError, "KeyError": KeyError, "RuntimeError": RuntimeError, "ZeroDivisionError": ZeroDivisionError,
               "OSError": OSError, "AssertionError": AssertionError, "StopIteration": StopIteration}[name]
        vals.append(("raise " + name, ["raises"], lambda h0, h1, cls=cls: cls("resolver failed")))
    for name in sorted(n for n in dir(ex) if n.startswith("Cloud") and isinstance(getattr(ex, n), type)):
        cls = getattr(ex, name)
        tok = ["temp"] if issubclass(cls, ex.CloudTemporaryError) else ["raises"]
        vals.append(("raise " + name, tok, lambda h0, h1, cls=cls: cls("resolver failed")))
    return vals


def tie_safe_call():
    """every value x both handle orders x object types, on a real SyncManager"""
    import cloudsync.exceptions as ex
    from cloudsync.types import DIRECTORY, FILE
    w = RWorld("oid-oid")
    lines, reals, labels = [], [], []
    try:
        smgr = w.cs.smgr
        call = getattr(smgr, "_SyncManager__safe_call_resolver")
        for lab, toks, fac in tie_values():
            for s0 in (0, 1):
                for t0, t1 in ((FILE, FILE), (DIRECTORY, FILE), (FILE, DIRECTORY), (DIRECTORY, DIRECTORY)):
                    h0, h1 = StubHandle(s0, t0), StubHandle(1 - s0, t1)
                    called = []

                    def resolver(f1, f2, fac=fac, called=called, h0=h0, h1=h1):
                        called.append((f1 is h0, f2 is h1))
                        v = fac(h0, h1)
                        if isinstance(v, BaseException):
                            raise v
                        return v
                    smgr.set_resolver(resolver)
                    try:
                        ret = call([h0, h1])
                        if isinstance(ret, tuple) and len(ret) == 2:
                            if ret[0] is h0:
                                first = "h0"
                            elif ret[0] is h1:
                                first = "h1"
                            elif hasattr(ret[0], "read") and hasattr(ret[0], "close"):
                                first = "d9"
                            else:
                                first = "?notfile"
                            real = "pair %s %s" % (first, enc_bool(bool(ret[1])))
                        else:
                            real = "asis"
                    except ex.CloudTemporaryError:
                        real = "reraised"
                    except Exception as e:  # noqa
                        real = "!" + type(e).__name__
                    if called and called[0] != (True, True):
                        real += " ?args"
                    real += " " + enc_bool(bool(called))
                    lines.append("safe %s %s %s %s" % ("LR"[s0], "F" if t0 == FILE else "D", "F" if t1 == FILE else "D", " ".join(toks)))
                    reals.append(real)
                    labels.append(lab)
    finally:
        w.close()
    return lines, reals, labels


def tie_hash_conflict():
    """SyncEntry.hash_conflict: the real function on stub entries (full alphabet incl. falsy values) and on real entries"""
    import types as _types
    from cloudsync.sync.state import SyncEntry
    from cloudsync.types import FILE
    lines, reals = [], []
    hv = [(None, "~"), (b"", "0"), (b"h1", "1"), (b"h2", "2")]
    pv = [(None, "~"), ("", "0"), ("/p", "1")]
    for lh, lht in hv:
        for ls, lst in hv:
            for lp, lpt in pv:
                for rh, rht in hv:
                    for rs, rst in hv:
                        for rp, rpt in pv:
                            fake = {0: _types.SimpleNamespace(hash=lh, sync_hash=ls, path=lp), 1: _types.SimpleNamespace(hash=rh, sync_hash=rs, path=rp)}
                            try:
                                r = enc_bool(bool(SyncEntry.hash_conflict(fake)))
                            except Exception as e:  # noqa
                                r = "!" + type(e).__name__
                            lines.append("hc %s %s %s %s %s %s" % (lht, lst, lpt, rht, rst, rpt))
                            reals.append(r)
    # real entries inside a real SyncState
    w = RWorld("oid-oid")
    try:
        st = w.cs.state
        n = 0
        hv2 = [(None, "~"), (b"h1", "1"), (b"h2", "2")]
        for lh, lht in hv2:
            for ls, lst in hv2:
                for rh, rht in hv2:
                    for rs, rst in hv2:
                        for lp, lpt in ((None, "~"), ("/local/q%d", "1")):
                            for rp, rpt in ((None, "~"), ("/remote/q%d", "1")):
                                n += 1
                                ent = SyncEntry(st, FILE)
                                ent[0].oid = "lx%d" % n
                                ent[1].oid = "rx%d" % n
                                if lp:
                                    ent[0].path = lp % n
                                if rp:
                                    ent[1].path = rp % n
                                ent[0].hash, ent[0].sync_hash, ent[1].hash, ent[1].sync_hash = lh, ls, rh, rs
                                try:
                                    r = enc_bool(bool(ent.hash_conflict()))
                                except Exception as e:  # noqa
                                    r = "!" + type(e).__name__
                                lines.append("hc %s %s %s %s %s %s" % (lht, lst, lpt, rht, rst, rpt))
                                reals.append(r)
    finally:
        w.close()
    return lines, reals


def diff_lines(lines, reals, model, labels=None, limit=5):
    dis = []
    for i, (l, r, m) in enumerate(zip(lines, reals, model)):
        if r != m:
            d = {"line": l, "implementation": r, "model": m}
            if labels:
                d["python_value"] = labels[i]
            dis.append(d)
            if len(dis) >= limit:
                break
    return dis


# ----------------------------------------------------------------------------------------------------------------
# (B) trace refinement: one monitor line per run

def monitor_line(case, out):
    """None if the run is outside the contract's premise (see `effective`)"""
    eff = effective(case, out)
    if eff is None:
        return None
    tags = Tags()
    fold = case.get("fold", False)
    rels = (case["rel"], case.get("rel_r", case["rel"]))
    cl, cr = tags.tag(eff[0]), tags.tag(eff[1])
    base = tags.tag(case["base"]) if case["shape"] == "ee" else None
    a = case["answer"]
    atok = answer_token(a, case.get("temp", 0))
    if a["kind"] == "merged":
        atok = atok % (tags.tag(a["data"]), enc_bool(a["keep"]))
    if a["kind"] == "nontuple" and a["what"] in ("handle0", "handle1") and eff[0 if a["what"] == "handle0" else 1] == b"":
        atok = atok.replace("nontuple T", "nontuple F")       # a bare handle of an EMPTY file is falsy (ResolveFile.__len__ == 0)

    def tg(x):
        return 0 if x in (None, "D") else tags.tag(x)
    calls = []
    for c in out["log"]:
        pok = all(str(c["paths"][i]).lower() == (ROOTS[c["sides"][i]] + rels[c["sides"][i]]).lower() for i in (0, 1) if c["sides"][i] in (0, 1))
        lens_ok = all(c["lens"][i] is None or (c["actual"][c["sides"][i]] not in (None, "D") and c["lens"][i] == len(c["actual"][c["sides"][i]]))
                      for i in (0, 1) if c["sides"][i] in (0, 1))
        calls.append("%s%s:%s:%s:%s:%d:%d" % ("LR"[c["sides"][0]] if c["sides"][0] in (0, 1) else "?", "LR"[c["sides"][1]] if c["sides"][1] in (0, 1) else "?",
                                             "~" if c["bytes"][0] is None else tags.tag(c["bytes"][0]), "~" if c["bytes"][1] is None else tags.tag(c["bytes"][1]),
                                             enc_bool(pok and lens_ok), tg(c["actual"][0]), tg(c["actual"][1])))
    # calls made before the conflict existed or after quiescence count as calls too
    for _ in range(out.get("pre_calls", 0) + out.get("late_calls", 0)):
        calls.append("LR:~:~:T:%d:%d" % (cl, cr))
    sides = []
    stable = True
    for si, key in enumerate(("L", "R")):
        main, sibs, _stray = sib_split(out[key], rels[si], fold)
        mt = "~" if main is None else ("0" if main == "D" else str(tags.tag(main)))
        sides.append(" ".join([mt] + [("0" if sb == "D" else str(tags.tag(sb))) for sb in sibs]))
        if out.get(key + "2") is not None and out[key + "2"] != out[key]:
            stable = False
    quiet = bool(out["quiet"]) and stable
    nfaults = 1 if (out.get("fault_counter") or {}).get("hit") else 0
    return "c05 | %s %d %d | %s | %s | %s %d | %s | %s" % ("~" if base is None else base, cl, cr, atok, " ".join(calls), enc_bool(quiet), nfaults,
                                                          sides[0], sides[1])


def immediate_effect_line(case, out):
    """(driver line, real result) for the state right after the step in which the resolver answered: differential tie of the model's
    `resolveStep` (the branch-by-branch model of `resolve_conflict` / `__resolver_merge_upload`).  None when not applicable."""
    if "immediate" not in out or out.get("reedit_applied") or (out.get("fault_counter") or {}).get("hit") or known_bad_answer(case["answer"]):
        return None
    call = out["log"][out["immediate_call"] - out.get("pre_calls", 0)] if out["immediate_call"] - out.get("pre_calls", 0) < len(out["log"]) else None
    if call is None or sorted(call["sides"]) != [0, 1]:
        return None
    s0 = call["sides"][0]
    cont = {0: case["cl"], 1: case["cr"]}
    tags = Tags()
    c0, c1 = tags.tag(cont[s0]), tags.tag(cont[1 - s0])
    a = case["answer"]
    if a["kind"] == "pick":
        fh, keep = ("h0" if a["side"] == s0 else "h1"), a["keep"]
    elif a["kind"] == "merged":
        fh, keep = "d%d" % tags.tag(a["data"]), a["keep"]
    else:
        fh, keep = ("h0" if s0 == 1 else "h1"), True        # fallback: the REMOTE handle, keep (tie A checks this normalisation)

    def enc(side_state):
        main, sibs = side_state
        return "%s [%s]" % ("~" if main is None else ("0" if main == "D" else tags.tag(main)), ",".join(str(0 if x == "D" else tags.tag(x)) for x in sibs))
    real = "L %s R %s" % (enc(out["immediate"][0]), enc(out["immediate"][1]))
    return "step %s %d %d %s %s" % ("LR"[s0], c0, c1, fh, enc_bool(keep)), real


GRID_ANSWERS = PICKS + [{"kind": "merged", "keep": False}, {"kind": "none"}, {"kind": "raises"}, {"kind": "nontuple"}, {"kind": "wronglen"},
                        {"kind": "notfile"}, {"kind": "falsy"}]
GRID_CONTENTS = ["differ", "equal", "empty-L", "empty-R", "large", "equal-empty", "noop-L", "noop-R"]


def grid_cases(rng, flavours, round_no, per_combo):
    """systematic part: shape x answer class x content class as a full grid, each combination on `per_combo` flavours
    (rotating, so that seeds/rounds cover every flavour), secondary parameters random"""
    i = round_no * 100000
    rot = rng.randint(0, len(flavours) - 1)
    combo = 0
    for shape in ("cc", "ee"):
        for a0 in GRID_ANSWERS:
            for cc in GRID_CONTENTS:
                if cc.startswith("noop") and shape == "cc":
                    continue
                combo += 1
                for j in range(per_combo):
                    fl = flavours[(rot + combo + j * 3) % len(flavours)]
                    i += 1
                    case = gen_case(rng, i, fl)
                    case["shape"] = shape
                    if shape == "ee":
                        case.pop("rel_r", None)
                    base = case["base"]
                    if cc == "differ":
                        cl, cr = content_bytes("small", b"L%d" % i), content_bytes(rng.choice(["small", "nul"]), b"R%d" % i)
                    elif cc == "equal":
                        cl = cr = content_bytes(rng.choice(["small", "nul", "large"]), b"E%d" % i)
                    elif cc == "empty-L":
                        cl, cr = b"", content_bytes("small", b"R%d" % i)
                    elif cc == "empty-R":
                        cl, cr = content_bytes("small", b"L%d" % i), b""
                    elif cc == "large":
                        cl, cr = content_bytes("large", b"L%d" % i), content_bytes(rng.choice(["large", "small"]), b"R%d" % i)
                    elif cc == "equal-empty":
                        cl = cr = b""
                    elif cc == "noop-L":
                        cl, cr = base, content_bytes("small", b"R%d" % i)
                    else:
                        cl, cr = content_bytes("small", b"L%d" % i), base
                    case["cl"], case["cr"], case["cclass"] = cl, cr, cc
                    a = dict(a0)
                    if a["kind"] == "merged":
                        a["data"], a["dclass"] = merged_data(rng, cl, cr, i)
                    elif a["kind"] == "raises":
                        a["exc"] = rng.choice(["value", "key", "runtime", "cloudfnf", "cloudexists"])
                    elif a["kind"] == "nontuple":
                        a["what"] = rng.choice(["handle0", "handle1", "handle0", "handle1", "str", "int", "list", "dict", "bytesio"])
                    elif a["kind"] == "falsy":
                        a["what"] = rng.choice(["zero", "false", "emptystr", "emptylist", "emptybytes"])
                    elif a["kind"] == "wronglen":
                        a["n"] = rng.choice([0, 0, 1, 3, 4])
                    elif a["kind"] == "notfile":
                        a["what"], a["keep"] = rng.choice(["str", "none", "bytes", "int", "obj"]), rng.random() < 0.5
                    case["answer"] = a
                    yield case


def shrink(case, still_fails):
    """greedy simplification of a failing case (every candidate is re-run on the real engine)"""
    cur = dict(case)
    for key, val in (("fault", None), ("reedit", None), ("sched", []), ("temp", 0), ("read", "full"), ("storage", "mock"), ("hashes", ["md5", "md5"]), ("bystander", False),
                     ("rel", "/a"), ("first", 0), ("base_side", 0), ("flavour", "oid-oid")):
        if cur.get(key) == val:
            continue
        cand = dict(cur)
        cand[key] = val
        if still_fails(cand):
            cur = cand
    return cur


def enc_case(x):
    if isinstance(x, bytes):
        return {"hex": x.hex()}
    if isinstance(x, dict):
        return {k: enc_case(v) for k, v in x.items()}
    if isinstance(x, (list, tuple)):
        return [enc_case(v) for v in x]
    return x


def dec_case(x):
    if isinstance(x, dict):
        if set(x) == {"hex"}:
            return bytes.fromhex(x["hex"])
        return {k: dec_case(v) for k, v in x.items()}
    if isinstance(x, list):
        return [dec_case(v) for v in x]
    return x


def replay_summary(case, out, why):
    d = {"property": PID, "case": case_brief(case), "exact_case": enc_case(case),
         "how_to_replay": "./check C05 --replay <this file>  (harness/c05_resolver.py run_case(exact_case): base quiesced (edit/edit), then both user "
                          "operations, then `sched` (with the further edit / injected fault if any), then fair random stepping seeded with qseed until quiet)",
         "failure": why}
    if out and not out.get("setup_failed"):
        d.update({"quiet": out.get("quiet"), "left": tree_lines_b(out.get("L", {})), "right": tree_lines_b(out.get("R", {})),
                  "resolver_calls": [{"labels": c["sides"], "paths": c["paths"], "bytes": [brief(b) if b is not None else None for b in c["bytes"]]}
                                     for c in out.get("log", [])][:6], "steps": out.get("steps")})
    return d


def tree_lines_b(t):
    return sorted("%s %s" % (k, "D" if v[0] == "d" else "F:" + brief(v[1])) for k, v in t.items())


# ----------------------------------------------------------------------------------------------------------------
# known findings: exact replays on the real engine

def replay_merged_keep():
    """flavour oid-oid, L creates /a = b'LLL', R creates /a = b'RRR', resolver returns (BytesIO(b'MM'), True); fair stepping LRS x 100"""
    script = Script({"kind": "merged", "data": b"MM", "keep": True})
    w = RWorld("oid-oid", resolver=script)
    try:
        w.user(0, "create", "/local/a", b"LLL")
        w.user(1, "create", "/remote/a", b"RRR")
        n = w.run_to_quiet(cap=300)
        tl, tr = w.tree(0), w.tree(1)
        nested = min(len([k for k in t if conflicted(k)]) for t in (tl, tr))
        return {"quiet_after": n, "resolver_calls": len(script.log), "nested_copies_per_side": nested,
                "reproduced": n is None and len(script.log) >= 6 and nested >= 6}
    finally:
        w.close()


def replay_falsy(value_kind):
    """flavour oid-oid, L creates /a = b'LLL', R creates /a = b'RRR' (or b'' for the bare empty handle), resolver returns a falsy non-None value"""
    if value_kind == "empty-handle":
        script = Script({"kind": "nontuple", "what": "handle1"})
        cl, cr = b"LLL", b""
    elif value_kind == "()":
        script = Script({"kind": "wronglen", "n": 0})
        cl, cr = b"LLL", b"RRR"
    else:
        script = Script({"kind": "falsy", "what": value_kind})
        cl, cr = b"LLL", b"RRR"
    w = RWorld("oid-oid", resolver=script)
    try:
        w.user(0, "create", "/local/a", cl)
        w.user(1, "create", "/remote/a", cr)
        n = w.run_to_quiet(cap=300)
        tl, tr = w.tree(0), w.tree(1)
        untouched = tl == {"/a": ("f", cl)} and tr == {"/a": ("f", cr)}
        fallback = n is not None and len(script.log) == 1 and tl == {"/a": ("f", cr), "/a.conflicted": ("f", cl)} and tr == {"/a": ("f", cr)}
        return {"value": value_kind, "quiet_after": n, "resolver_calls": len(script.log), "trees_untouched": untouched,
                "left": tree_lines_b(tl), "right": tree_lines_b(tr),
                "reproduced": n is None and len(script.log) >= 10 and untouched, "resolved_as_remote_wins_local_kept": fallback}
    finally:
        w.close()


def replay_stale_peer():
    """flavour oid-oid; R creates /a = b'data-R16', L creates /a = b'data-L16'; resolver raises CloudTemporaryError at its first call and then
    answers (BytesIO(b'MERGED'), False); engine steps L,R,S,... until the first call; the local user overwrites /a with b'XXXX'; steps L,L
    (the engine takes the event in); then fair stepping in the order R,S,L to quiet.  Before commit <SHA_B> the second call's LOCAL handle still
    carried b'data-L16'."""
    script = Script({"kind": "merged", "data": b"MERGED", "keep": False}, temp=1, read="full")
    w = RWorld("oid-oid", resolver=script)
    try:
        script.probe = lambda: tuple(sib_split(w.tree(s_), "/a")[0] for s_ in (0, 1))
        w.user(1, "create", "/remote/a", b"data-R16")
        w.user(0, "create", "/local/a", b"data-L16")
        pre = 0
        for x in "LRS" * 10:
            if script.log:
                break
            w.step(x)
            pre += 1
        w.user(0, "write", "/local/a", b"XXXX")
        w.step("L")
        w.step("L")
        n = w.run_to_quiet(cap=300, order="RSL")
        tl, tr = w.tree(0), w.tree(1)
        last = script.log[-1] if script.log else None
        stale = bool(last) and len(script.log) == 2 and last["actual"][0] == b"XXXX" and \
            last["bytes"][list(last["sides"]).index(0)] == b"data-L16"
        lost = tl == {"/a": ("f", b"MERGED")} and tr == {"/a": ("f", b"MERGED")}
        case = {"shape": "cc", "rel": "/a", "cl": b"data-L16", "cr": b"data-R16", "base": b"", "answer": script.answer, "temp": 1,
                "reedit": {"side": 0, "data": b"XXXX"}}
        out = {"quiet": n is not None, "L": tl, "R": tr, "log": script.log, "reedit_applied": "yes"}
        line = monitor_line(case, out)
        verdict = run_driver("monc05", [line])[0]
        return {"steps_before_first_call": pre, "resolver_calls": len(script.log), "second_call_local_handle_bytes": brief(last["bytes"][list(last["sides"]).index(0)]) if last else None,
                "local_side_actually_held": brief(last["actual"][0]) if last else None, "final_left": tree_lines_b(tl), "final_right": tree_lines_b(tr),
                "monitor_line": line, "monitor_verdict": verdict, "later_edit_silently_lost": lost,
                "reproduced": stale and verdict == "reject handles-are-not-the-two-sides",
                "handles_current_and_contract_ok": bool(last) and last["actual"][0] == b"XXXX" and
                last["bytes"][list(last["sides"]).index(0)] == b"XXXX" and verdict == "ok"}
    finally:
        w.close()


# ----------------------------------------------------------------------------------------------------------------

def run(res, tier, seed, proof_broken, replay):
    import collections
    import_repo()
    opens, fixed = load_known_findings(PID)
    rng = rng_for(seed, "c05")
    broken = list(proof_broken)
    if replay:
        # re-run one recorded case on the real engine and let the Lean monitor decide it again
        import json as _json
        with open(replay if os.path.isabs(replay) else os.path.join(VERIF, replay)) as f:
            rec_ = _json.load(f)
        case = dec_case(rec_["exact_case"])
        out = run_case(case)
        ln = None if out.get("setup_failed") else monitor_line(case, out)
        v = run_driver("monc05", [ln])[0] if ln else "not-applicable"
        print("REPLAY %s: monitor says %s; python statement says %s" % (replay, v, python_contract(case, out)))
        res.coverage.update({"evaluations": 1, "programs": 1, "distinct_nontrivial": 1, "rule": "replay of one recorded case", "samples": [case_brief(case)],
                             "disagreements_checked": 1, "fingerprints": fingerprints(FP)})
        if v not in ("ok", "not-applicable"):
            d = replay_summary(case, out, python_contract(case, out) or v)
            d["monitor_verdict"] = v
            res.violation(d, name=os.path.basename(replay))
        return

    # 2. known findings, replayed exactly on the real engine
    kf = {}
    if "merged-keep-never-settles" in opens:
        r = replay_merged_keep()
        kf["merged-keep-never-settles"] = r
        if r["reproduced"]:
            res.known.append("merged-keep-never-settles :: " + opens["merged-keep-never-settles"])
        else:
            res.notes.append("known finding merged-keep-never-settles no longer reproduces (stale): %r" % (r,))
    # fixed findings: the exact replays must now satisfy the contract; a regression is a violation with the replay
    if "falsy-answer-never-resolved" in fixed:
        rs = [replay_falsy(k) for k in ("()", "zero", "false", "empty-handle")]
        kf["falsy-answer-never-resolved"] = rs
        bad = [r for r in rs if not r["resolved_as_remote_wins_local_kept"]]
        if bad:
            res.violation({"property": PID, "kind": "regression of fixed finding", "id": "falsy-answer-never-resolved",
                           "replay": "flavour oid-oid; local user creates /a = b'LLL', remote user creates /a = b'RRR' (b'' for the bare empty handle); "
                                     "the resolver returns the falsy value; fair stepping L,R,S", "expected": "one resolver call, then quiet with the remote "
                                     "version at /a on both sides and the local one as /a.conflicted on the local side", "observed": bad})
    if "stale-peer-handle-after-further-edit" in fixed:
        r = replay_stale_peer()
        kf["stale-peer-handle-after-further-edit"] = r
        if not r["handles_current_and_contract_ok"]:
            res.violation({"property": PID, "kind": "regression of fixed finding", "id": "stale-peer-handle-after-further-edit",
                           "replay": replay_stale_peer.__doc__, "expected": "the second call's LOCAL handle reads b'XXXX' (what the local side holds)", "observed": r})

    # 3a. decision tables: real functions vs model
    l1, r1, labs = tie_safe_call()
    m1 = run_driver("resolver", l1)
    d1 = diff_lines(l1, r1, m1, labs)
    l2, r2 = tie_hash_conflict()
    m2 = run_driver("resolver", l2)
    d2 = diff_lines(l2, r2, m2)
    tie_hist = collections.Counter(x.split()[0] for x in r1)
    # the falsy rows are the open finding: the model agrees with the code there; they are not violations of the TIE
    if d1:
        broken.append("correspondence __safe_call_resolver: %r" % (d1[0],))
    if d2:
        broken.append("correspondence hash_conflict: %r" % (d2[0],))

    # 3b. trace refinement
    flavours = list(FLAVOURS)
    cases = []
    rounds, per_combo = (1, 8) if tier == "quick" else (12, 8)
    for k in range(rounds):
        cases += list(grid_cases(rng, flavours, k, per_combo))
    nrand = 40 if tier == "quick" else 1200
    for i in range(nrand):
        for fl in flavours:
            cases.append(gen_case(rng, 10 ** 6 + i, fl))
    lines, kept, hard = [], [], []
    imm_lines, imm_reals = [], []
    hist = collections.Counter()
    setup_failed = 0
    for case in cases:
        assert not known_bad_answer(case["answer"]) and not known_bad_case(case)
        out = run_case(case)
        if out.get("setup_failed"):
            setup_failed += 1
            hard.append((case, out, "setup: " + out["setup_failed"]))
            continue
        ln = monitor_line(case, out)
        if ln is None:
            hist["outside-premise:further-edit-after-settlement"] += 1
            continue
        lines.append(ln)
        kept.append((case, out))
        im = immediate_effect_line(case, out)
        if im:
            imm_lines.append(im[0])
            imm_reals.append(im[1])
        hist["further_edit:" + str(case["reedit"]["when"] if case.get("reedit") else "no")] += 1
        hist["injected_fault:" + str((out.get("fault_counter") or {}).get("hit"))] += 1
        hist["name_case_differs:" + str(bool(case.get("rel_r") and case["rel_r"] != case["rel"]))] += 1
        hist["flavour:" + case["flavour"]] += 1
        hist["shape:" + case["shape"]] += 1
        hist["answer:" + case["answer"]["kind"] + (":keep" if case["answer"].get("keep") else "")] += 1
        hist["contents:" + case.get("cclass", "?")] += 1
        hist["hashes:" + "/".join(case["hashes"])] += 1
        hist["storage:" + case["storage"]] += 1
        hist["read:" + case["read"]] += 1
        hist["temp:%d" % case["temp"]] += 1
        hist["sched_len:%d" % min(len(case["sched"]), 15)] += 1
        hist["resolver_calls:%d" % len(out["log"])] += 1
        hist["first_handle:" + ("none" if not out["log"] else "LR"[out["log"][0]["sides"][0]])] += 1
    verdicts = run_driver("monc05", lines) if lines else []
    # 3a'. `resolveStep` vs what the real resolve_conflict did in the very step the resolver answered (pending bookkeeping not compared)
    imm_model = [" ".join(x.split(" ")[:6]) for x in run_driver("resolver", imm_lines)] if imm_lines else []
    d3 = diff_lines(imm_lines, imm_reals, imm_model)
    if d3:
        broken.append("correspondence resolve_conflict immediate effect: %r" % (d3[0],))
    rejects = [(v, c, o) for v, (c, o) in zip(verdicts, kept) if v != "ok"]
    # the independent Python statement of the contract must agree with the Lean monitor on every run (cross-check of the two oracles)
    cross = [(v, python_contract(c, o)) for v, (c, o) in zip(verdicts, kept)]
    cross_bad = [(v, p) for v, p in cross if (v == "ok") != (p is None)]
    if cross_bad:
        res.notes.append("Lean monitor and Python contract disagree on %d runs, e.g. %r" % (len(cross_bad), cross_bad[0]))

    # 3c. schedule sweep: the same conflict under many schedules must give the same outcome
    sweep_groups, sweep_bad, sweep_runs = 0, [], []
    for gi in range(12 if tier == "quick" else 120):
        base_case = gen_case(rng, 2 * 10 ** 6 + gi, rng.choice(flavours))
        while base_case["cl"] == base_case["cr"]:
            base_case = gen_case(rng, 2 * 10 ** 6 + gi + 500, base_case["flavour"])
        base_case.pop("reedit", None)
        base_case.pop("fault", None)
        sigs = set()
        for si in range(8):
            c = dict(base_case)
            c["sched"] = gen_sched(rng) if si else []
            c["qseed"] = rng.randint(0, 10 ** 6)
            o = run_case(c)
            if o.get("setup_failed"):
                continue
            sl = sib_split(o["L"], c["rel"], c.get("fold", False))
            sr = sib_split(o["R"], c.get("rel_r", c["rel"]), c.get("fold", False))
            sig = (o["quiet"], len(o["log"]), sl[0], sr[0], tuple(sorted(map(bytes, [x for x in sl[1] + sr[1] if x != "D"]))))
            sigs.add(sig)
            sweep_runs.append((monitor_line(c, o), c, o))
        sweep_groups += 1
        if len(sigs) > 1:
            sweep_bad.append(base_case)

    if sweep_runs:
        for v, (ln, c, o) in zip(run_driver("monc05", [x[0] for x in sweep_runs]), sweep_runs):
            lines.append(ln)
            if v != "ok":
                rejects.append((v, c, o))
    res.coverage.update({
        "evaluations": len(l1) + len(l2) + len(lines), "programs": len(lines),
        "distinct_nontrivial": len({(c["flavour"], tuple(c["hashes"]), c["storage"], c["shape"], c.get("cclass"), repr(sorted((k, v) for k, v in c["answer"].items() if k != "data")),
                                     c["temp"], c["read"], tuple(c["sched"]), repr(c.get("reedit") and (c["reedit"]["side"], c["reedit"]["when"])), c.get("fault"), l)
                                    for l, (c, o) in zip(lines, kept) if o["log"] or effective(c, o)[0] == effective(c, o)[1]}) + len(set(zip(l1, r1))),
        "rule": "(A) every python answer value (%d values: None, 8 falsy, 10 truthy non-tuples, tuples of length 0..4 x 9 first elements x 7 keep values, "
                "7 builtin exceptions, every cloudsync exception class) x both handle orders x 4 object-type pairs through the REAL "
                "_SyncManager__safe_call_resolver on a real SyncManager, and SyncEntry.hash_conflict over {None, falsy, 2 values}^4 x path {None, '', set}^2 "
                "(stub entries) + real entries, diffed against the Lean model (driver layer `resolver`); (B) real engine runs: 8 flavours x {create/create, "
                "edit/edit} x 11 answer classes (falsy garbage included) x 8 content classes (differ, equal, empty either side, large > 64 KiB, both empty, no-op edit either side) "
                "as a full grid, plus random cases; hash-function pairs md5/md5, md5/sha1, sha256hex/md5, salted/sha1; dict and SQLite storage; resolver read "
                "modes full/none/partial/len; 0-2 leading CloudTemporaryError; random engine schedules (0-14 steps of L/R/S and fixed patterns) after the "
                "conflict exists, then fair random stepping to quiet; one line per run decided by the Lean monitor `monc05`; distinct = distinct (flavour, hash pair, storage, "
                "shape, content class, answer, retries, read mode, schedule, further edit, fault position, monitor line) of runs that reached a resolver call or "
                "the silent merge + distinct (tie line, result) pairs" % len(tie_values()),
        "samples": [{"tie": l1[0], "implementation": r1[0], "model": m1[0]},
                    {"monitor_line": lines[0] if lines else None, "verdict": verdicts[0] if verdicts else None, "case": case_brief(kept[0][0]) if kept else None}],
        "disagreements_checked": len(d1) + len(d2) + len(d3) + len(rejects) + len(hard) + len(sweep_bad),
        "traces_validated_against_impl": len(lines), "tie_safe_call_lines": len(l1), "tie_hash_conflict_lines": len(l2),
        "tie_resolve_step_lines": len(imm_lines), "tie_resolve_step_distinct": len(set(zip(imm_lines, imm_reals))),
        "tie_result_histogram": dict(tie_hist), "generator_histogram": dict(sorted(hist.items())),
        "schedule_sweep_groups": sweep_groups, "schedule_sweep_groups_with_differing_outcomes": len(sweep_bad),
        "setup_failed": setup_failed, "known_finding_replays": kf, "fingerprints": fingerprints(FP),
        "oracle_cross_check_disagreements": len(cross_bad),
    })
    res.assumptions += ["step-atomic engine semantics: the two user operations and the engine steps do not overlap",
                        "harness determinisation (sequential ids, virtual clock, insertion-ordered sets) selects one admissible behaviour of the real program",
                        "hash functions are injective on the generated contents (md5/sha1/sha256 digests); the model theorem states injectivity as a hypothesis",
                        "the outcome theorems are about the model of the answer handling; the engine is tied to it by the differential table tie (A) and by "
                        "sampled trace refinement (B) (partial); schedule independence is sampled, not proved for the engine",
                        "the answer on which the engine itself breaks the contract (merged data with keep=True) is excluded from the generator by a syntactic "
                        "filter and replayed exactly as a known finding; a transient fault at an upload of merged data is never injected (C10's subject)"]

    # verdicts
    def fails(c):
        o = run_case(c)
        return (not o.get("setup_failed")) and python_contract(c, o) is not None
    for v, c, o in rejects[:3]:
        small = shrink(c, fails) if python_contract(c, o) else c
        o2 = run_case(small)
        why = python_contract(small, o2) or v
        d = replay_summary(small, o2, why)
        d["monitor_verdict"] = v
        d["original_case"] = case_brief(c)
        res.violation(d)
    for c, o, why in hard[:3]:
        res.violation(replay_summary(c, o, why))
    for c in sweep_bad[:2]:
        if not rejects:
            res.violation(replay_summary(c, None, "the outcome of the same conflict differs between engine schedules"))
    if broken and not rejects and not hard and not sweep_bad:
        # 4. search the implementation with the property's own statement, widening the generator
        hit = None
        srng = rng_for(seed, "c05search")
        budget = 1500 if tier == "quick" else 12000
        for i in range(budget):
            c = gen_case(srng, 3 * 10 ** 6 + i, srng.choice(flavours), allow_known_bad=True)
            if srng.random() < 0.5:
                # widen: the answer shapes next to the table rows that disagreed
                c["answer"] = dict(srng.choice(GARBAGE + PICKS + FALSY))
            if known_bad_answer(c["answer"]):
                continue
            o = run_case(c)
            if o.get("setup_failed"):
                continue
            why = python_contract(c, o)
            if why:
                hit = (c, o, why)
                break
        if hit:
            small = shrink(hit[0], fails)
            o2 = run_case(small)
            d = replay_summary(small, o2, python_contract(small, o2) or hit[2])
            d["broken"] = broken
            res.violation(d)
        else:
            res.violation({"property": PID, "kind": "proof obligation or correspondence no longer checks", "broken": broken,
                           "first_disagreements": (d1 + d2 + d3)[:3]}, no_input=True)


if __name__ == "__main__":
    if len(sys.argv) > 1 and sys.argv[1] == "--calibrate":
        calibrate(int(sys.argv[2]), int(sys.argv[3]), sys.argv[4:] or None)
    else:
        standard_main(PID, run)
