#!/venv/bin/python
"""C18 statement / write-site table of cloudsync/runnable.py (class Runnable) of the repo under test (VERIF_REPO, default /repo).

An `ast` pass over the thread-protocol methods of `Runnable`
    run, interruptable_sleep, wake, start, stop, wait, nothing_happened, __increment_backoff, stopped, started
produces two tables:

 * `runnableStmts`  : every statement of these methods in source order (docstrings and `log.*(...)` calls dropped) as
        (method, block context, kind, label text)
     - block context = the chain of enclosing compound statements ("for>try", "finally", "if>if>if" ...), so that moving
       a statement into / out of a loop, an `if` or the `finally` block changes the row;
     - kind "S": the statement's own header mentions one of the flags shared between the caller thread and the service
       thread  (__stopping, __shutdown, __interrupt, __stopped, __thread)  or calls self.do() / self.done().  These are
       exactly the statements at which the C18 harness parks a thread (one schedule tick = one such statement) and each
       of them is one labelled program counter of Model/RunnableThreads.lean;
       kind "-": every other statement (thread-local effects, calls of other protocol methods, raise/break/return);
     - label text = `ast.unparse` of the statement header (`if <test>`, `for <t> in <iter>`, `try`, or the whole simple
       statement), with "#k" appended to the k-th repetition (k >= 2) of the same text inside one method.
 * `runnableWrites` : every assignment to an attribute of `self` in these methods, per attribute in source order, as
        (attribute, method, ordinal of the write inside the method, value written)
     covering the private flags (__stopping, __shutdown, __interrupt, __stopped, __thread, __clear_on_success, __log) and the
     backoff / bookkeeping fields (in_backoff, _run_until, service_name).

Line numbers are deliberately not part of the tables.  The tables are written to lean/Csverif/Gen/RunnableSites.lean (only
when the text changes); Props/C18Sites.lean proves them equal to the audited tables the two-thread model was written from
(`decide`).  A moved, added, removed or changed statement breaks that obligation.

`significant(source)` is also used by harness/c18_runnable.py: it returns, for the *actual* source, the parking lines
{(method, lineno): label} -- the harness never uses the model's idea of where the statements are."""
import ast
import os
import sys

HERE = os.path.dirname(os.path.abspath(__file__))
VERIF = os.path.dirname(HERE)
REPO = os.environ.get("VERIF_REPO", "/repo")
REL = "cloudsync/runnable.py"
OUT = os.path.join(VERIF, "lean", "Csverif", "Gen", "RunnableSites.lean")
METHODS = ("stopped", "interruptable_sleep", "__increment_backoff", "run", "started", "nothing_happened", "wake", "start", "stop",
           "wait")
SHARED = ("__stopping", "__shutdown", "__interrupt", "__stopped", "__thread")
HOOKS = ("do", "done")


def _is_log_call(st):
    if isinstance(st, ast.Expr) and isinstance(st.value, ast.Call):
        f = st.value.func
        if isinstance(f, ast.Attribute) and isinstance(f.value, ast.Name) and f.value.id in ("log", "logging"):
            return True
        if isinstance(f, ast.Attribute) and isinstance(f.value, ast.Attribute) and f.value.attr.endswith("__log"):
            return True
    return False


def _is_docstring(st):
    return isinstance(st, ast.Expr) and isinstance(st.value, ast.Constant) and isinstance(st.value.value, str)


def _header_nodes(st):
    """the expression nodes evaluated by the statement itself (not by the statements nested in it)"""
    if isinstance(st, (ast.If, ast.While)):
        return [st.test]
    if isinstance(st, (ast.For, ast.AsyncFor)):
        return [st.target, st.iter]
    if isinstance(st, (ast.With, ast.AsyncWith)):
        return [i.context_expr for i in st.items]
    if isinstance(st, ast.Try):
        return []
    return [st]


def _header_text(st):
    if isinstance(st, ast.If):
        return "if " + ast.unparse(st.test)
    if isinstance(st, ast.While):
        return "while " + ast.unparse(st.test)
    if isinstance(st, (ast.For, ast.AsyncFor)):
        return "for %s in %s" % (ast.unparse(st.target), ast.unparse(st.iter))
    if isinstance(st, (ast.With, ast.AsyncWith)):
        return "with " + ", ".join(ast.unparse(i) for i in st.items)
    if isinstance(st, ast.Try):
        return "try"
    return ast.unparse(st)


def _mentions_shared(nodes):
    for n in nodes:
        for sub in ast.walk(n):
            if isinstance(sub, ast.Attribute) and isinstance(sub.value, ast.Name) and sub.value.id == "self":
                if sub.attr in SHARED:
                    return True
            if isinstance(sub, ast.Call) and isinstance(sub.func, ast.Attribute) and isinstance(sub.func.value, ast.Name) \
                    and sub.func.value.id == "self" and sub.func.attr in HOOKS:
                return True
    return False


def _blocks(st):
    """(context tag, statement list) of the nested blocks of a compound statement"""
    if isinstance(st, ast.If):
        return [("if", st.body), ("else", st.orelse)]
    if isinstance(st, (ast.For, ast.AsyncFor)):
        return [("for", st.body), ("forelse", st.orelse)]
    if isinstance(st, ast.While):
        return [("while", st.body), ("whileelse", st.orelse)]
    if isinstance(st, (ast.With, ast.AsyncWith)):
        return [("with", st.body)]
    if isinstance(st, ast.Try):
        out = [("try", st.body)]
        for h in st.handlers:
            out.append(("except " + (ast.unparse(h.type) if h.type is not None else "*"), h.body))
        out += [("tryelse", st.orelse), ("finally", st.finalbody)]
        return out
    return []


def analyse(source):
    """-> (stmts [(method, ctx, kind, text, lineno)], writes [(attr, method, ordinal, value)]) for class Runnable"""
    tree = ast.parse(source)
    cls = None
    for n in tree.body:
        if isinstance(n, ast.ClassDef) and n.name == "Runnable":
            cls = n
    if cls is None:
        raise ValueError("class Runnable not found")
    stmts, writes = [], []
    funcs = {f.name: f for f in cls.body if isinstance(f, (ast.FunctionDef, ast.AsyncFunctionDef))}
    for m in METHODS:
        f = funcs.get(m)
        if f is None:
            stmts.append((m, "", "-", "<method missing>", 0))
            continue
        seen = {}
        wcount = [0]

        def walk(body, ctx):
            for st in body:
                if _is_docstring(st) or _is_log_call(st):
                    continue
                if isinstance(st, (ast.FunctionDef, ast.AsyncFunctionDef, ast.ClassDef)):
                    continue
                text = _header_text(st)
                k = seen.get(text, 0) + 1
                seen[text] = k
                label = text if k == 1 else "%s#%d" % (text, k)
                kind = "S" if _mentions_shared(_header_nodes(st)) else "-"
                stmts.append((m, ctx, kind, label, st.lineno))
                tgts = []
                if isinstance(st, ast.Assign):
                    tgts = [(t, st.value) for t in st.targets]
                elif isinstance(st, ast.AnnAssign) and st.value is not None:
                    tgts = [(st.target, st.value)]
                elif isinstance(st, ast.AugAssign):
                    tgts = [(st.target, st)]
                for (t, v) in tgts:
                    if isinstance(t, ast.Attribute) and isinstance(t.value, ast.Name) and t.value.id == "self":
                        writes.append((t.attr, m, wcount[0], ast.unparse(v)))
                        wcount[0] += 1
                for (tag, sub) in _blocks(st):
                    if sub:
                        walk(sub, (ctx + ">" if ctx else "") + tag)
        walk(f.body, "")
    # per attribute, source order
    order = []
    for w in writes:
        if w[0] not in order:
            order.append(w[0])
    writes.sort(key=lambda w: order.index(w[0]))
    return stmts, writes


def significant(source):
    """{(method, lineno): "method:label"} for the parking statements of the actual source, and the per-method label order"""
    stmts, _w = analyse(source)
    park = {}
    for (m, _ctx, kind, label, lineno) in stmts:
        if kind == "S":
            park[(m, lineno)] = "%s:%s" % (m, label)
    return park


def read_source():
    return open(os.path.join(REPO, REL), encoding="utf8").read()


def lean_str(s):
    return '"' + s.replace("\\", "\\\\").replace('"', '\\"').replace("\n", "\\n") + '"'


def render(stmts, writes):
    lines = ["/- GENERATED by tools/gen_runnable_sites.py from cloudsync/runnable.py of the repo under test -- do not edit.",
             "   runnableStmts : (method, block context, kind S = touches a flag shared between the two threads / calls do() or done(),",
             "                    statement header text) for every statement of the protocol methods of class Runnable;",
             "   runnableWrites: (attribute of self, method, ordinal of the write inside the method, value written).",
             "   Props/C18Sites.lean proves both equal to the audited tables of Model/RunnableThreads.lean. -/",
             "namespace CS.Gen",
             "",
             "def runnableStmts : List (String × String × String × String) := ["]
    lines.append(",\n".join("  (%s, %s, %s, %s)" % (lean_str(m), lean_str(c), lean_str(k), lean_str(t)) for (m, c, k, t, _l) in stmts))
    lines += ["]", "", "def runnableWrites : List (String × String × Nat × String) := ["]
    lines.append(",\n".join("  (%s, %s, %d, %s)" % (lean_str(a), lean_str(m), n, lean_str(v)) for (a, m, n, v) in writes))
    lines += ["]", "", "end CS.Gen", ""]
    return "\n".join(lines)


def generate(write=True):
    try:
        stmts, writes = analyse(read_source())
    except (OSError, SyntaxError, ValueError) as e:
        stmts, writes = [("<unparsable>", "", "-", type(e).__name__, 0)], []
    text = render(stmts, writes)
    changed = False
    if write:
        old = open(OUT, encoding="utf8").read() if os.path.exists(OUT) else None
        if old != text:
            os.makedirs(os.path.dirname(OUT), exist_ok=True)
            tmp = OUT + ".tmp%d" % os.getpid()
            with open(tmp, "w", encoding="utf8") as f:
                f.write(text)
            os.replace(tmp, OUT)
            changed = True
    return stmts, writes, changed


if __name__ == "__main__":
    s, w, ch = generate(write="--dry" not in sys.argv)
    for row in s:
        print(row)
    for row in w:
        print(row)
    print("%d statements (%d shared), %d writes; file %s" % (len(s), sum(1 for r in s if r[2] == "S"), len(w),
                                                            "rewritten" if ch else "unchanged"))
