#!/venv/bin/python
"""C15 lock-site extractor: an `ast` pass over the repo under test (VERIF_REPO, default /repo).

For every function of state.py / event.py / manager.py / cs.py / smartsync.py / notification.py that contains a
statement MUTATING sync state, and for every thread / public ENTRY POINT, decide whether every call path from the entry
point to every mutating statement of that function passes through `with <...>.lock:` (lexically around the call site of
some function on the path, or lexically around the mutating statement itself).

Mutating statement (syntactic):
  M1  assignment / augmented assignment / del whose target is (a subscript chain over) an attribute named
      _oids, _paths, _changeset_storage, _changeset, _dirtyset, requestset, excludeset, _kids_moving
  M2  call of add/discard/remove/pop/clear/update/setdefault/append/popitem on (a subscript chain over) such an attribute
  M3  attribute store on a subscript receiver  `ent[side].x = v`  (a side attribute; goes through SideState.__setattr__)
      unless the receiver chain names a non-entry table (emgrs, providers, _root_*)
  M4  attribute store of ignored / priority / storage_id on any receiver (an entry attribute)
  M5  inside class SideState / SyncEntry (not __init__): any store `self.x = v`
Calls (conservative over-approximation of the call graph):
  self.m()        -> m in the class, its bases and every subclass override (self may be a subclass instance)
  super().m()     -> m in the bases
  f()             -> module-level function of that name (constructors are not followed: an object under construction
                     is not shared yet)
  M3/M4/M5 store  -> implicit call of SyncState.updated and of SideState._set_exists/_set_mtime/uncorrupt (the attribute
                     hooks SideState.__setattr__ / SyncEntry.__setattr__ route every such store to them)
  <other>.m()     -> m in EVERY analysed class that defines it, unless the receiver chain goes through an attribute that
                     is not engine state (providers, provider, storage, log, queue, time, os, ...)
  <x>.p (load)    -> getter of every @property named p (self: resolved through bases/subclasses)
Output: lean/Csverif/Gen/LockSites.lean  (rows sorted; entry point, mutating function, locked?) and a JSON copy on stdout
with --json.  The table is regenerated on every run of the C15 check; Props/C15.lean proves by `decide` that it equals
the audited table, so any change of locking structure in the repo breaks that theorem.
"""
import ast
import json
import os
import sys

REPO = os.environ.get("VERIF_REPO", "/repo")
HERE = os.path.dirname(os.path.dirname(os.path.abspath(__file__)))
FILES = ["cloudsync/sync/state.py", "cloudsync/event.py", "cloudsync/sync/manager.py", "cloudsync/cs.py",
         "cloudsync/smartsync.py", "cloudsync/notification.py"]
STATE_ATTRS = {"_oids", "_paths", "_changeset_storage", "_changeset", "_dirtyset", "requestset", "excludeset", "_kids_moving"}
CONTAINER_MUT = {"add", "discard", "remove", "pop", "clear", "update", "setdefault", "append", "popitem"}
ENTRY_ATTRS = {"ignored", "priority", "storage_id"}
ENTRY_CLASSES = {"SideState", "SyncEntry"}
NON_ENGINE = {"providers", "provider", "_storage", "storage", "log", "time", "os", "shutil", "msgpack", "random", "ex",
              "logging", "tempfile", "_SyncManager__translate", "__queue", "_queue", "_provider_guard", "copy", "datetime",
              "_callbacks", "data_id", "__fh", "fh", "sync_state"}

NOT_ENTRY_RECV = {"emgrs", "providers", "_root_validated", "_root_paths", "_root_oids"}
HOOKS = ["SyncState.updated", "SideState._set_exists", "SideState._set_mtime", "SideState.uncorrupt"]
fns_index = {}

# thread entry points and public methods an application thread may call
THREAD_ENTRIES = ["EventManager.do", "SyncManager.do", "SmartSyncManager.do", "NotificationManager.do"]
PUBLIC_CLASSES = ["CloudSync", "SmartCloudSync"]
EXTRA_ENTRIES = ["SmartSyncState.smart_sync_path", "SmartSyncState.smart_sync_oid", "SmartSyncState.smart_unsync_ent",
                 "SmartSyncState.smart_unsync_oid", "SmartSyncState.smart_listdir_path", "SmartSyncState.changes",
                 "SmartSyncState.register_auto_sync_callback", "NotificationManager.notify",
                 "NotificationManager.notify_from_exception"]


class Fn:
    def __init__(self, qual, cls, node, is_prop):
        self.qual, self.cls, self.node, self.is_prop = qual, cls, node, is_prop
        self.muts = []      # (lineno, kind, lexically_locked)
        self.calls = []     # (callee_qual, lexically_locked)


def chain_attrs(e):
    """attribute names along a receiver chain  a.b[c].d  -> ['b', 'd'] plus the root name"""
    out = []
    while True:
        if isinstance(e, ast.Attribute):
            out.append(e.attr)
            e = e.value
        elif isinstance(e, ast.Subscript):
            e = e.value
        elif isinstance(e, ast.Call):
            e = e.func
        elif isinstance(e, ast.Name):
            out.append(e.id)
            return out
        else:
            return out


def strip_subscripts(e):
    while isinstance(e, ast.Subscript):
        e = e.value
    return e


def is_lock_with(item):
    e = item.context_expr
    return isinstance(e, ast.Attribute) and e.attr == "lock"


def load():
    classes, fns, modfuncs = {}, {}, {}
    for rel in FILES:
        path = os.path.join(REPO, rel)
        tree = ast.parse(open(path, encoding="utf8").read())
        for node in tree.body:
            if isinstance(node, ast.ClassDef):
                bases = [b.id if isinstance(b, ast.Name) else getattr(b, "attr", "?") for b in node.bases]
                classes[node.name] = {"bases": bases, "methods": {}, "props": set()}
                for ch in node.body:
                    if isinstance(ch, (ast.FunctionDef, ast.AsyncFunctionDef)):
                        decos = [d.id if isinstance(d, ast.Name) else getattr(d, "attr", "") for d in ch.decorator_list]
                        if "setter" in decos:
                            qual = "%s.%s.setter" % (node.name, ch.name)
                            fns[qual] = Fn(qual, node.name, ch, False)
                            continue
                        is_prop = "property" in decos
                        qual = "%s.%s" % (node.name, ch.name)
                        fns[qual] = Fn(qual, node.name, ch, is_prop)
                        classes[node.name]["methods"][ch.name] = qual
                        if is_prop:
                            classes[node.name]["props"].add(ch.name)
            elif isinstance(node, (ast.FunctionDef, ast.AsyncFunctionDef)):
                qual = node.name
                fns[qual] = Fn(qual, None, node, False)
                modfuncs[node.name] = qual
    return classes, fns, modfuncs


def family(classes, cls):
    """cls, its (transitive) bases and its (transitive) subclasses, in that order"""
    out, todo = [], [cls]
    while todo:
        c = todo.pop(0)
        if c in out or c not in classes:
            continue
        out.append(c)
        todo += classes[c]["bases"]
    subs = [cls]
    changed = True
    while changed:
        changed = False
        for c, d in classes.items():
            if c not in subs and any(b in subs for b in d["bases"]):
                subs.append(c)
                changed = True
    return out + [c for c in subs if c not in out]


def bases_of(classes, cls):
    out, todo = [], list(classes.get(cls, {}).get("bases", []))
    while todo:
        c = todo.pop(0)
        if c in out or c not in classes:
            continue
        out.append(c)
        todo += classes[c]["bases"]
    return out


def analyse(classes, fns, modfuncs):
    all_props = {}
    all_methods = {}
    for c, d in classes.items():
        for m, q in d["methods"].items():
            (all_props if m in d["props"] else all_methods).setdefault(m, []).append(q)

    def resolve_method(fn, recv, name, props):
        table = all_props if props else all_methods
        if name not in table:
            return []
        if isinstance(recv, ast.Name) and recv.id == "self" and fn.cls:
            fam = family(classes, fn.cls)
            return [q for q in table[name] if q.split(".")[0] in fam]
        if isinstance(recv, ast.Call) and isinstance(recv.func, ast.Name) and recv.func.id == "super" and fn.cls:
            bs = bases_of(classes, fn.cls)
            return [q for q in table[name] if q.split(".")[0] in bs]
        attrs = chain_attrs(recv)
        if any(a in NON_ENGINE for a in attrs):
            return []
        if any(a in STATE_ATTRS for a in attrs):
            return []          # a container method (handled as M2), not an engine method
        return list(table[name])

    fns_index.update(fns)
    for fn in fns.values():
        def visit(node, locked):
            if isinstance(node, (ast.With, ast.AsyncWith)):
                inner = locked or any(is_lock_with(it) for it in node.items)
                for it in node.items:
                    visit(it.context_expr, locked)
                for st in node.body:
                    visit(st, inner)
                return
            # ---- mutating statements
            targets = []
            if isinstance(node, ast.Assign):
                targets = node.targets
            elif isinstance(node, (ast.AugAssign, ast.AnnAssign)):
                targets = [node.target] if getattr(node, "value", True) is not None else []
            elif isinstance(node, ast.Delete):
                targets = node.targets
            for t in targets:
                for tt in (t.elts if isinstance(t, (ast.Tuple, ast.List)) else [t]):
                    base = strip_subscripts(tt)
                    if isinstance(base, ast.Attribute) and base.attr in STATE_ATTRS:
                        fn.muts.append((node.lineno, "M1:" + base.attr, locked))
                    elif isinstance(tt, ast.Attribute):
                        recv = tt.value
                        kind = None
                        if isinstance(recv, ast.Subscript):
                            if not any(a in NOT_ENTRY_RECV for a in chain_attrs(recv)):
                                kind = "M3:"
                        elif tt.attr in ENTRY_ATTRS:
                            kind = "M4:"
                        elif fn.cls in ENTRY_CLASSES and isinstance(recv, ast.Name) and recv.id == "self" \
                                and fn.node.name not in ("__init__", "__setattr__"):
                            kind = "M5:"
                        if kind:
                            fn.muts.append((node.lineno, kind + tt.attr, locked))
                            # SideState/SyncEntry.__setattr__ -> SyncEntry.updated -> SyncState.updated (the change hook)
                            for hook in HOOKS:
                                if hook in fns_index and fn.qual != hook:
                                    fn.calls.append((hook, locked))
            if isinstance(node, ast.Call):
                f = node.func
                if isinstance(f, ast.Attribute):
                    base = strip_subscripts(f.value)
                    if f.attr in CONTAINER_MUT and isinstance(base, ast.Attribute) and base.attr in STATE_ATTRS:
                        fn.muts.append((node.lineno, "M2:%s.%s" % (base.attr, f.attr), locked))
                    else:
                        for q in resolve_method(fn, f.value, f.attr, False):
                            fn.calls.append((q, locked))
                elif isinstance(f, ast.Name):
                    if f.id in modfuncs:
                        fn.calls.append((modfuncs[f.id], locked))
                    # constructors are not followed: an object under construction is not shared yet
            if isinstance(node, ast.Attribute) and isinstance(node.ctx, ast.Load):
                for q in resolve_method(fn, node.value, node.attr, True):
                    fn.calls.append((q, locked))
            for ch in ast.iter_child_nodes(node):
                visit(ch, locked)
        for st in fn.node.body:
            visit(st, False)


def entries(classes, fns):
    out = list(THREAD_ENTRIES)
    for c in PUBLIC_CLASSES:
        for m, q in classes[c]["methods"].items():
            if not m.startswith("_"):
                out.append(q)
    out += EXTRA_ENTRIES
    seen, res = set(), []
    for q in out:
        if q in fns and q not in seen:
            seen.add(q)
            res.append(q)
    return res


def closure(fns, entry):
    """reachable (function, under_lock) pairs"""
    seen = set()
    todo = [(entry, False)]
    while todo:
        q, lk = todo.pop()
        if (q, lk) in seen:
            continue
        seen.add((q, lk))
        for callee, lex in fns[q].calls:
            todo.append((callee, lk or lex))
    return seen


def table():
    classes, fns, modfuncs = load()
    analyse(classes, fns, modfuncs)
    ents = entries(classes, fns)
    rows = []
    for e in ents:
        reach = closure(fns, e)
        status = {}
        for q, lk in reach:
            fn = fns[q]
            if not fn.muts:
                continue
            ok = all(lk or lex for (_ln, _k, lex) in fn.muts)
            status[q] = status.get(q, True) and ok
        for q in sorted(status):
            rows.append((e, q, status[q]))
    rows.sort()
    mutators = {q: [(ln, k, lex) for ln, k, lex in fn.muts] for q, fn in fns.items() if fn.muts}
    return ents, rows, mutators


BINDING_FILES = FILES + ["cloudsync/runnable.py"]
LOCK_ATTR = "lock"
COPY_FUNCS = {"copy", "deepcopy", "replace"}
STATE_NAMES = {"state", "_state", "__state", "_parent"}


def _src(node):
    try:
        return ast.unparse(node)
    except Exception:  # noqa
        return "?"


def lock_bindings():
    """Every place of the analysed sources where the state lock is (re)bound, deleted, aliased or where the object carrying it is copied /
    has its attribute dictionary written.  Row = (kind, function, expression).  Kinds:
      bind      assignment / annotated / augmented assignment to  <x>.lock   (also a class-level  lock = ...)
      del       del <x>.lock / delattr(<x>, "lock")
      setattr   setattr(<x>, "lock", v) / object.__setattr__(<x>, "lock", v)
      dict      any write through <x>.__dict__ / vars(<x>)  (assignment, subscript store, update/pop/clear/setdefault/__setitem__)
      alias     <y> = <x>.lock, `with <x>.lock as y`, <x>.lock passed as an argument or returned (the lock escapes under another name)
      copy      copy.copy / copy.deepcopy / dataclasses.replace of a state object, or a __copy__/__deepcopy__/__reduce__/__setstate__/
                __getstate__ method on a class that carries a lock
    The property's theorem needs `state.lock` to denote ONE lock object for the whole life of the state: on a correct tree the only
    row is the constructor's binding."""
    rows = []
    for rel in BINDING_FILES:
        path = os.path.join(REPO, rel)
        if not os.path.exists(path):
            continue
        tree = ast.parse(open(path, encoding="utf8").read())

        def is_lock_attr(e):
            return isinstance(e, ast.Attribute) and e.attr == LOCK_ATTR

        def is_dict_of(e):
            if isinstance(e, ast.Attribute) and e.attr == "__dict__":
                return True
            return isinstance(e, ast.Call) and isinstance(e.func, ast.Name) and e.func.id == "vars"

        def looks_like_state(e):
            names = set(chain_attrs(e))
            return bool(names & STATE_NAMES) or (names == {"self"})

        def scan(node, qual, cls_has_lock):
            for ch in ast.iter_child_nodes(node):
                if isinstance(ch, (ast.FunctionDef, ast.AsyncFunctionDef)):
                    q = (qual + "." if qual else "") + ch.name
                    if ch.name in ("__copy__", "__deepcopy__", "__reduce__", "__reduce_ex__", "__setstate__", "__getstate__") and cls_has_lock:
                        rows.append(("copy", q, "def " + ch.name))
                    scan(ch, q, cls_has_lock)
                    continue
                if isinstance(ch, ast.ClassDef):
                    has = any(is_lock_attr(t) for n in ast.walk(ch) if isinstance(n, (ast.Assign, ast.AnnAssign, ast.AugAssign))
                              for t in (n.targets if isinstance(n, ast.Assign) else [n.target]))
                    for st in ch.body:        # class-level  lock = ...
                        if isinstance(st, (ast.Assign, ast.AnnAssign)):
                            for t in (st.targets if isinstance(st, ast.Assign) else [st.target]):
                                if isinstance(t, ast.Name) and t.id == LOCK_ATTR:
                                    rows.append(("bind", ch.name, _src(t)))
                    scan(ch, ch.name, has)
                    continue
                here = qual or "<module>"
                if isinstance(ch, (ast.Assign, ast.AnnAssign, ast.AugAssign)):
                    targets = ch.targets if isinstance(ch, ast.Assign) else [ch.target]
                    flat = []
                    for t in targets:
                        flat += list(t.elts) if isinstance(t, (ast.Tuple, ast.List)) else [t]
                    for t in flat:
                        if is_lock_attr(t):
                            rows.append(("bind", here, _src(t)))
                        base = t
                        while isinstance(base, ast.Subscript):
                            base = base.value
                        if is_dict_of(t) or (base is not t and is_dict_of(base)):
                            rows.append(("dict", here, _src(t)))
                    val = getattr(ch, "value", None)
                    if val is not None and any(is_lock_attr(n) for n in ast.walk(val)) and not any(is_lock_attr(t) for t in flat):
                        rows.append(("alias", here, _src(ch)[:80]))
                elif isinstance(ch, ast.Delete):
                    for t in ch.targets:
                        if is_lock_attr(t):
                            rows.append(("del", here, _src(t)))
                        if is_dict_of(t) or (isinstance(t, ast.Subscript) and is_dict_of(t.value)):
                            rows.append(("dict", here, _src(t)))
                elif isinstance(ch, (ast.With, ast.AsyncWith)):
                    for it in ch.items:
                        if it.optional_vars is not None and any(is_lock_attr(n) for n in ast.walk(it.context_expr)):
                            rows.append(("alias", here, "with %s as %s" % (_src(it.context_expr), _src(it.optional_vars))))
                elif isinstance(ch, ast.Return):
                    if ch.value is not None and any(is_lock_attr(n) for n in ast.walk(ch.value)):
                        rows.append(("alias", here, _src(ch)[:80]))
                if isinstance(ch, ast.Call) or any(isinstance(n, ast.Call) for n in ast.iter_child_nodes(ch)):
                    pass
                for n in ([ch] if isinstance(ch, ast.Call) else []) + [x for x in ast.walk(ch) if isinstance(x, ast.Call) and x is not ch
                                                                        and not isinstance(ch, (ast.FunctionDef, ast.AsyncFunctionDef, ast.ClassDef))]:
                    f = n.func
                    fname = f.id if isinstance(f, ast.Name) else (f.attr if isinstance(f, ast.Attribute) else "")
                    consts = [a.value for a in n.args if isinstance(a, ast.Constant)]
                    if fname in ("setattr", "__setattr__") and LOCK_ATTR in consts:
                        rows.append(("setattr", here, _src(n)[:80]))
                    elif fname in ("delattr", "__delattr__") and LOCK_ATTR in consts:
                        rows.append(("del", here, _src(n)[:80]))
                    elif isinstance(f, ast.Attribute) and is_dict_of(f.value) and f.attr in ("update", "pop", "clear", "setdefault", "__setitem__",
                                                                                            "__delitem__", "popitem"):
                        rows.append(("dict", here, _src(n)[:80]))
                    elif fname in COPY_FUNCS and n.args and looks_like_state(n.args[0]) and \
                            (isinstance(f, ast.Name) or "copy" in chain_attrs(f) or "dataclasses" in chain_attrs(f)):
                        rows.append(("copy", here, _src(n)[:80]))
                    else:
                        for a in list(n.args) + [k.value for k in n.keywords]:
                            if is_lock_attr(a):
                                rows.append(("alias", here, _src(n)[:80]))
                if not isinstance(ch, (ast.FunctionDef, ast.AsyncFunctionDef, ast.ClassDef)):
                    scan_stmt_children(ch, here, cls_has_lock)

        def scan_stmt_children(node, here, cls_has_lock):
            # compound statements: descend into their bodies (calls inside expressions were already walked above)
            for field in ("body", "orelse", "finalbody", "handlers"):
                for sub in getattr(node, field, []) or []:
                    if isinstance(sub, ast.ExceptHandler):
                        scan_block(sub.body, here, cls_has_lock)
                    elif isinstance(sub, ast.AST):
                        scan_block([sub], here, cls_has_lock)

        def scan_block(stmts, here, cls_has_lock):
            holder = ast.Module(body=list(stmts), type_ignores=[])
            scan(holder, here if here != "<module>" else "", cls_has_lock)
        scan(tree, "", False)
    # de-duplicate, keep order of appearance stable by sorting
    return sorted(set(rows))


def lean_text(ents, rows):
    def s(x):
        return '"%s"' % x
    per = {e: ([], []) for e in ents}
    for e, q, ok in rows:
        per[e][0 if ok else 1].append(q)
    lines = ["/- GENERATED by tools/gen_lock_sites.py from the repo under test (regenerated on every run of the C15 check).",
             "   Row = (entry point, functions containing a statement that mutates sync state that are reached ONLY under",
             "   `with ...lock`, such functions reached on SOME path without the lock).",
             "   Props/C15.lean proves by `decide` that this table equals the audited table. -/",
             "namespace CS.Lock.Gen",
             "def lockTable : List (String × List String × List String) := ["]
    body = []
    for e in ents:
        body.append("  (%s,\n    [%s],\n    [%s])" % (s(e), ", ".join(s(q) for q in per[e][0]), ", ".join(s(q) for q in per[e][1])))
    lines.append(",\n".join(body))
    lines.append("]")
    lines.append("/-- every (re)binding / deletion / alias / copy of the state lock in the analysed sources: (kind, function, expression) -/")
    lines.append("def lockBindings : List (String × String × String) := [")
    lines.append(",\n".join('  ("%s", "%s", "%s")' % (k, q, e.replace("\\", "\\\\").replace('"', "'")) for k, q, e in lock_bindings()))
    lines.append("]")
    lines.append("end CS.Lock.Gen")
    return "\n".join(lines) + "\n"


def write_gen(path=None):
    ents, rows, mutators = table()
    path = path or os.path.join(HERE, "lean", "Csverif", "Gen", "LockSites.lean")
    txt = lean_text(ents, rows)
    old = open(path, encoding="utf8").read() if os.path.exists(path) else None
    if old != txt:
        with open(path, "w", encoding="utf8") as f:
            f.write(txt)
    return ents, rows, mutators, old != txt


if __name__ == "__main__":
    if "--json" in sys.argv:
        ents, rows, mutators = table()
        json.dump({"entries": ents, "rows": rows, "mutators": mutators}, sys.stdout, indent=1)
    elif "--bindings" in sys.argv:
        for r in lock_bindings():
            print(r)
    elif "--print" in sys.argv:
        ents, rows, mutators = table()
        for e, q, ok in rows:
            print("%-45s %-45s %s" % (e, q, "locked" if ok else "UNLOCKED"))
    else:
        ents, rows, mutators, changed = write_gen()
        print("%d entry points, %d rows (%d unlocked), changed=%s" % (len(ents), len(rows), sum(1 for r in rows if not r[2]), changed))
