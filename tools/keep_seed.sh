#!/bin/sh
# usage: tools/keep_seed.sh <src dir> <name> "<confirmation line>"
src="$1"; name="$2"; mkdir -p /verif/seeded/$name
cp "$src"/patch.diff "$src"/meta.json /verif/seeded/$name/ 2>/dev/null
cp "$src"/demo*.py /verif/seeded/$name/ 2>/dev/null
echo "$3" > /verif/seeded/$name/confirmed.txt
