#!/bin/sh
# usage: tools/confirm_seed.sh <seed_out_dir e.g. /tmp/seed_out/C09/1> <name e.g. C09-1>
# Confirms in a scratch worktree of /repo HEAD: demo passes clean, fails patched, suite keeps the same failures.
src="$1"; name="$2"
wt=/tmp/confirm_$name
cd /repo && git worktree add -q --detach "$wt" HEAD || exit 2
cd "$wt"
demo=$(ls "$src"/demo*.py | head -1)
case "$demo" in *_test.py) run="/venv/bin/python -m pytest -q -p no:cacheprovider $demo";; *) run="/venv/bin/python -W ignore $demo $wt";; esac
REPO_ROOT="$wt" $run >/tmp/confirm_$name.clean.log 2>&1; c1=$?
if git apply --3way "$src/patch.diff" 2>/dev/null || git apply "$src/patch.diff" 2>/dev/null; then applied=yes; else applied=no; fi
git reset -q
REPO_ROOT="$wt" $run >/tmp/confirm_$name.patched.log 2>&1; c2=$?
/venv/bin/python -m pytest -q -p no:cacheprovider --timeout=900 -n 6 -x --co -q >/dev/null 2>&1
/venv/bin/python -m pytest -q -p no:cacheprovider --timeout=900 -n 6 2>&1 | tail -12 > /tmp/confirm_$name.suite.log
fails=$(grep -c "^FAILED" /tmp/confirm_$name.suite.log)
summary=$(tail -1 /tmp/confirm_$name.suite.log)
echo "$name applied=$applied demo_clean_rc=$c1 demo_patched_rc=$c2 suite_failed_lines=$fails :: $summary"
grep "^FAILED" /tmp/confirm_$name.suite.log | grep -v -E "test_box|test_cursor_prune|test_cmd_sync_oauth\[False-no_creds" | head -5
cd /repo && git worktree remove --force "$wt"
