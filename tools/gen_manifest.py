#!/usr/bin/env python3
"""Regenerates MANIFEST.json from tools/claims.json (one entry per claimed property)."""
import json, os
V = os.path.dirname(os.path.dirname(os.path.abspath(__file__)))
claims = {}
for fn in sorted(os.listdir(os.path.join(V, "tools", "claims"))):
    if fn.endswith(".json"):
        claims[fn[:-5]] = json.load(open(os.path.join(V, "tools", "claims", fn)))
props = [json.loads(l) for l in open(os.path.join(V, "properties.jsonl"))]
checks, na = [], []
for p in props:
    pid = p["id"]
    c = claims.get(pid)
    if c and c.get("claimed"):
        checks.append({
            "property_id": pid,
            "quick_cmd": "./check %s --tier quick" % pid,
            "thorough_cmd": "./check %s --tier thorough" % pid,
            "evidence_file": "evidence/%s.json" % pid,
            "replay_cmd_template": "./check %s --replay {path}" % pid,
            "engine": "lean4-proof+correspondence",
            "level_claimed": {"category": "proof", "text": c["text"], "design_ref": c.get("design_ref", "DESIGN.md section 6")},
            "level_note": c["note"],
            "technique": c["technique"],
        })
    else:
        na.append({"property_id": pid, "reason": (c or {}).get("reason", "check not built yet; see DESIGN.md section 9 (staging)")})
m = {
    "version": 1,
    "setup_cmd": "cd lean && lake build Csverif driver",
    "hooks": {"guard": "CLOUDSYNC_VERIF", "enable": "checks export CLOUDSYNC_VERIF=1 and import cloudsync from /repo's working tree; all instrumentation is installed by the harness (wrappers), no guarded source hooks",
              "baseline_off_cmd": "cd /repo && env -u CLOUDSYNC_VERIF /venv/bin/python -m pytest -q -p no:cacheprovider --timeout=900 --continue-on-collection-errors",
              "source_commits": [], "add_only": True},
    "engines": [{"name": "lean4-proof+correspondence", "path": "lean/ + harness/", "serves_properties": [c["property_id"] for c in checks],
                 "kind_free_text": "Lean 4 models and theorems (lean/Csverif), compiled line-protocol driver executing the model definitions, Python correspondence/trace-refinement harness calling the real code in-process"}],
    "checks": checks,
    "not_applicable": na,
    "notes": "See DESIGN.md. Every check: lake build + #print axioms audit, replay of known findings, correspondence on /repo's working tree, search for a failing input on a break.",
}
json.dump(m, open(os.path.join(V, "MANIFEST.json"), "w"), indent=1)
print("claimed:", [c["property_id"] for c in checks])
