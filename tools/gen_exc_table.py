#!/venv/bin/python
"""Regenerates lean/Csverif/Gen/ExcTable.lean from the source tree (VERIF_REPO, default /repo) with an `ast` pass:

  * the exception class hierarchy of cloudsync/exceptions.py (class -> first base, in source order);
  * the ordered isinstance chain of NotificationManager.notify_from_exception (class -> NotificationType member)
    and what its final `else` does;
  * the except clauses (class tuples, in order) and the recognised statements of every handler body, in source order,
    of SyncManager._sync_one_entry, SyncManager._validate_provider_roots, EventManager.do and Runnable.run;
  * whether SyncManager.do calls `self.state.change(...)` inside a try statement.

The output uses the constructors of Model/Spec/Faults.lean; a class / notification kind / statement the extractor does
not know is counted in `unmapped` (and a statement becomes `.unknown`), so that the kernel-checked comparison with the
audited tables in Props/C10Tie.lean fails.  Used by harness/c10_faults.py on every run; can be run by hand:
    tools/gen_exc_table.py [--print]
"""
import ast
import os
import sys

VERIF = os.path.dirname(os.path.dirname(os.path.abspath(__file__)))
REPO = os.environ.get("VERIF_REPO", "/repo")
OUT = os.path.join(VERIF, "lean", "Csverif", "Gen", "ExcTable.lean")

CLASS = {
    "BaseException": "baseException", "Exception": "exception_", "CloudException": "cloudException",
    "CloudFileNotFoundError": "fileNotFound", "CloudTemporaryError": "temporary", "CloudFileNameError": "fileName",
    "CloudOutOfSpaceError": "outOfSpace", "CloudRootMissingError": "rootMissing",
    "CloudResourceModifiedError": "resourceModified", "CloudFileExistsError": "fileExists", "CloudTokenError": "token",
    "CloudDisconnectedError": "disconnected", "CloudCursorError": "cursor", "CloudNamespaceError": "namespace_",
    "CloudTooManyRetriesError": "tooManyRetries", "CloudCorruptError": "corrupt", "_BackoffError": "backoffError",
}
KIND = {
    "DISCONNECTED_ERROR": "disconnectedError", "OUT_OF_SPACE_ERROR": "outOfSpaceError", "FILE_NAME_ERROR": "fileNameError",
    "NAMESPACE_ERROR": "namespaceError", "ROOT_MISSING_ERROR": "rootMissingError", "TEMPORARY_ERROR": "temporaryError",
}


class Extract:
    def __init__(self, repo):
        self.repo = repo
        self.unmapped = []

    def parse(self, rel):
        with open(os.path.join(self.repo, rel), encoding="utf8") as f:
            return ast.parse(f.read())

    def find(self, tree, cls, fn):
        for node in tree.body:
            if isinstance(node, ast.ClassDef) and node.name == cls:
                for ch in node.body:
                    if isinstance(ch, (ast.FunctionDef, ast.AsyncFunctionDef)) and ch.name == fn:
                        return ch
        raise SystemExit("gen_exc_table: %s.%s not found" % (cls, fn))

    # ---- names
    def cls_name(self, node):
        """`ex.CloudTemporaryError` / `CloudTemporaryError` / `_BackoffError` -> constructor"""
        name = node.attr if isinstance(node, ast.Attribute) else node.id if isinstance(node, ast.Name) else None
        if name in CLASS:
            return "." + CLASS[name]
        self.unmapped.append("class:%s" % (name or ast.dump(node)))
        return None

    def clause_classes(self, handler):
        t = handler.type
        if t is None:                       # bare `except:` catches BaseException
            return [".baseException"]
        elts = t.elts if isinstance(t, ast.Tuple) else [t]
        return [c for c in (self.cls_name(e) for e in elts) if c]

    # ---- hierarchy
    def hierarchy(self):
        out = []
        for node in self.parse("cloudsync/exceptions.py").body:
            if isinstance(node, ast.ClassDef):
                if len(node.bases) != 1:
                    self.unmapped.append("bases:%s" % node.name)
                c = self.cls_name(ast.Name(id=node.name))
                b = self.cls_name(node.bases[0]) if node.bases else None
                if c and b:
                    out.append((c, b))
        return out

    # ---- notify_from_exception
    def notify_chain(self):
        fn = self.find(self.parse("cloudsync/notification.py"), "NotificationManager", "notify_from_exception")
        chain, else_notifies = [], False
        node = next((s for s in fn.body if isinstance(s, ast.If)), None)
        if node is None:
            self.unmapped.append("notify:no-if-chain")
        while node is not None:
            test = node.test
            ok = (isinstance(test, ast.Call) and getattr(test.func, "id", None) == "isinstance" and len(test.args) == 2
                  and isinstance(test.args[0], ast.Name))
            kinds = [n.attr for s in node.body for n in ast.walk(s)
                     if isinstance(n, ast.Attribute) and isinstance(n.value, ast.Name) and n.value.id == "NotificationType"]
            calls_notify = any(isinstance(n, ast.Call) and isinstance(n.func, ast.Attribute) and n.func.attr == "notify"
                               for s in node.body for n in ast.walk(s))
            if not ok or len(kinds) != 1 or not calls_notify or len(node.body) != 1:
                self.unmapped.append("notify:branch-shape@%d" % node.lineno)
            else:
                c = self.cls_name(test.args[1])
                k = KIND.get(kinds[0])
                if k is None:
                    self.unmapped.append("kind:%s" % kinds[0])
                if c and k:
                    chain.append((c, "." + k))
            if len(node.orelse) == 1 and isinstance(node.orelse[0], ast.If):
                node = node.orelse[0]
            else:
                else_notifies = any(isinstance(n, ast.Call) and isinstance(n.func, ast.Attribute) and n.func.attr in ("notify", "put")
                                    for s in node.orelse for n in ast.walk(s))
                node = None
        return chain, else_notifies

    # ---- handler bodies
    @staticmethod
    def _is_log(stmt):
        return (isinstance(stmt, ast.Expr) and isinstance(stmt.value, ast.Call) and isinstance(stmt.value.func, ast.Attribute)
                and isinstance(stmt.value.func.value, ast.Name) and stmt.value.func.value.id == "log")

    @staticmethod
    def _call_attr(stmt):
        """`x.y.z(...)` as an expression statement -> 'z' and the dotted receiver"""
        if isinstance(stmt, ast.Expr) and isinstance(stmt.value, ast.Call) and isinstance(stmt.value.func, ast.Attribute):
            return stmt.value.func.attr, ast.unparse(stmt.value.func.value)
        return None, None

    def action(self, stmt):
        if self._is_log(stmt):
            return []
        attr, recv = self._call_attr(stmt)
        if attr == "notify_from_exception":
            return [".notify"]
        if attr == "punt" and recv == "sync":
            return [".punt"]
        if attr == "storage_commit" and recv == "self.state":
            return [".commit"]
        if attr == "backoff" and recv == "self":
            return [".backoff"]
        if attr == "_save_current_cursor" and recv == "self":
            return [".saveCursor"]
        if attr == "_forget_walk" and recv == "self":
            return [".forgetWalk"]
        if attr is not None and attr.endswith("__increment_backoff") and recv == "self":
            return [".incrBackoff"]
        if isinstance(stmt, ast.Assign) and len(stmt.targets) == 1:
            tgt, val = ast.unparse(stmt.targets[0]), ast.unparse(stmt.value)
            if tgt == "self.need_walk" and val == "True":
                return [".setNeedWalk"]
            if tgt == "self.need_auth" and val == "True":
                return [".setNeedAuth"]
            if tgt == "self.provider.current_cursor" and val == "self.provider.latest_cursor":
                return [".resetCursor"]
        if isinstance(stmt, ast.If) and not stmt.orelse:
            inner = [a for s in stmt.body for a in self.action(s)]
            test = ast.unparse(stmt.test)
            if not inner:                                   # e.g. `if not self.in_backoff: log.warning(...)`
                return []
            if inner == [".notify"] and test == "isinstance(e, ex.CloudException)":
                return [".notifyIfCloud"]
            if inner == [".notify"] and test in ("self.__nmgr", "self._EventManager__nmgr"):
                return [".notifyIfNmgr"]
        self.unmapped.append("stmt@%d:%s" % (stmt.lineno, ast.unparse(stmt)[:60]))
        return [".unknown"]

    def handlers_of(self, fn, which=0):
        """the except clauses of the `which`-th try statement inside the function whose handlers call backoff / increment"""
        tries = [n for n in ast.walk(fn) if isinstance(n, ast.Try) and n.handlers]

        def relevant(t):
            return any(isinstance(n, ast.Attribute) and (n.attr == "backoff" or n.attr.endswith("__increment_backoff"))
                       for h in t.handlers for n in ast.walk(h))
        tries = [t for t in tries if relevant(t)]
        if len(tries) != 1:
            self.unmapped.append("try-count:%s=%d" % (fn.name, len(tries)))
            if not tries:
                return []
        out = []
        for h in tries[which].handlers:
            out.append((self.clause_classes(h), [a for s in h.body for a in self.action(s)]))
        return out

    def success_commits(self):
        """the try body of _sync_one_entry ends with self.state.storage_commit()"""
        fn = self.find(self.parse("cloudsync/sync/manager.py"), "SyncManager", "_sync_one_entry")
        for t in ast.walk(fn):
            if isinstance(t, ast.Try) and t.handlers and t.body:
                return self.action(t.body[-1]) == [".commit"] if self._call_attr(t.body[-1])[0] == "storage_commit" else False
        return False

    def change_guarded(self):
        fn = self.find(self.parse("cloudsync/sync/manager.py"), "SyncManager", "do")
        guarded = None

        def visit(node, in_try):
            nonlocal guarded
            for ch in ast.iter_child_nodes(node):
                if isinstance(ch, ast.Call) and isinstance(ch.func, ast.Attribute) and ch.func.attr == "change" \
                        and ast.unparse(ch.func.value) == "self.state":
                    guarded = in_try if guarded is None else (guarded and in_try)
                if isinstance(ch, ast.Try):
                    for s in ch.body:
                        visit(s, in_try or bool(ch.handlers))
                        # a Call directly in the try body statement
                    for part in (ch.handlers, ch.orelse, ch.finalbody):
                        for s in part:
                            visit(s, in_try)
                else:
                    visit(ch, in_try)
        visit(fn, False)
        if guarded is None:
            self.unmapped.append("do:no-change-call")
            guarded = False
        return guarded


def lean_list(items):
    return "[" + ", ".join(items) + "]"


def lean_handlers(hs):
    return lean_list("⟨%s, %s⟩" % (lean_list(c), lean_list(b)) for c, b in hs)


def generate(repo=REPO):
    x = Extract(repo)
    hier = x.hierarchy()
    chain, else_notifies = x.notify_chain()
    mg = x.parse("cloudsync/sync/manager.py")
    sync_h = x.handlers_of(x.find(mg, "SyncManager", "_sync_one_entry"))
    roots_h = x.handlers_of(x.find(mg, "SyncManager", "_validate_provider_roots"))
    event_h = x.handlers_of(x.find(x.parse("cloudsync/event.py"), "EventManager", "do"))
    loop_h = x.handlers_of(x.find(x.parse("cloudsync/runnable.py"), "Runnable", "run"))
    guarded = x.change_guarded()
    succ_commits = x.success_commits()
    src = """import Csverif.Model.Spec.Faults
/- GENERATED by tools/gen_exc_table.py from the source tree on every run of the C10 check — do not edit.
   Props/C10Tie.lean compares it with the audited tables of Model/Spec/Faults.lean (kernel, `decide`).
   unmapped: %s -/
namespace CS.Gen.ExcTable
open CS.Faults
def hierarchy : List (Exc × Exc) := %s
def notifyChain : List (Exc × NKind) := %s
def notifyElseNotifies : Bool := %s
def syncHandlers : List Handler := %s
def rootsHandlers : List Handler := %s
def eventHandlers : List Handler := %s
def loopHandlers : List Handler := %s
def changeGuarded : Bool := %s
def syncSuccessCommits : Bool := %s
def unmapped : Nat := %d
end CS.Gen.ExcTable
""" % (", ".join(x.unmapped) or "none",
       lean_list("(%s, %s)" % p for p in hier), lean_list("(%s, %s)" % p for p in chain),
       "true" if else_notifies else "false", lean_handlers(sync_h), lean_handlers(roots_h), lean_handlers(event_h),
       lean_handlers(loop_h), "true" if guarded else "false", "true" if succ_commits else "false", len(x.unmapped))
    return src, x.unmapped


def write(repo=REPO, out=OUT):
    """writes the file only if its content changed (keeps lake's build cache warm); returns (changed, unmapped)"""
    src, unmapped = generate(repo)
    old = None
    if os.path.exists(out):
        with open(out, encoding="utf8") as f:
            old = f.read()
    if old != src:
        os.makedirs(os.path.dirname(out), exist_ok=True)
        with open(out, "w", encoding="utf8") as f:
            f.write(src)
    return old != src, unmapped


if __name__ == "__main__":
    if "--print" in sys.argv:
        print(generate()[0])
    else:
        changed, unmapped = write()
        print("ExcTable.lean %s; unmapped: %s" % ("rewritten" if changed else "unchanged", unmapped or "none"))
