#!/venv/bin/python
"""Fact table for C08: every assignment to a private field of a SyncEntry / SideState made outside the
`__setattr__` hooks' normal path, extracted from the repo under test with `ast`.

usage: gen_direct_writes.py [repo] [out.lean]      (defaults: $VERIF_REPO or /repo, lean/Csverif/Gen/DirectWrites.lean)

For every site: file, enclosing function (Class.func), the assignment target as written, the kind of statement, and
how the site relates to the dirty set:

  init                the object's own constructor initialising `self._x`
  hook                inside a `__setattr__` hook, on the path that has already called `updated`
  hook-early-return   inside a `__setattr__` hook, in a block that returns before `updated` is called
  dirty-before        a statement that reaches `_dirtyset.add` precedes the site in the same block
  dirty-after         a statement that reaches `_dirtyset.add` (a call of `updated`/`mark_changed`/… or a hooked
                      attribute assignment) follows the site on the way to the function's exit
  via-updated         the enclosing function is only ever called from `SyncState.updated`, which ends with
                      `_dirtyset.add(ent)` — for the entry being updated, not necessarily for the object written
  loading             inside `deserialize` (runs while the state is loading: nothing is dirty by construction)
  none                no dirty mark on the way out

The table carries no line numbers (so unrelated edits do not disturb it); sites are listed in source order.
The extractor is syntactic and part of the trusted base; Props/C08Writes.lean proves the generated table equals the
audited list, so a new or moved private write stops that theorem from checking."""
import ast
import os
import sys

FILES = ["cloudsync/sync/state.py", "cloudsync/sync/manager.py", "cloudsync/smartsync.py", "cloudsync/event.py", "cloudsync/cs.py"]
PRIVATE = {"_changed", "_path", "_oid", "_hash", "_sync_hash", "_sync_path", "_exists", "_saved_exists", "_last_gotten",
           "_priority", "_ignored", "_storage_id", "_otype", "_side", "_size", "_mtime", "_temp_file", "_force_sync"}
PUBLIC = {p[1:] for p in PRIVATE}
HOOKS = {"SideState.__setattr__", "SyncEntry.__setattr__"}
ENTRY_CLASSES = {"SideState", "SyncEntry"}
SEED_DIRTY = {"updated", "mark_changed"}


def qual_functions(tree):
    out = []

    def visit(node, prefix):
        for ch in ast.iter_child_nodes(node):
            if isinstance(ch, ast.ClassDef):
                visit(ch, prefix + ch.name + ".")
            elif isinstance(ch, (ast.FunctionDef, ast.AsyncFunctionDef)):
                out.append((prefix + ch.name, ch))
                visit(ch, prefix + ch.name + ".")
    visit(tree, "")
    return out


def call_name(node):
    if isinstance(node, ast.Call):
        f = node.func
        if isinstance(f, ast.Attribute):
            return f.attr
        if isinstance(f, ast.Name):
            return f.id
    return None


def is_dirtyset_add(node):
    return (isinstance(node, ast.Call) and isinstance(node.func, ast.Attribute) and node.func.attr == "add"
            and isinstance(node.func.value, ast.Attribute) and node.func.value.attr == "_dirtyset")


def private_targets(stmt):
    """(target text, kind) for private-field writes performed by this single statement (not nested statements)"""
    res = []
    tg = []
    if isinstance(stmt, ast.Assign):
        for t in stmt.targets:
            tg += list(t.elts) if isinstance(t, (ast.Tuple, ast.List)) else [t]
        kind = "assign"
    elif isinstance(stmt, ast.AugAssign):
        tg, kind = [stmt.target], "augassign"
    elif isinstance(stmt, ast.AnnAssign) and stmt.value is not None:
        tg, kind = [stmt.target], "assign"
    elif isinstance(stmt, ast.Delete):
        tg, kind = stmt.targets, "del"
    else:
        kind = None
    for t in tg:
        if isinstance(t, ast.Attribute) and t.attr in PRIVATE:
            res.append((ast.unparse(t), kind))
    # setattr(x, "_f", v) / object.__setattr__(x, "_f", v) / x.__dict__["_f"] = v
    if isinstance(stmt, (ast.Expr, ast.Assign, ast.Return)) and getattr(stmt, "value", None) is not None:
        for node in ast.walk(stmt.value) if not isinstance(stmt, ast.Assign) else ast.walk(stmt):
            if isinstance(node, ast.Call) and call_name(node) in ("setattr", "__setattr__") and len(node.args) >= 2:
                a = node.args[-2]
                if isinstance(a, ast.Constant) and a.value in PRIVATE:
                    res.append((ast.unparse(node.args[-3]) + "." + a.value if len(node.args) >= 3 else a.value, "setattr"))
                elif not isinstance(a, ast.Constant):
                    res.append((ast.unparse(node), "setattr-dynamic"))
    for t in tg:
        if isinstance(t, ast.Subscript) and isinstance(t.value, ast.Attribute) and t.value.attr == "__dict__":
            res.append((ast.unparse(t), "dict"))
    return res


def stmt_is_dirtying(stmt, dirty_funcs):
    """does executing this statement (anywhere inside it) reach `_dirtyset.add`?"""
    for node in ast.walk(stmt):
        if is_dirtyset_add(node):
            return True
        n = call_name(node)
        if n in dirty_funcs:
            return True
        if isinstance(node, (ast.Assign, ast.AugAssign)):
            ts = node.targets if isinstance(node, ast.Assign) else [node.target]
            for t in ts:
                if isinstance(t, ast.Attribute) and t.attr in PUBLIC:     # a hooked attribute assignment
                    return True
    return False


def blocks_of(stmt):
    for f in ("body", "orelse", "finalbody"):
        b = getattr(stmt, f, None)
        if isinstance(b, list) and b and isinstance(b[0], ast.stmt):
            yield b
    for h in getattr(stmt, "handlers", []) or []:
        yield h.body


def classify_after(path, dirty_funcs):
    """path: list of (block, index) from the function body down to the site's statement.
    Walk outwards: statements following the site in its block, then in the enclosing blocks; failing that,
    statements preceding the site in its own block."""
    for block, idx in reversed(path):
        for s in block[idx + 1:]:
            if stmt_is_dirtying(s, dirty_funcs):
                return "dirty-after"
            if isinstance(s, (ast.Return, ast.Raise)):
                return "return-before-dirty"
    block, idx = path[-1]
    for s in block[:idx]:
        if stmt_is_dirtying(s, dirty_funcs):
            return "dirty-before"
    return "none"


def loop_constants(path):
    """names bound by enclosing `for name in (<constants>)` loops"""
    env = {}
    for block, idx in path:
        s = block[idx]
        if isinstance(s, ast.For) and isinstance(s.target, ast.Name) and isinstance(s.iter, (ast.Tuple, ast.List)) \
                and all(isinstance(e, ast.Constant) and isinstance(e.value, str) for e in s.iter.elts):
            env[s.target.id] = [e.value for e in s.iter.elts]
    return env


def sites_in_function(fn, dirty_funcs):
    out = []

    def walk(block, path):
        for i, s in enumerate(block):
            for tgt, kind in private_targets(s):
                if kind == "setattr-dynamic":
                    # setattr(x, name, v) with `name` ranging over a constant tuple of public names is a hooked write
                    env = loop_constants(path + [(block, i)])
                    names = [a.id for n in ast.walk(s) if isinstance(n, ast.Call) and call_name(n) in ("setattr", "__setattr__")
                             for a in n.args[-2:-1] if isinstance(a, ast.Name)]
                    if names and all(nm in env and all(not c.startswith("_") for c in env[nm]) for nm in names):
                        continue
                out.append((tgt, kind, path + [(block, i)], s))
            if isinstance(s, (ast.FunctionDef, ast.AsyncFunctionDef, ast.ClassDef)):
                continue
            for b in blocks_of(s):
                walk(b, path + [(block, i)])
    walk(fn.body, [])
    return out


def analyse(repo):
    trees = {}
    for rel in FILES:
        p = os.path.join(repo, rel)
        if os.path.exists(p):
            trees[rel] = ast.parse(open(p, encoding="utf8").read())
    funcs = []
    for rel, tree in trees.items():
        for q, fn in qual_functions(tree):
            funcs.append((rel, q, fn))
    # functions (by simple name) that reach `_dirtyset.add`
    dirty = set(SEED_DIRTY)
    changed = True
    while changed:
        changed = False
        for rel, q, fn in funcs:
            name = q.split(".")[-1]
            if name in dirty:
                continue
            for node in ast.walk(fn):
                if is_dirtyset_add(node) or call_name(node) in dirty:
                    dirty.add(name)
                    changed = True
                    break
    # callers by simple name
    callers = {}
    for rel, q, fn in funcs:
        for node in ast.walk(fn):
            n = call_name(node)
            if n:
                callers.setdefault(n, set()).add(q)
    # closure of functions only reachable from SyncState.updated
    via = set()
    frontier = ["SyncState.updated"]
    while frontier:
        cur = frontier.pop()
        for rel, q, fn in funcs:
            if q != cur:
                continue
            for node in ast.walk(fn):
                n = call_name(node)
                if n and n.startswith("_") and not n.startswith("__"):
                    cs = callers.get(n, set())
                    if cs and all(c == "SyncState.updated" or c.split(".")[-1] in via or c.split(".")[-1] == n for c in cs) and n not in via:
                        via.add(n)
                        for rel2, q2, fn2 in funcs:
                            if q2.split(".")[-1] == n:
                                frontier.append(q2)
    rows = []
    for rel, q, fn in funcs:
        cls = q.split(".")[0] if "." in q else ""
        name = q.split(".")[-1]
        for tgt, kind, path, stmt in sites_in_function(fn, dirty):
            after = classify_after(path, dirty)
            if q in HOOKS:
                if tgt.startswith("self.") and after == "return-before-dirty":
                    status = "hook-early-return"
                else:
                    status = "hook" if after in ("dirty-after", "dirty-before", "none") else "hook-early-return"
                # `object.__setattr__(self, k, v)` for private names is the hook's own pass-through
            elif name == "__init__" and cls in ENTRY_CLASSES and tgt.startswith("self."):
                status = "init"
            elif name == "deserialize" and cls in ENTRY_CLASSES:
                status = "loading"
            elif after in ("dirty-after", "dirty-before"):
                status = after
            elif name in via:
                status = "via-updated"
            else:
                status = after if after == "return-before-dirty" else "none"
            rows.append((rel, q, tgt, kind, status))
    return rows


def lean_str(s):
    return '"' + s.replace("\\", "\\\\").replace('"', '\\"') + '"'


def render(rows):
    lines = ["/- GENERATED by tools/gen_direct_writes.py from the repo under test — do not edit.",
             "   (file, function, target, statement kind, relation to the dirty set); Props/C08Writes.lean proves it equals the audited list. -/",
             "namespace CS.Gen.DirectWrites",
             "def table : List (String × String × String × String × String) := ["]
    body = []
    for r in rows:
        body.append("  (" + ", ".join(lean_str(x) for x in r) + ")")
    lines.append(",\n".join(body))
    lines.append("]")
    lines.append("end CS.Gen.DirectWrites")
    return "\n".join(lines) + "\n"


def main():
    repo = sys.argv[1] if len(sys.argv) > 1 else os.environ.get("VERIF_REPO", "/repo")
    here = os.path.dirname(os.path.dirname(os.path.abspath(__file__)))
    out = sys.argv[2] if len(sys.argv) > 2 else os.path.join(here, "lean", "Csverif", "Gen", "DirectWrites.lean")
    text = render(analyse(repo))
    old = open(out, encoding="utf8").read() if os.path.exists(out) else None
    if old != text:
        os.makedirs(os.path.dirname(out), exist_ok=True)
        with open(out, "w", encoding="utf8") as f:
            f.write(text)
        print("regenerated %s (%d sites)" % (out, text.count("\n  (")))
    else:
        print("unchanged %s" % out)


if __name__ == "__main__":
    main()
