"""C15 mutation experiments: applies one named mutation (m1..m10, fix, fixall) to a PRIVATE copy of the repo
(env C15_MUT_REPO, default /tmp/build/C15_repo; never /repo).  Then run:  VERIF_REPO=<copy> ./check C15 --tier quick"""
import sys,re
import os
R=os.environ.get("C15_MUT_REPO", "/tmp/build/C15_repo") + "/cloudsync/"
def sub(rel, old, new, count=1):
    p=R+rel; s=open(p).read()
    assert old in s, (rel, old[:40])
    s=s.replace(old,new,count); open(p,"w").write(s)
# the six edits of fix F7 (name, file, before, after)
F7 = [
    ('smart_unsync_oid', "smartsync.py",
     """        ent: SyncEntry = self.state.lookup_oid(REMOTE, remote_oid)
        if not ent:
            raise ex.CloudFileNotFoundError(remote_oid)
        self._smart_unsync_ent(ent)
        ent = self.state.smart_unsync_oid(remote_oid)
        return ent[LOCAL].path""",
     """        with self.state.lock:
            ent: SyncEntry = self.state.lookup_oid(REMOTE, remote_oid)
            if not ent:
                raise ex.CloudFileNotFoundError(remote_oid)
            self._smart_unsync_ent(ent)
            ent = self.state.smart_unsync_oid(remote_oid)
            return ent[LOCAL].path"""),
    ('smart_unsync_path', "smartsync.py",
     """        state_ents = self.state.lookup_path(REMOTE, remote_path)
        ents: set = self.state.requestset.intersection(state_ents)
        if not ents:
            return None
        found_ents = set()
        for ent in ents:
            found = self._smart_unsync_ent(ent)
            if found:
                found_ents.add(found)
        for ent in found_ents:
            self.state.smart_unsync_ent(ent)
        return found_ents""",
     """        with self.state.lock:
            state_ents = self.state.lookup_path(REMOTE, remote_path)
            ents: set = self.state.requestset.intersection(state_ents)
            if not ents:
                return None
            found_ents = set()
            for ent in ents:
                found = self._smart_unsync_ent(ent)
                if found:
                    found_ents.add(found)
            for ent in found_ents:
                self.state.smart_unsync_ent(ent)
            return found_ents"""),
    ('smart_sync_oid', "smartsync.py",
     """        ent: SyncEntry = self.state.smart_sync_oid(remote_oid)
        if not ent:
            raise ex.CloudFileNotFoundError(remote_oid)
        self._smart_sync_ent(ent)
        return ent[LOCAL].path""",
     """        with self.state.lock:
            ent: SyncEntry = self.state.smart_sync_oid(remote_oid)
            if not ent:
                raise ex.CloudFileNotFoundError(remote_oid)
            self._smart_sync_ent(ent)
            return ent[LOCAL].path"""),
    ('smart_sync_path', "smartsync.py",
     """        try:
            ents = self.state.smart_sync_path(remote_path)
        except ex.CloudException as e:
            self.nmgr.notify_from_exception(SourceEnum.SYNC, e, remote_path)
            raise
        for ent in ents:
            self._smart_sync_ent(ent)""",
     """        with self.state.lock:
            try:
                ents = self.state.smart_sync_path(remote_path)
            except ex.CloudException as e:
                self.nmgr.notify_from_exception(SourceEnum.SYNC, e, remote_path)
                raise
            for ent in ents:
                self._smart_sync_ent(ent)"""),
    ('smart_delete_path', "smartsync.py",
     """        if remote_path:
            ents = self.state.lookup_path(REMOTE, remote_path)
            if ents:
                ent = ents[0]
                ent[REMOTE].changed = 0
                self.state.update_entry(ent, LOCAL, local_oid, path=local_path, changed=True, exists=False)
                self.state.requestset.add(ent)
                self.state.excludeset.discard(ent)""",
     """        if remote_path:
            with self.state.lock:
                ents = self.state.lookup_path(REMOTE, remote_path)
                if ents:
                    ent = ents[0]
                    ent[REMOTE].changed = 0
                    self.state.update_entry(ent, LOCAL, local_oid, path=local_path, changed=True, exists=False)
                    self.state.requestset.add(ent)
                    self.state.excludeset.discard(ent)"""),
    ('forget', "cs.py",
     """        self.state.forget()
        self.emgrs[0].forget()
        self.emgrs[1].forget()""",
     """        with self.state.lock:
            self.state.forget()
            self.emgrs[0].forget()
            self.emgrs[1].forget()"""),
]
m=sys.argv[1]
if m=="m1":   # storage_commit dedented out of the with in _process_event
    sub("event.py","""                              accurate=event.accurate)
            self.state.storage_commit()""","""                              accurate=event.accurate)
        self.state.storage_commit()""")
elif m=="m2": # change() before taking the lock
    sub("sync/manager.py","""        with self.state.lock:
            sync: SyncEntry = self.state.change(self.aging)
            if sync:""","""        sync: SyncEntry = self.state.change(self.aging)
        with self.state.lock:
            if sync:""")
elif m=="m3": # on-demand sync without the lock
    sub("smartsync.py","""        with self.state.lock:
            for parent_conflict in self.smgr.get_parent_conflicts(ent, REMOTE):  # ALWAYS remote
                self._sync_one_entry(parent_conflict)
            ent[REMOTE].mark_changed()
            return self._sync_one_entry(ent)""","""        for parent_conflict in self.smgr.get_parent_conflicts(ent, REMOTE):  # ALWAYS remote
            self._sync_one_entry(parent_conflict)
        ent[REMOTE].mark_changed()
        return self._sync_one_entry(ent)""")
elif m=="m4": # lock dropped around the sync of the entry (pick under lock, sync outside)
    sub("sync/manager.py","""            if sync:
                log.log(TRACE, "do sync=%s", sync)
                need_to_sleep = False
                something_got_done = self._sync_one_entry(sync)
""","""            if sync:
                log.log(TRACE, "do sync=%s", sync)
                need_to_sleep = False
        if sync:
            something_got_done = self._sync_one_entry(sync)
""")
elif m=="m5": # a non-exclusive lock object (every `with` succeeds at once)
    sub("sync/state.py","        self.lock = RLock()","        import contextlib\n        self.lock = contextlib.nullcontext()")
elif m=="m6": # lock released during the provider work of a sync step and re-taken (split section)
    sub("sync/manager.py","""            something_got_done = self.pre_sync(sync)
            if not something_got_done:""","""            something_got_done = self.pre_sync(sync)
            self.state.lock.release()
            time.sleep(0)
            self.state.lock.acquire()
            if not something_got_done:""")
elif m=="m7": # event path: only the update is under the lock, lookups+commit are not (narrowed with)
    sub("event.py","""            self._fill_event_path(event)
            self._notify_on_root_change_event(event)
            self.state.update(""","""        if True:
            self._fill_event_path(event)
            self._notify_on_root_change_event(event)
            self.state.update(""")
elif m=="m8": # cursor-error path now discards state without the lock
    sub("event.py","""            self._save_current_cursor()
            self.need_walk = True
            self.backoff()""","""            self._save_current_cursor()
            self.need_walk = True
            self.state.forget()
            self.backoff()""")
elif m=="m9": # walk applies its events directly from the caller's thread, skipping the queue, with a private fast path
    sub("cs.py","""                self.emgrs[index].queue(event, from_walk=True)""","""                self.state.update(index, event.otype, event.oid, path=event.path, hash=event.hash, exists=event.exists)""")
elif m=="m10": # stop() flushes state from the stopping thread
    sub("cs.py","""        self.stop_all(self._runnables, forever, wait)""","""        self.stop_all(self._runnables, forever, False)
        self.state.storage_commit()
        if wait:
            self.wait()""")
elif m=="fix": # the proposed fix
    sub("smartsync.py","""        assert ent
        self.state.unconditionally_get_latest(ent, LOCAL)
        if ent[LOCAL].hash != ent[LOCAL].sync_hash or ent[LOCAL].parent.paths_differ(LOCAL):
            ent[LOCAL].changed = ent[LOCAL].changed or time.time()
            self._sync_one_entry(ent)
""","""        assert ent
        with self.state.lock:
            self.state.unconditionally_get_latest(ent, LOCAL)
            if ent[LOCAL].hash != ent[LOCAL].sync_hash or ent[LOCAL].parent.paths_differ(LOCAL):
                ent[LOCAL].changed = ent[LOCAL].changed or time.time()
                self._sync_one_entry(ent)
""")
elif m=="fixall" or m.startswith("fixall-"):
    # "fixall" applies F7; "fixall-<name>" applies all edits but one
    skip = m[len("fixall-"):] if m.startswith("fixall-") else None
    for name, rel, old, new in F7:
        if name != skip:
            sub(rel, old, new)
elif m.startswith("revert-"):
    # on a tree that already contains F7: undo one of its six edits (regression of a fixed finding)
    which = m[len("revert-"):]
    assert which in [x[0] for x in F7], which
    for name, rel, old, new in F7:
        if name == which:
            sub(rel, new, old)
elif m in ("refactor1", "refactor2"):
    # benign refactor: the mutating statements of SyncState.mark_changed move into a helper (new rows, all under the same locks);
    # refactor2 additionally calls the helper after the `with` of SyncManager.do (a NEW unlocked row: must stay a violation)
    sub("sync/state.py","""    def mark_changed(self, side, ent):
        ent[side].changed = time.time()""","""    def mark_changed(self, side, ent):
        self._bump_changed(side, ent)

    def _bump_changed(self, side, ent):
        ent[side].changed = time.time()""")
    if m == "refactor2":
        sub("sync/manager.py","""        if need_to_sleep:
            time.sleep(self.aging)
""","""        if need_to_sleep:
            time.sleep(self.aging)
        elif sync:
            self.state._bump_changed(0, sync)
""")
elif m == "x1":
    # lock identity: the sync manager caches the lock object at construction; forget() later re-binds state.lock (setattr)
    sub("sync/manager.py","""        self.state = state
        self.providers: Tuple['Provider', 'Provider'] = providers""","""        self.state = state
        self._lock = state.lock
        self.providers: Tuple['Provider', 'Provider'] = providers""")
    sub("sync/manager.py","""        with self.state.lock:
            sync: SyncEntry = self.state.change(self.aging)""","""        with self._lock:
            sync: SyncEntry = self.state.change(self.aging)""")
    sub("cs.py","""        with self.state.lock:
            self.state.forget()""","""        with self.state.lock:
            import threading
            setattr(self.state, "lock", threading.RLock())
            self.state.forget()""")
elif m == "x2":
    # lock identity: every event manager works on a shallow copy of the state (shares the lock object and, until forget(), the indexes)
    sub("event.py","""        self.state: 'SyncState' = state""","""        import copy
        self.state: 'SyncState' = copy.copy(state)""")
elif m == "x3":
    # lock identity: start() gives the state a fresh lock through the instance dictionary ("fresh lock for fresh threads")
    sub("cs.py","""        self.nmgr.notify(Notification(SourceEnum.SYNC, NotificationType.STARTED, None))
        self.smgr.start(""","""        import threading
        self.state.__dict__["lock"] = threading.RLock()
        self.nmgr.notify(Notification(SourceEnum.SYNC, NotificationType.STARTED, None))
        self.smgr.start(""")
else:
    raise SystemExit("unknown "+m)
