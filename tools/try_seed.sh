#!/bin/sh
# usage: tools/try_seed.sh <patch.diff> <tier> <ID> [<ID>...]
# Applies the patch in a scratch worktree of /repo HEAD (never in /repo itself, other jobs read it), runs the checks against
# that tree through VERIF_REPO, removes the worktree.
patch="$1"; tier="$2"; shift 2
wt=/tmp/seedtry_$$
git -C /repo worktree add -q --detach "$wt" HEAD || exit 2
cd "$wt" || exit 2
if ! git apply --3way "$patch" 2>/tmp/apply.err && ! git apply "$patch" 2>>/tmp/apply.err; then echo "PATCH DOES NOT APPLY"; tail -3 /tmp/apply.err; cd /; git -C /repo worktree remove --force "$wt"; exit 3; fi
for id in "$@"; do
  start=$(date +%s)
  out=$(cd /verif && VERIF_REPO="$wt" VERIF_EVIDENCE_DIR="$wt/.verif_evidence" ./check "$id" --tier "$tier" 2>&1); rc=$?
  echo "== $id rc=$rc $(( $(date +%s) - start ))s"; echo "$out" | grep -E "VIOLATION|HARNESS|KNOWN" | head -5
done
git -C /verif checkout -- lean/Csverif/Gen 2>/dev/null  # tables regenerated from the mutated tree
cd /; git -C /repo worktree remove --force "$wt"
