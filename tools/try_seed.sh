#!/bin/sh
# usage: tools/try_seed.sh <patch.diff> <tier> <ID> [<ID>...]   — applies the patch to /repo, runs the checks, always reverts
patch="$1"; tier="$2"; shift 2
cd /repo || exit 2
if ! git diff --quiet; then echo "repo dirty"; exit 2; fi
if ! git apply --3way "$patch" 2>/tmp/apply.err && ! git apply "$patch" 2>>/tmp/apply.err; then echo "PATCH DOES NOT APPLY"; cat /tmp/apply.err | tail -3; git checkout -- . ; exit 3; fi
git reset -q 2>/dev/null
for id in "$@"; do
  start=$(date +%s)
  out=$(cd /verif && ./check "$id" --tier "$tier" 2>&1); rc=$?
  echo "== $id rc=$rc $(( $(date +%s) - start ))s"; echo "$out" | grep -E "VIOLATION|HARNESS|KNOWN" | head -5
done
cd /repo && git checkout -- . && git status --short | head -3
