#!/venv/bin/python
"""C09 SQL-site table.  An `ast` pass over cloudsync/sync/sqlite_storage.py of the repo under test (VERIF_REPO, default
/repo) that lists, in source order and without line numbers (harmless edits elsewhere must not break the theorem):

  kind "stmt"  one row per SQL statement text that reaches a cursor call `X.execute / X.executemany / X.executescript /
               self.__db_execute(...)`: the enclosing function (qualified), the callee, the statement text (adjacent literals
               joined; a Name argument is resolved to every string assigned to that name in the function, one row each; parts
               that are not literals are rendered `{dyn:<source>}`, a function parameter `{param:<name>}`), its upper-cased token
               list, the source of the parameter argument, the chain of compound statements between the function body and the call
               (`If`, `If>else`, `With(self._mutex)`, `Try`, `For`, `While`, ...), whether the call is inside a loop, whether it runs
               under the connection mutex (lexically inside `with self._mutex:` or through a wrapper all of whose cursor calls are),
               LIMIT / OFFSET / ORDER BY presence, how the result is consumed (`fetch=True`, `.lastrowid`, `.rowcount`, ...), and the
               number of `return` / `raise` statements that lexically precede the call in the function (an early exit that can skip
               the statement, e.g. a cache).
  kind "call"  every other cursor-method call (`fetchall`, `fetchone`, `fetchmany`, `close`, `commit`, `rollback`, `connect`);
               `toks` = [the method name].
  kind "loop"  every `for` / `while` loop and comprehension of the file (header source), so that a new loop around - or beside -
               the cursor calls changes the table.
  kind "sqlstr" every SQL-looking string literal that does NOT reach a cursor call (a statement built somewhere else).
  kind "connkw" one row per argument of every `….connect(...)` call: `sql` = keyword name (`arg<i>` for positional), `params` = source
               of the value (`isolation_level=None`, `timeout=5`, ...).
  kind "connattr" every assignment to a connection-configuration attribute (`isolation_level`, `autocommit`, `row_factory`,
               `text_factory`) on any object: `callee` = the object, `sql` = attribute, `params` = source of the value.
  (PRAGMA / BEGIN / COMMIT statements are "stmt" rows; `commit()` / `rollback()` / `close()` / `connect()` are "call" rows, and so is
  every call of a method of the class that itself creates a connection, e.g. `self.__db_connect()`.)
Every row also carries `reach`, which call paths run it: "connect" = it is in a function that creates a connection (runs for EVERY
connection the object ever uses), "init-only" = its function is reachable from `__init__` only (runs for the first connection, not
for a replacement made later), "any" = reachable from other entry points.

The table is written to lean/Csverif/Gen/SqlSites.lean (only when its text changes); Props/C09Sql.lean proves it equal to the
audited table by `decide`, and proves the model-relevant facts about the audited table.  A rewritten, added or removed statement,
a statement moved into a loop or out of the mutex, or a new early exit breaks that obligation; the C09 check then searches for a
failing input with the size-scaling generators."""
import ast
import os
import re
import sys

HERE = os.path.dirname(os.path.abspath(__file__))
VERIF = os.path.dirname(HERE)
REPO = os.environ.get("VERIF_REPO", "/repo")
REL = "cloudsync/sync/sqlite_storage.py"
OUT = os.path.join(VERIF, "lean", "Csverif", "Gen", "SqlSites.lean")

EXEC_NAMES = ("execute", "executemany", "executescript")
OTHER_CURSOR = ("fetchall", "fetchone", "fetchmany", "commit", "rollback", "close", "connect", "cursor")
CONN_ATTRS = ("isolation_level", "autocommit", "row_factory", "text_factory")
RESULT_ATTRS = ("lastrowid", "rowcount", "fetchall", "fetchone", "fetchmany", "arraysize")
SQL_RE = re.compile(r"^\s*(SELECT|INSERT|UPDATE|DELETE|PRAGMA|CREATE|DROP|ALTER|REPLACE|ATTACH|DETACH|VACUUM|BEGIN|COMMIT|"
                    r"ROLLBACK|WITH|SAVEPOINT|RELEASE|ANALYZE|REINDEX|EXPLAIN)\b", re.I)
TOK_RE = re.compile(r"\{[a-z]+:[^}]*\}|[A-Za-z_][A-Za-z_0-9]*|\d+|[^\sA-Za-z_0-9]")


def is_exec_name(attr):
    # `self.__db_execute` is stored unmangled in the AST; also accept the mangled spelling
    return attr in EXEC_NAMES or attr.endswith("__db_execute") or attr.endswith("_db_execute")


def render_sql(node, params):
    """source text of an expression used as SQL; literals verbatim, everything else marked"""
    if isinstance(node, ast.Constant) and isinstance(node.value, str):
        return node.value
    if isinstance(node, ast.JoinedStr):
        out = []
        for v in node.values:
            if isinstance(v, ast.Constant):
                out.append(str(v.value))
            else:
                out.append("{dyn:%s}" % ast.unparse(getattr(v, "value", v)))
        return "".join(out)
    if isinstance(node, ast.BinOp) and isinstance(node.op, ast.Add):
        return render_sql(node.left, params) + render_sql(node.right, params)
    if isinstance(node, ast.BinOp) and isinstance(node.op, ast.Mod):
        return render_sql(node.left, params) + "{dyn:%% %s}" % ast.unparse(node.right)
    if isinstance(node, ast.Name) and node.id in params:
        return "{param:%s}" % node.id
    return "{dyn:%s}" % ast.unparse(node)


def tokens(sql):
    return [t if t.startswith("{") else t.upper() for t in TOK_RE.findall(sql)]


def has_seq(toks, seq):
    n = len(seq)
    return any(toks[i:i + n] == seq for i in range(len(toks) - n + 1))


class FuncScan:
    """one function: parents, loops, with-mutex, exits, assignments"""

    def __init__(self, fn, qual):
        self.fn, self.qual = fn, qual
        self.params = [a.arg for a in fn.args.args + fn.args.kwonlyargs]
        self.parent = {}
        for node in ast.walk(fn):
            for ch in ast.iter_child_nodes(node):
                self.parent[id(ch)] = node
        self.assigns = {}   # name -> [value nodes] in source order
        self.uses = {}      # name -> [attribute names used on it] in source order
        for node in self._walk_own(fn):
            if isinstance(node, ast.Assign):
                for tg in node.targets:
                    if isinstance(tg, ast.Name):
                        self.assigns.setdefault(tg.id, []).append(node.value)
            elif isinstance(node, ast.AugAssign) and isinstance(node.target, ast.Name):
                self.assigns.setdefault(node.target.id, []).append(node)
            elif isinstance(node, ast.AnnAssign) and isinstance(node.target, ast.Name) and node.value is not None:
                self.assigns.setdefault(node.target.id, []).append(node.value)
            if isinstance(node, ast.Attribute) and isinstance(node.value, ast.Name):
                self.uses.setdefault(node.value.id, []).append(node.attr)
            if isinstance(node, (ast.For, ast.AsyncFor)) and isinstance(node.iter, ast.Name):
                self.uses.setdefault(node.iter.id, []).append("for")
        self.exits = [n for n in self._walk_own(fn) if isinstance(n, (ast.Return, ast.Raise))]

    def _walk_own(self, fn):
        """nodes of this function, not of nested function/class definitions"""
        stack = list(ast.iter_child_nodes(fn))
        while stack:
            n = stack.pop()
            yield n
            if not isinstance(n, (ast.FunctionDef, ast.AsyncFunctionDef, ast.ClassDef, ast.Lambda)):
                stack.extend(ast.iter_child_nodes(n))

    def chain(self, node):
        """compound statements between the function body and `node`, outermost first"""
        out = []
        cur = node
        while id(cur) in self.parent:
            par = self.parent[id(cur)]
            if par is self.fn:
                break
            label = None
            if isinstance(par, ast.If):
                label = "If" if any(cur is x for x in par.body) or cur is par.test else "If>else"
            elif isinstance(par, (ast.For, ast.AsyncFor)):
                label = "For" if cur is not par.iter else None     # the iterable is evaluated once
                if any(cur is x for x in par.orelse):
                    label = "For>else"
            elif isinstance(par, ast.While):
                label = "While"
            elif isinstance(par, (ast.With, ast.AsyncWith)):
                label = "With(%s)" % ", ".join(ast.unparse(i.context_expr) for i in par.items)
            elif isinstance(par, ast.Try):
                if any(cur is x for x in par.body):
                    label = "Try"
                elif any(cur is x for x in par.finalbody):
                    label = "Try>finally"
                elif any(cur is x for x in par.orelse):
                    label = "Try>else"
            elif isinstance(par, ast.ExceptHandler):
                label = "Except(%s)" % (ast.unparse(par.type) if par.type is not None else "")
            elif isinstance(par, (ast.ListComp, ast.SetComp, ast.DictComp, ast.GeneratorExp)):
                label = "Comp"
            elif isinstance(par, (ast.FunctionDef, ast.AsyncFunctionDef, ast.Lambda)):
                label = "Def(%s)" % getattr(par, "name", "lambda")
            elif isinstance(par, ast.Match) if hasattr(ast, "Match") else False:
                label = "Match"
            if label:
                out.append(label)
            cur = par
        return list(reversed(out))

    def exits_before(self, node):
        """return / raise statements that lexically precede `node` (not the statement containing it)"""
        pos = (node.lineno, node.col_offset)
        anc = set()
        cur = node
        while id(cur) in self.parent:
            cur = self.parent[id(cur)]
            anc.add(id(cur))
        return sum(1 for e in self.exits if (e.lineno, e.col_offset) < pos and id(e) not in anc)

    def branch_path(self, node):
        """[(id of compound statement, which block)] from the function body down to `node`"""
        out = []
        cur = node
        while id(cur) in self.parent:
            par = self.parent[id(cur)]
            if par is self.fn:
                break
            for field in ("body", "orelse", "finalbody", "handlers"):
                blk = getattr(par, field, None)
                if isinstance(blk, list) and any(cur is x for x in blk):
                    out.append((id(par), field))
            cur = par
        return list(reversed(out))

    def reaching(self, name, call):
        """the assignments to `name` that can be the one read at `call`: the nearest preceding assignment in an enclosing block
        of the call if there is one, otherwise every assignment in the function"""
        cands = self.assigns.get(name, [])
        cpath = self.branch_path(call)
        loops = {id(n) for n in self._walk_own(self.fn) if isinstance(n, (ast.For, ast.AsyncFor, ast.While))}
        best, maybe = None, []
        for v in cands:
            st = v if isinstance(v, ast.AugAssign) else self.parent.get(id(v))
            vpath = self.branch_path(st) if st is not None else []
            k = 0
            while k < len(vpath) and k < len(cpath) and vpath[k] == cpath[k]:
                k += 1
            in_common_loop = any(pid in loops for pid, _f in cpath[:k])
            before = st is not None and (st.lineno, st.col_offset) < (call.lineno, call.col_offset)
            if k < len(vpath) and k < len(cpath) and vpath[k][0] == cpath[k][0] and not in_common_loop:
                continue                # the other branch of an `if` / `try` around the call: cannot reach it
            if not before and not in_common_loop:
                continue                # assigned after the call, no loop to carry it back
            if k == len(vpath) and before and not isinstance(v, ast.AugAssign):
                best = v                # unconditional on the way to the call: the latest one wins
                maybe = []
            else:
                maybe.append(v)
        res = ([best] if best is not None else []) + maybe
        return res or cands


def scan():
    path = os.path.join(REPO, REL)
    tree = ast.parse(open(path, encoding="utf8").read())
    funcs = []          # (FuncScan)

    def collect(node, qual):
        for ch in ast.iter_child_nodes(node):
            if isinstance(ch, (ast.FunctionDef, ast.AsyncFunctionDef)):
                q = (qual + "." if qual else "") + ch.name
                funcs.append(FuncScan(ch, q))
                collect(ch, q)
            elif isinstance(ch, ast.ClassDef):
                collect(ch, (qual + "." if qual else "") + ch.name)
            else:
                collect(ch, qual)
    collect(tree, "")
    # module / class level code is scanned as a pseudo function
    mod = ast.FunctionDef(name="<module>", args=ast.arguments(posonlyargs=[], args=[], kwonlyargs=[], kw_defaults=[], defaults=[]),
                          body=[n for n in tree.body if not isinstance(n, (ast.FunctionDef, ast.AsyncFunctionDef, ast.ClassDef))] or [ast.Pass()],
                          decorator_list=[], lineno=0, col_offset=0)
    funcs.append(FuncScan(mod, "<module>"))

    # call graph inside the file (by method name) and which functions create a connection
    short = lambda fs: fs.qual.split(".")[-1]
    calls = {}
    makers = set()
    for fs in funcs:
        for node in fs._walk_own(fs.fn):
            if isinstance(node, ast.Call) and isinstance(node.func, ast.Attribute):
                if node.func.attr == "connect":
                    makers.add(short(fs))
                if isinstance(node.func.value, ast.Name) and node.func.value.id in ("self", "cls"):
                    calls.setdefault(short(fs), set()).add(node.func.attr)
            elif isinstance(node, ast.Call) and isinstance(node.func, ast.Name):
                calls.setdefault(short(fs), set()).add(node.func.id)
    names = {short(fs) for fs in funcs}

    def callers_of(name):
        seen, todo = set(), [name]
        while todo:
            cur = todo.pop()
            for f, cs in calls.items():
                if cur in cs and f not in seen and f in names:
                    seen.add(f)
                    todo.append(f)
        return seen

    def reach_of(fs):
        n = short(fs)
        if n in makers:
            return "connect"
        cs = callers_of(n) - {n}
        if n == "__init__" and not cs:
            return "init-only"
        if cs and cs <= {"__init__"}:
            return "init-only"
        return "any"

    docstrings = set()
    for node in ast.walk(tree):
        if isinstance(node, (ast.FunctionDef, ast.AsyncFunctionDef, ast.ClassDef, ast.Module)):
            b = node.body
            if b and isinstance(b[0], ast.Expr) and isinstance(b[0].value, ast.Constant) and isinstance(b[0].value.value, str):
                docstrings.add(id(b[0].value))

    # pass 1: which functions wrap all their cursor calls in `with self._mutex`
    def call_rows(fs):
        rows = []
        for node in fs._walk_own(fs.fn):
            if isinstance(node, ast.Call) and isinstance(node.func, ast.Attribute):
                attr = node.func.attr
                if is_exec_name(attr) or attr in OTHER_CURSOR or (attr in makers and attr in names):
                    rows.append(node)
        rows.sort(key=lambda n: (n.lineno, n.col_offset))
        return rows

    def lex_mutex(fs, node):
        return any(lbl.startswith("With(") and "_mutex" in lbl for lbl in fs.chain(node))

    wrappers = set()
    for fs in funcs:
        cr = [n for n in call_rows(fs) if n.func.attr in EXEC_NAMES or n.func.attr in ("fetchall", "fetchone", "fetchmany")]
        if cr and all(lex_mutex(fs, n) for n in cr) and any(n.func.attr in EXEC_NAMES for n in cr):
            wrappers.add(fs.qual.split(".")[-1])

    out = []
    consumed = set()     # ids of Constant nodes that reached a cursor call

    def in_loop(chain):
        return any(lbl in ("For", "While", "Comp") for lbl in chain)

    for fs in funcs:
        for node in call_rows(fs):
            attr = node.func.attr
            callee = ast.unparse(node.func)
            chain = fs.chain(node)
            if is_exec_name(attr):
                via_wrapper = attr not in EXEC_NAMES and any(w.lstrip("_") == attr.lstrip("_") for w in wrappers)
                under = lex_mutex(fs, node) or via_wrapper
                arg = node.args[0] if node.args else None
                for kw in node.keywords:
                    if kw.arg == "sql":
                        arg = kw.value
                texts = []
                if arg is None:
                    texts = ["{dyn:<no argument>}"]
                elif isinstance(arg, ast.Name) and arg.id not in fs.params and arg.id in fs.assigns:
                    for v in fs.reaching(arg.id, node):
                        texts.append(render_sql(v if not isinstance(v, ast.AugAssign) else v.value, fs.params) if not isinstance(v, ast.AugAssign)
                                     else "{dyn:%s %s= …}" % (arg.id, type(v.op).__name__) + render_sql(v.value, fs.params))
                        for c in ast.walk(v):
                            if isinstance(c, ast.Constant):
                                consumed.add(id(c))
                else:
                    texts = [render_sql(arg, fs.params)]
                    for c in ast.walk(arg):
                        if isinstance(c, ast.Constant):
                            consumed.add(id(c))
                pr = ""
                if len(node.args) > 1:
                    pr = ast.unparse(node.args[1])
                for kw in node.keywords:
                    if kw.arg == "parameters":
                        pr = ast.unparse(kw.value)
                # how the result is consumed
                how = []
                for kw in node.keywords:
                    if kw.arg == "fetch":
                        how.append("fetch=%s" % ast.unparse(kw.value))
                par = fs.parent.get(id(node))
                if isinstance(par, ast.Attribute):
                    how.append("." + par.attr)
                if isinstance(par, ast.Assign) and len(par.targets) == 1 and isinstance(par.targets[0], ast.Name):
                    for u in fs.uses.get(par.targets[0].id, []):
                        if u in RESULT_ATTRS or u == "for":
                            if ("." + u if u != "for" else "for") not in how:
                                how.append("." + u if u != "for" else "for")
                if isinstance(par, ast.Return):
                    how.append("return")
                for sql in texts:
                    toks = tokens(sql)
                    out.append(((node.lineno, node.col_offset), dict(
                        method=fs.qual, kind="stmt", callee=callee, sql=sql, toks=toks, params=pr, ctx=">".join(chain),
                        inLoop=in_loop(chain), underMutex=bool(under), hasLimit="LIMIT" in toks, hasOffset="OFFSET" in toks,
                        hasOrderBy=has_seq(toks, ["ORDER", "BY"]), result=" ".join(how), exitsBefore=fs.exits_before(node))))
            else:
                # only calls on something that can be a connection / cursor: skip e.g. `self.close()` of the storage itself?  no:
                # every such method name is listed, the receiver text tells them apart
                out.append(((node.lineno, node.col_offset), dict(
                    method=fs.qual, kind="call", callee=callee, sql="", toks=[attr], params=", ".join(ast.unparse(a) for a in node.args[:1]),
                    ctx=">".join(chain), inLoop=in_loop(chain), underMutex=lex_mutex(fs, node), hasLimit=False, hasOffset=False,
                    hasOrderBy=False, result="", exitsBefore=fs.exits_before(node))))
                if attr == "connect":
                    args = [("arg%d" % i, a) for i, a in enumerate(node.args)] + [(kw.arg or "**", kw.value) for kw in node.keywords]
                    for j, (k, v) in enumerate(args):
                        out.append(((node.lineno, node.col_offset + 0.001 * (j + 1)), dict(
                            method=fs.qual, kind="connkw", callee=callee, sql=k, toks=[], params=ast.unparse(v), ctx=">".join(chain),
                            inLoop=in_loop(chain), underMutex=lex_mutex(fs, node), hasLimit=False, hasOffset=False, hasOrderBy=False,
                            result="", exitsBefore=fs.exits_before(node))))
        for node in fs._walk_own(fs.fn):
            tgs = []
            if isinstance(node, ast.Assign):
                tgs = [(t, node.value) for t in node.targets]
            elif isinstance(node, (ast.AugAssign, ast.AnnAssign)) and node.value is not None:
                tgs = [(node.target, node.value)]
            for t, v in tgs:
                for t1 in (t.elts if isinstance(t, (ast.Tuple, ast.List)) else [t]):
                    if isinstance(t1, ast.Attribute) and t1.attr in CONN_ATTRS:
                        chain = fs.chain(node)
                        out.append(((node.lineno, node.col_offset), dict(
                            method=fs.qual, kind="connattr", callee=ast.unparse(t1.value), sql=t1.attr, toks=[], params=ast.unparse(v),
                            ctx=">".join(chain), inLoop=in_loop(chain), underMutex=lex_mutex(fs, node), hasLimit=False, hasOffset=False,
                            hasOrderBy=False, result="", exitsBefore=fs.exits_before(node))))
            if isinstance(node, ast.Call) and isinstance(node.func, ast.Name) and node.func.id == "setattr" and len(node.args) >= 3:
                a1 = node.args[1]
                nm = a1.value if isinstance(a1, ast.Constant) and isinstance(a1.value, str) else None
                if nm is None or nm in CONN_ATTRS:
                    chain = fs.chain(node)
                    out.append(((node.lineno, node.col_offset), dict(
                        method=fs.qual, kind="connattr", callee=ast.unparse(node.args[0]), sql=nm or "{dyn:%s}" % ast.unparse(a1), toks=[],
                        params=ast.unparse(node.args[2]), ctx=">".join(chain), inLoop=in_loop(chain), underMutex=lex_mutex(fs, node),
                        hasLimit=False, hasOffset=False, hasOrderBy=False, result="", exitsBefore=fs.exits_before(node))))
        for node in fs._walk_own(fs.fn):
            hdr = None
            if isinstance(node, (ast.For, ast.AsyncFor)):
                hdr = "for %s in %s" % (ast.unparse(node.target), ast.unparse(node.iter))
            elif isinstance(node, ast.While):
                hdr = "while %s" % ast.unparse(node.test)
            elif isinstance(node, (ast.ListComp, ast.SetComp, ast.DictComp, ast.GeneratorExp)):
                hdr = "comp " + " ".join("for %s in %s" % (ast.unparse(g.target), ast.unparse(g.iter)) for g in node.generators)
            if hdr:
                chain = fs.chain(node)
                has_call = any(isinstance(n, ast.Call) and isinstance(n.func, ast.Attribute) and
                               (is_exec_name(n.func.attr) or n.func.attr in OTHER_CURSOR) for n in ast.walk(node))
                out.append(((node.lineno, node.col_offset), dict(
                    method=fs.qual, kind="loop", callee="", sql=hdr, toks=[], params="", ctx=">".join(chain), inLoop=in_loop(chain),
                    underMutex=lex_mutex(fs, node), hasLimit=False, hasOffset=False, hasOrderBy=False,
                    result="cursor-call-inside" if has_call else "", exitsBefore=fs.exits_before(node))))
        for node in fs._walk_own(fs.fn):
            if isinstance(node, ast.Constant) and isinstance(node.value, str) and id(node) not in consumed and id(node) not in docstrings \
                    and SQL_RE.match(node.value):
                chain = fs.chain(node)
                toks = tokens(node.value)
                out.append(((node.lineno, node.col_offset), dict(
                    method=fs.qual, kind="sqlstr", callee="", sql=node.value, toks=toks, params="", ctx=">".join(chain), inLoop=in_loop(chain),
                    underMutex=False, hasLimit="LIMIT" in toks, hasOffset="OFFSET" in toks, hasOrderBy=has_seq(toks, ["ORDER", "BY"]),
                    result="", exitsBefore=fs.exits_before(node))))
    out.sort(key=lambda t: (t[0], t[1]["kind"], t[1]["sql"]))
    reach_by_qual = {fs.qual: reach_of(fs) for fs in funcs}
    for _pos, r in out:
        r["reach"] = reach_by_qual.get(r["method"], "any")
    return [r for _pos, r in out]


def all_sites():
    try:
        return scan()
    except (OSError, SyntaxError) as e:
        return [dict(method="<unparsable>", kind="sqlstr", callee="", sql=type(e).__name__, toks=[], params="", ctx="", inLoop=False,
                     underMutex=False, hasLimit=False, hasOffset=False, hasOrderBy=False, result="", exitsBefore=0, reach="any")]


def lean_str(s):
    return '"' + s.replace("\\", "\\\\").replace('"', '\\"').replace("\n", "\\n") + '"'


def lean_bool(b):
    return "true" if b else "false"


def render_row(r):
    return ("  { method := %s, kind := %s, callee := %s,\n    sql := %s,\n    toks := [%s],\n    params := %s, ctx := %s, "
            "inLoop := %s, underMutex := %s,\n    hasLimit := %s, hasOffset := %s, hasOrderBy := %s, result := %s, exitsBefore := %d, reach := %s }"
            % (lean_str(r["method"]), lean_str(r["kind"]), lean_str(r["callee"]), lean_str(r["sql"]),
               ", ".join(lean_str(t) for t in r["toks"]), lean_str(r["params"]), lean_str(r["ctx"]), lean_bool(r["inLoop"]),
               lean_bool(r["underMutex"]), lean_bool(r["hasLimit"]), lean_bool(r["hasOffset"]), lean_bool(r["hasOrderBy"]),
               lean_str(r["result"]), r["exitsBefore"], lean_str(r["reach"])))


def render(sites, name="sqlSites", header=True):
    lines = []
    if header:
        lines += ["import Csverif.Model.SqlSite",
                  "/- GENERATED by tools/gen_sql_sites.py from cloudsync/sync/sqlite_storage.py of the repo under test -- do not edit.",
                  "   One row per SQL statement reaching a cursor call, per other cursor-method call, per loop and per stray SQL literal",
                  "   (see the tool's docstring).  `CS.Storage.SqlSite` is declared in Model/SqlSite.lean; Props/C09Sql.lean proves this",
                  "   table equal to the audited one and the model-relevant facts about it. -/",
                  "namespace CS.Gen",
                  "open CS.Storage",
                  ""]
    lines.append("def %s : List SqlSite := [" % name)
    lines.append(",\n".join(render_row(r) for r in sites))
    lines.append("]")
    if header:
        lines += ["", "end CS.Gen", ""]
    return "\n".join(lines)


def generate(write=True):
    sites = all_sites()
    text = render(sites)
    changed = False
    if write:
        old = open(OUT, encoding="utf8").read() if os.path.exists(OUT) else None
        if old != text:
            os.makedirs(os.path.dirname(OUT), exist_ok=True)
            tmp = OUT + ".tmp%d" % os.getpid()
            with open(tmp, "w", encoding="utf8") as f:
                f.write(text)
            os.replace(tmp, OUT)
            changed = True
    return sites, changed


if __name__ == "__main__":
    if "--audited" in sys.argv:      # print the table as the literal to paste into Props/C09Sql.lean
        print(render(all_sites(), name="auditedSqlSites", header=False))
        sys.exit(0)
    s, ch = generate(write="--dry" not in sys.argv)
    for row in s:
        print(row)
    print("%d rows; file %s" % (len(s), "rewritten" if ch else "unchanged"))
