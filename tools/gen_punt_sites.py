#!/venv/bin/python
"""Regenerates lean/Csverif/Gen/PuntSites.lean from the source tree (VERIF_REPO, default /repo) with an `ast` pass over
cloudsync/sync/manager.py, class SyncManager:

  * for the three functions a failing sync step funnels through — `_sync_one_entry`, `do`, `sync` — every `except`
    clause in source order as a typed `Clause`: the exception classes named (constructors of CS.Faults.Exc; Python takes
    the FIRST clause whose classes match, which `SchedSites.catches` reproduces with the subclass relation `isSub`) and
    what the clause's body reaches: `sync.punt()`, `self.finished(..)` / `response = FINISHED`, `self.backoff()`, a `raise`;
  * whether `_sync_one_entry` calls `self.sync(sync)` without `want_raise` (the clause of `sync()` re-raises only if asked);
  * for EVERY except clause of every method of SyncManager a `Site` row (method, index of the try statement in the method,
    index of the clause, class names as written, and the facts punt / finished / backoff / split / bare raise /
    classes raised anew / constants returned / `response = X` assignments), so that adding, removing, reordering or
    rewriting any handler anywhere in the sync path changes the table.

Props/C17Sites.lean compares the output with the audited tables of Model/SchedSites.lean (kernel, `decide`).  A class the
extractor does not know in one of the three funnel functions is counted in `unmapped`.
Used by harness/c17_sched.py on every run; by hand:  tools/gen_punt_sites.py [--print]
"""
import ast
import os
import sys

VERIF = os.path.dirname(os.path.dirname(os.path.abspath(__file__)))
REPO = os.environ.get("VERIF_REPO", "/repo")
OUT = os.path.join(VERIF, "lean", "Csverif", "Gen", "PuntSites.lean")
sys.path.insert(0, os.path.dirname(os.path.abspath(__file__)))
import gen_exc_table  # noqa  (the class map is shared with the C10 table: a new class must be added there once)

FUNNEL = ("_sync_one_entry", "do", "sync")
CONSTS = ("PUNT", "FINISHED", "REQUEUE", "True", "False", "None")


def lean_str(s):
    return '"' + s.replace("\\", "\\\\").replace('"', '\\"') + '"'


def lean_list(xs):
    return "[" + ", ".join(xs) + "]"


def lean_bool(b):
    return "true" if b else "false"


class Extract:
    def __init__(self, repo):
        self.repo = repo
        self.unmapped = []
        with open(os.path.join(repo, "cloudsync/sync/manager.py"), encoding="utf8") as f:
            self.tree = ast.parse(f.read())
        self.cls = None
        for node in self.tree.body:
            if isinstance(node, ast.ClassDef) and node.name == "SyncManager":
                self.cls = node
        if self.cls is None:
            raise SystemExit("gen_punt_sites: class SyncManager not found")

    def methods(self):
        return [n for n in self.cls.body if isinstance(n, (ast.FunctionDef, ast.AsyncFunctionDef))]

    @staticmethod
    def tries(fn):
        """try statements of a function in source order (nested ones included, not those of nested defs)"""
        out = []

        def visit(node):
            for ch in ast.iter_child_nodes(node):
                if isinstance(ch, (ast.FunctionDef, ast.AsyncFunctionDef, ast.Lambda, ast.ClassDef)):
                    continue
                if isinstance(ch, ast.Try):
                    out.append(ch)
                visit(ch)
        visit(fn)
        out.sort(key=lambda t: (t.lineno, t.col_offset))
        return out

    @staticmethod
    def class_names(handler):
        t = handler.type
        if t is None:
            return ["BaseException"]
        elts = t.elts if isinstance(t, ast.Tuple) else [t]
        out = []
        for e in elts:
            out.append(e.attr if isinstance(e, ast.Attribute) else e.id if isinstance(e, ast.Name) else ast.dump(e))
        return out

    @staticmethod
    def facts(handler):
        """what the handler body reaches (any statement of the body, nested blocks included)"""
        f = {"punt": False, "finished": False, "backoff": False, "split": False, "reraise": False, "raises": [],
             "returns": [], "response": []}
        for stmt in handler.body:
            for n in ast.walk(stmt):
                if isinstance(n, ast.Call) and isinstance(n.func, ast.Attribute):
                    a = n.func.attr
                    if a == "punt":
                        f["punt"] = True
                    elif a == "finished":
                        f["finished"] = True
                    elif a == "backoff":
                        f["backoff"] = True
                    elif a == "split":
                        f["split"] = True
                elif isinstance(n, ast.Raise):
                    if n.exc is None:
                        f["reraise"] = True
                    else:
                        c = n.exc.func if isinstance(n.exc, ast.Call) else n.exc
                        nm = c.attr if isinstance(c, ast.Attribute) else c.id if isinstance(c, ast.Name) else "?"
                        if nm not in f["raises"]:
                            f["raises"].append(nm)
                elif isinstance(n, ast.Return):
                    v = n.value
                    nm = "None" if v is None else (v.id if isinstance(v, ast.Name) else repr(v.value) if isinstance(v, ast.Constant) else "expr")
                    if nm not in f["returns"]:
                        f["returns"].append(nm)
                elif isinstance(n, ast.Assign) and len(n.targets) == 1 and isinstance(n.targets[0], ast.Name) \
                        and n.targets[0].id == "response" and isinstance(n.value, ast.Name):
                    if n.value.id not in f["response"]:
                        f["response"].append(n.value.id)
        return f

    def clause(self, handler):
        names = self.class_names(handler)
        cs = []
        for nm in names:
            if nm in gen_exc_table.CLASS:
                cs.append("." + gen_exc_table.CLASS[nm])
            else:
                self.unmapped.append("class:%s" % nm)
        f = self.facts(handler)
        return "⟨%s, %s, %s, %s, %s⟩" % (lean_list(cs), lean_bool(f["punt"]),
                                          lean_bool(f["finished"] or "FINISHED" in f["response"]),
                                          lean_bool(f["backoff"]), lean_bool(f["reraise"] or bool(f["raises"])))

    def funnel(self, name):
        fn = [m for m in self.methods() if m.name == name]
        if not fn:
            raise SystemExit("gen_punt_sites: SyncManager.%s not found" % name)
        out = []
        for t in self.tries(fn[0]):
            for h in t.handlers:
                out.append(self.clause(h))
        return out

    def sync_called_plain(self):
        """True iff `_sync_one_entry` calls self.sync(...) and never passes want_raise"""
        fn = [m for m in self.methods() if m.name == "_sync_one_entry"][0]
        seen = False
        for n in ast.walk(fn):
            if isinstance(n, ast.Call) and isinstance(n.func, ast.Attribute) and n.func.attr == "sync":
                seen = True
                if len(n.args) > 1 or any(k.arg == "want_raise" for k in n.keywords):
                    return False
        return seen

    def sites(self):
        out = []
        for m in self.methods():
            for ti, t in enumerate(self.tries(m)):
                for ci, h in enumerate(t.handlers):
                    f = self.facts(h)
                    out.append("⟨%s, %d, %d, %s, %s, %s, %s, %s, %s, %s, %s, %s⟩" % (
                        lean_str(m.name), ti, ci, lean_list([lean_str(x) for x in self.class_names(h)]),
                        lean_bool(f["punt"]), lean_bool(f["finished"]), lean_bool(f["backoff"]), lean_bool(f["split"]),
                        lean_bool(f["reraise"]), lean_list([lean_str(x) for x in f["raises"]]),
                        lean_list([lean_str(x) for x in f["returns"]]), lean_list([lean_str(x) for x in f["response"]])))
        return out


PRIO_FUNCS = [("SyncState", "_change_path", "prioChangePath"), ("SyncState", "_change_oid", "prioChangeOid"),
              ("SyncState", "update", "prioUpdate"), ("SyncState", "update_entry", "prioUpdateEntry"),
              ("SyncState", "_update_kids", "prioUpdateKids"), ("SyncState", "_update_kids_of", "prioUpdateKidsOf"),
              ("SyncState", "unconditionally_get_latest", "prioGetLatest"), ("SyncState", "split", "prioSplit"),
              ("SyncEntry", "__setitem__", "prioSetItem"), ("SyncEntry", "punt", "prioPunt"),
              ("SyncState", "finished", "prioFinished")]


def prio_items(repo):
    """for the functions of state.py through which a path (hence the application's class) or a priority changes: in source
    order, every `return`, every call of `prioritize(`, of `_update_kids` / `_update_kids_of` / `_change_path`, every write
    of a `.path` / `.priority` attribute, each with the chain of guards (`if` tests, loop headers) it sits under"""
    with open(os.path.join(repo, "cloudsync/sync/state.py"), encoding="utf8") as f:
        tree = ast.parse(f.read())
    classes = {n.name: n for n in tree.body if isinstance(n, ast.ClassDef)}
    out = {}
    for cname, fname, lname in PRIO_FUNCS:
        fn = None
        for ch in classes.get(cname, ast.Module(body=[], type_ignores=[])).body:
            if isinstance(ch, ast.FunctionDef) and ch.name == fname:
                fn = ch
        items = []
        if fn is None:
            items.append(("missing", []))
            out[lname] = items
            continue

        def calls(node, guards):
            for n in ast.walk(node):
                if isinstance(n, ast.Call) and isinstance(n.func, ast.Attribute) and \
                        n.func.attr in ("prioritize", "_update_kids", "_update_kids_of", "_change_path", "punt"):
                    items.append((n.func.attr, list(guards)))

        def visit(stmts, guards):
            for st in stmts:
                if isinstance(st, ast.Return):
                    items.append(("return", list(guards)))
                elif isinstance(st, (ast.Continue, ast.Break)):
                    items.append(("continue" if isinstance(st, ast.Continue) else "break", list(guards)))
                elif isinstance(st, ast.If):
                    calls(st.test, guards)
                    t = ast.unparse(st.test)
                    visit(st.body, guards + [t])
                    visit(st.orelse, guards + ["not (%s)" % t])
                elif isinstance(st, (ast.For, ast.While)):
                    hdr = "for %s in %s" % (ast.unparse(st.target), ast.unparse(st.iter)) if isinstance(st, ast.For) \
                        else "while %s" % ast.unparse(st.test)
                    visit(st.body, guards + [hdr])
                    visit(st.orelse, guards)
                elif isinstance(st, ast.Try):
                    visit(st.body, guards + ["try"])
                    for h in st.handlers:
                        visit(h.body, guards + ["except"])
                    visit(st.finalbody, guards + ["finally"])
                elif isinstance(st, ast.With):
                    visit(st.body, guards)
                elif isinstance(st, (ast.FunctionDef, ast.ClassDef)):
                    continue
                else:
                    if isinstance(st, (ast.Assign, ast.AugAssign)):
                        tgts = st.targets if isinstance(st, ast.Assign) else [st.target]
                        for tg in tgts:
                            if isinstance(tg, ast.Attribute) and tg.attr in ("path", "_path", "priority", "_priority"):
                                items.append(("write:" + tg.attr, list(guards)))
                    calls(st, guards)
        visit(fn.body, [])
        out[lname] = items
    return out


def generate(repo=None):
    e = Extract(repo or REPO)
    prio = prio_items(repo or REPO)
    one, do, sync = e.funnel("_sync_one_entry"), e.funnel("do"), e.funnel("sync")
    sites = e.sites()
    src = ["import Csverif.Model.SchedSites",
           "/- GENERATED by tools/gen_punt_sites.py from the source tree on every run of the C17 check — do not edit.",
           "   Props/C17Sites.lean compares it with the audited tables of Model/SchedSites.lean (kernel, `decide`).",
           "   unmapped: %s -/" % (", ".join(e.unmapped) or "none"),
           "namespace CS.Gen.PuntSites", "open CS.Faults CS.SchedSites",
           "def syncOneEntry : List Clause := " + lean_list(one),
           "def doClauses : List Clause := " + lean_list(do),
           "def syncClauses : List Clause := " + lean_list(sync),
           "def syncCalledPlain : Bool := " + lean_bool(e.sync_called_plain()),
           "def sites : List SchedSites.Site := [\n  " + ",\n  ".join(sites) + "]",
           "def unmapped : Nat := %d" % len(e.unmapped)] + [
           "def %s : List PrioItem := [\n  %s]" % (lname, ",\n  ".join(
               "⟨%s, %s⟩" % (lean_str(k), lean_list([lean_str(g) for g in gs])) for k, gs in prio[lname]))
           for _c, _f, lname in PRIO_FUNCS] + [
           "end CS.Gen.PuntSites", ""]
    return "\n".join(src), e.unmapped


def write(repo=None):
    src, unmapped = generate(repo)
    old = None
    if os.path.exists(OUT):
        with open(OUT, encoding="utf8") as f:
            old = f.read()
    if old != src:
        with open(OUT, "w", encoding="utf8") as f:
            f.write(src)
    return old != src, unmapped


if __name__ == "__main__":
    if "--print" in sys.argv:
        print(generate()[0])
    else:
        changed, unm = write()
        print("Gen/PuntSites.lean %s; unmapped: %s" % ("rewritten" if changed else "unchanged", unm or "none"))
