"""C04 (object family) mutation experiments.  Applies named mutations of the engine code that C04's object family is about
(cloudsync/sync/manager.py `_handle_dir_delete_not_empty` / `delete_synced` / `handle_rename` / `handle_cloud_file_not_found_error`,
cloudsync/sync/state.py `_update_kids`) to a PRIVATE copy of the repo (env C04_MUT_REPO, default /tmp/build/C04_repo; created from
/repo if missing; never /repo itself) and runs the check against it.

    /venv/bin/python tools/c04_mutate.py list
    /venv/bin/python tools/c04_mutate.py check [name ...]        # ./check C04 --tier quick per mutation (VERIF_REPO=<copy>)
    /venv/bin/python tools/c04_mutate.py plan  [name ...]        # only the object family's plan, judged by the Python mirror (fast)
    /venv/bin/python tools/c04_mutate.py apply <name>            # leave the copy mutated (then: VERIF_REPO=<copy> ./check C04)
    /venv/bin/python tools/c04_mutate.py reset
"""
import os
import shutil
import subprocess
import sys

HERE = os.path.dirname(os.path.dirname(os.path.abspath(__file__)))
REPO = os.environ.get("C04_MUT_REPO", "/tmp/build/C04_repo")
SRC = "/repo"
MUTS = {
 "M1_kids_sync_path_from_new_path": ("cloudsync/sync/state.py",
    "sync_rel = provider.is_subpath(prior_path, sub[side].sync_path)", "sync_rel = provider.is_subpath(path, sub[side].sync_path)"),
 "M2_notempty_skip_known_children": ("cloudsync/sync/manager.py",
    "                for ent in self.providers[synced].listdir(sync[synced].oid):\n                    remaining.append(ent.path or ent.oid)",
    "                for ent in self.providers[synced].listdir(sync[synced].oid):\n                    if self.state.lookup_oid(synced, ent.oid):\n                        continue\n                    remaining.append(ent.path or ent.oid)"),
 "M3_notempty_give_up_at_once": ("cloudsync/sync/manager.py", "                    if sync.priority < 10:\n                        log.warning(\"Children %s exist", "                    if sync.priority < 0:\n                        log.warning(\"Children %s exist"),
 "M4_delete_exists_error_ignored": ("cloudsync/sync/manager.py", "            except ex.CloudFileExistsError:\n                return self._handle_dir_delete_not_empty(sync, changed, synced)", "            except ex.CloudFileExistsError:\n                pass"),
 "M5_rename_keeps_old_changed_sync_path": ("cloudsync/sync/manager.py", "        sync[synced].sync_path = translated_path\n        sync[changed].sync_path = sync[changed].path\n        self.update_entry(sync, synced, path=translated_path, oid=new_oid)", "        sync[synced].sync_path = translated_path\n        self.update_entry(sync, synced, path=translated_path, oid=new_oid)"),
 "M6_fnf_parent_from_sync_path": ("cloudsync/sync/manager.py", "parent = self.providers[changed].dirname(sync[changed].path)", "parent = self.providers[changed].dirname(sync[changed].sync_path or sync[changed].path)"),
 "M7_kids_sync_path_not_rebased": ("cloudsync/sync/state.py", "                if sub[side].sync_path:\n                    sync_rel =", "                if False and sub[side].sync_path:\n                    sync_rel ="),
 "M8_kids_needs_sync_ignored": ("cloudsync/sync/manager.py", "                if kid.needs_sync():\n                    all_synced = False\n                    break", "                if False and kid.needs_sync():\n                    all_synced = False\n                    break"),
 "M9_notempty_no_force_sync_of_kids": ("cloudsync/sync/manager.py", "            kid[changed].set_force_sync()\n", "            pass\n"),
 "M10_rename_synced_sync_path_not_set": ("cloudsync/sync/manager.py", "        sync[synced].sync_path = translated_path\n        sync[changed].sync_path = sync[changed].path\n        self.update_entry(sync, synced, path=translated_path, oid=new_oid)", "        sync[changed].sync_path = sync[changed].path\n        self.update_entry(sync, synced, path=translated_path, oid=new_oid)"),
 "M11_kids_sync_path_lexicographic": ("cloudsync/sync/state.py", "                    if sync_rel:\n                        new_sync_path = provider.join(path, sync_rel)", "                    if sync_rel and path > prior_path:\n                        new_sync_path = provider.join(path, sync_rel)"),
 "M12_delete_pending_rename_check_dropped": ("cloudsync/sync/manager.py", "                    if ent.is_rename(synced):", "                    if False and ent.is_rename(synced):"),
 "M14_kids_skip_children_with_pending_change": ("cloudsync/sync/state.py",
    "                    # the folder itself moved beneath its own prior path: it is not its own child\n                    continue\n",
    "                    # the folder itself moved beneath its own prior path: it is not its own child\n                    continue\n                if sub[side].changed:\n                    continue\n"),
 "M15_rename_fnf_punts_without_parent_handling": ("cloudsync/sync/manager.py",
    "            return self.handle_cloud_file_not_found_error(changed, sync, synced)\n        except ex.CloudFileNameError as e:\n            self.handle_file_name_error(sync, synced, translated_path)\n            return FINISHED\n        except ex.CloudFileExistsError:\n            log.warning(\"can't rename, file exists\")",
    "            return FINISHED\n        except ex.CloudFileNameError as e:\n            self.handle_file_name_error(sync, synced, translated_path)\n            return FINISHED\n        except ex.CloudFileExistsError:\n            log.warning(\"can't rename, file exists\")"),
 "M16_notempty_drops_after_first_punt": ("cloudsync/sync/manager.py",
    "                if remaining:\n                    if sync.priority < 10:", "                if remaining and False:\n                    if sync.priority < 10:"),
 "M13_fnf_never_marks_parent_missing": ("cloudsync/sync/manager.py", "                        parent_ent[synced].exists = MISSING\n", "                        pass\n"),
}


def ensure():
    if not os.path.isdir(REPO):
        shutil.copytree(SRC, REPO)


def reset():
    subprocess.run(["git", "-C", REPO, "checkout", "-q", "."], check=True)


def apply(name):
    ensure()
    reset()
    f, a, b = MUTS[name]
    p = os.path.join(REPO, f)
    s = open(p).read()
    assert s.count(a) == 1, (name, s.count(a))
    open(p, "w").write(s.replace(a, b))


if __name__ == "__main__":
    mode = sys.argv[1] if len(sys.argv) > 1 else "list"
    names = sys.argv[2:] or list(MUTS)
    if mode == "list":
        for n, (f, a, b) in MUTS.items():
            print(n, "::", f)
    elif mode == "reset":
        ensure()
        reset()
    elif mode == "apply":
        apply(names[0])
        print("applied", names[0], "to", REPO)
    else:
        env = dict(os.environ, VERIF_REPO=REPO)
        for n in names:
            apply(n)
            if mode == "plan":
                p = subprocess.run(["/venv/bin/python", "harness/c04_objects.py", "--calibrate-plan", "quick", os.environ.get("VERIF_SEED", "0")],
                                   env=env, capture_output=True, text=True, cwd=HERE)
                bad = sorted({ln for ln in p.stdout.split("\n") if "reject" in ln or "noquiet" in ln})
                print("==", n, "CAUGHT" if bad else "missed", bad[:8], p.stderr[-300:])
            else:
                p = subprocess.run(["./check", "C04", "--tier", "quick"], env=env, capture_output=True, text=True, cwd=HERE)
                print("==", n, "exit", p.returncode, [ln for ln in p.stdout.split("\n") if ln.startswith("VIOLATION") or ln.startswith("HARNESS")][:5])
            sys.stdout.flush()
        reset()
