#!/venv/bin/python
"""C12 write-site table.  An `ast` pass over the engine modules of the repo under test (VERIF_REPO, default /repo):
every call `<receiver>.<m>(...)` with m a mutating provider method name
    create, upload, rename, delete, mkdir, mkdirs, rmtree
in cloudsync/sync/manager.py, cloudsync/smartsync.py, cloudsync/sync/state.py, cloudsync/cs.py is listed with
  * the enclosing function (qualified),
  * the receiver class: P = a provider (`self.providers[...]`, `self.provider`, any expression mentioning "provider"),
                        S = the storage backend (expression mentioning "storage"),
                        O = the os / shutil modules (local temp files of the engine),
                        X = anything else (unknown receiver: must be audited by hand),
  * the receiver text and the syntactic form of its target arguments (oid / path positional arguments, `ast.unparse`).
References to such a method that are not the callee of a call (`f = prov.delete`, `getattr(x, "delete")`, `getattr(<provider>,
<computed name>)`) are listed as method 'ref:<name>' so that an indirect write site cannot slip by.  Line numbers are deliberately not part of the table
(harmless edits elsewhere must not break the theorem); sites are listed in source order.
Value flow of the path-valued targets (receiver class V): every assignment to a variable named `translated_path` or
`conflict_path` with its right-hand side ('assign:<name>'), and every argument passed for a parameter of that name
('pass:<callee>:<name>'), so that a write site fed from another source than `self.translate(...)` / `join(folder, conflict_name)`
changes the table.

The table is written to lean/Csverif/Gen/WriteSites.lean (only when its text changes, to keep lake's cache valid);
Props/C12Sites.lean proves `writeSites = auditedSites` by `decide`.  A new, removed or changed write site breaks it."""
import ast
import os
import sys

HERE = os.path.dirname(os.path.abspath(__file__))
VERIF = os.path.dirname(HERE)
REPO = os.environ.get("VERIF_REPO", "/repo")
FILES = ["cloudsync/sync/manager.py", "cloudsync/smartsync.py", "cloudsync/sync/state.py", "cloudsync/cs.py"]
METHODS = ("create", "upload", "rename", "delete", "mkdir", "mkdirs", "rmtree")
TRACKED = ("translated_path", "conflict_path")
NARGS = {"create": 1, "upload": 1, "rename": 2, "delete": 1, "mkdir": 1, "mkdirs": 1, "rmtree": 1}
OUT = os.path.join(VERIF, "lean", "Csverif", "Gen", "WriteSites.lean")


def recv_class(text):
    low = text.lower()
    if "provider" in low or low in ("prov", "p"):
        return "P"
    if "storage" in low:
        return "S"
    if text in ("os", "shutil", "os.path"):
        return "O"
    return "X"


def sites_of(rel):
    path = os.path.join(REPO, rel)
    tree = ast.parse(open(path, encoding="utf8").read())
    out = []

    def walk(node, qual):
        for ch in ast.iter_child_nodes(node):
            if isinstance(ch, (ast.FunctionDef, ast.AsyncFunctionDef, ast.ClassDef)):
                walk(ch, (qual + "." if qual else "") + ch.name)
            else:
                visit(ch, qual)
                walk(ch, qual)

    callee_ids = set()

    def visit(node, qual):
        if isinstance(node, ast.Call):
            f = node.func
            if isinstance(f, ast.Attribute) and f.attr in METHODS:
                callee_ids.add(id(f))
                recv = ast.unparse(f.value)
                args = [ast.unparse(a) for a in node.args[:NARGS[f.attr]]]
                for kw in node.keywords:
                    if kw.arg in ("path", "oid", "new_path", "source_oid", "destination_path"):
                        args.append("%s=%s" % (kw.arg, ast.unparse(kw.value)))
                out.append((node.lineno, node.col_offset, rel.split("/")[-1], qual or "<module>", f.attr, recv_class(recv), recv, args))
            elif isinstance(f, ast.Name) and f.id == "getattr" and len(node.args) >= 2:
                a1 = node.args[1]
                name = a1.value if isinstance(a1, ast.Constant) and isinstance(a1.value, str) else None
                recv = ast.unparse(node.args[0])
                # a computed attribute name matters only on a provider receiver; a constant one only if it names a mutator
                if (name is None and recv_class(recv) == "P") or (name is not None and name in METHODS):
                    out.append((node.lineno, node.col_offset, rel.split("/")[-1], qual or "<module>", "ref:getattr:%s" % (name or "?"),
                                recv_class(recv), recv, [ast.unparse(a1)]))
        elif isinstance(node, ast.Attribute) and node.attr in METHODS and id(node) not in callee_ids:
            recv = ast.unparse(node.value)
            out.append((node.lineno, node.col_offset, rel.split("/")[-1], qual or "<module>", "ref:" + node.attr, recv_class(recv), recv, []))

    # provenance of the path-valued targets: every assignment to a tracked name, and every argument passed for a parameter of
    # that name (receiver class V = a value flow, not a call on a provider)
    params = {}
    for node in ast.walk(tree):
        if isinstance(node, (ast.FunctionDef, ast.AsyncFunctionDef)):
            names = [a.arg for a in node.args.args]
            for tn in TRACKED:
                if tn in names:
                    params.setdefault(node.name, []).append((tn, names.index(tn) - (1 if names and names[0] == "self" else 0)))

    def visit_flow(node, qual):
        if isinstance(node, ast.Assign):
            for tg in node.targets:
                tgs = tg.elts if isinstance(tg, ast.Tuple) else [tg]
                for t1 in tgs:
                    if isinstance(t1, ast.Name) and t1.id in TRACKED:
                        out.append((node.lineno, node.col_offset, rel.split("/")[-1], qual or "<module>", "assign:" + t1.id, "V", "",
                                    [ast.unparse(node.value)]))
        elif isinstance(node, ast.Call):
            f = node.func
            callee = f.attr if isinstance(f, ast.Attribute) else f.id if isinstance(f, ast.Name) else None
            for (tn, idx) in params.get(callee, []):
                val = None
                if 0 <= idx < len(node.args):
                    val = ast.unparse(node.args[idx])
                for kw in node.keywords:
                    if kw.arg == tn:
                        val = ast.unparse(kw.value)
                if val is not None:
                    out.append((node.lineno, node.col_offset, rel.split("/")[-1], qual or "<module>", "pass:%s:%s" % (callee, tn), "V", "", [val]))

    def walk2(node, qual):
        for ch in ast.iter_child_nodes(node):
            if isinstance(ch, (ast.FunctionDef, ast.AsyncFunctionDef, ast.ClassDef)):
                walk2(ch, (qual + "." if qual else "") + ch.name)
            else:
                visit_flow(ch, qual)
                walk2(ch, qual)

    walk(tree, "")
    n_sites = len(out)
    walk2(tree, "")
    # keep only the value flow that can reach a provider write: a `pass` row is kept if its callee writes the parameter to a
    # provider or passes it on to a callee that does (fixpoint)
    writers = {row[3].split(".")[-1] for row in out[:n_sites] if row[5] == "P" and any(a in TRACKED for a in row[7])}
    flows = out[n_sites:]
    changed = True
    while changed:
        changed = False
        for row in flows:
            if row[4].startswith("pass:"):
                callee = row[4].split(":")[1]
                caller = row[3].split(".")[-1]
                if callee in writers and caller not in writers and caller in params and row[7] and row[7][0] in TRACKED:
                    writers.add(caller)
                    changed = True
    out[:] = out[:n_sites] + [row for row in flows if not row[4].startswith("pass:") or row[4].split(":")[1] in writers]
    # a Call is visited before its func Attribute (parents first), so callee_ids is filled in time; sort by position
    out.sort(key=lambda t: (t[0], t[1]))
    return [t[2:] for t in out]


def all_sites():
    res = []
    for rel in FILES:
        try:
            res.extend(sites_of(rel))
        except (OSError, SyntaxError) as e:
            res.append((rel.split("/")[-1], "<unparsable>", "ref:?", "X", type(e).__name__, []))
    return res


def lean_str(s):
    return '"' + s.replace("\\", "\\\\").replace('"', '\\"').replace("\n", "\\n") + '"'


def render(sites):
    lines = ["import Csverif.Model.Spec.Confine",
             "/- GENERATED by tools/gen_write_sites.py from the repo under test -- do not edit.",
             "   One row per call of a mutating provider-method name in manager.py, smartsync.py, state.py, cs.py:",
             "   (file, enclosing function, method, receiver class P/S/O/X, receiver, target argument forms).",
             "   `CS.Spec.WriteSite` is declared in Model/Spec/Confine.lean; Props/C12Sites.lean proves this table equal to the",
             "   audited list of Props/C12.lean. -/",
             "namespace CS.Gen",
             "open CS.Spec",
             "",
             "def writeSites : List WriteSite := ["]
    rows = []
    for (f, q, m, rc, recv, args) in sites:
        rows.append("  ⟨%s, %s, %s, %s, %s, [%s]⟩" % (lean_str(f), lean_str(q), lean_str(m), lean_str(rc), lean_str(recv),
                                                      ", ".join(lean_str(a) for a in args)))
    lines.append(",\n".join(rows))
    lines += ["]", "", "end CS.Gen", ""]
    return "\n".join(lines)


def generate(write=True):
    sites = all_sites()
    text = render(sites)
    changed = False
    if write:
        old = open(OUT, encoding="utf8").read() if os.path.exists(OUT) else None
        if old != text:
            os.makedirs(os.path.dirname(OUT), exist_ok=True)
            tmp = OUT + ".tmp%d" % os.getpid()
            with open(tmp, "w", encoding="utf8") as f:
                f.write(text)
            os.replace(tmp, OUT)
            changed = True
    return sites, changed


if __name__ == "__main__":
    s, ch = generate(write="--dry" not in sys.argv)
    for row in s:
        print(row)
    print("%d sites; file %s" % (len(s), "rewritten" if ch else "unchanged"))
