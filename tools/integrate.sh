#!/bin/sh
# usage: tools/integrate.sh <ID> <base-commit>   — merges a delivered layer from /tmp/build/<ID> into /verif
# copies new/changed files of the layer and 3-way merges the two shared Lean files.
id="$1"; base="$2"; src=/tmp/build/$id; cd /verif || exit 2
n=$(echo "$id" | tr 'C' 'c')
# everything the layer created under lean/Csverif, harness, tools, obligations, claims (never overwrite files that exist in /verif
# unless identical in base, i.e. the agent changed them)
(cd "$src" && find lean/Csverif lean/obligations harness tools -type f ! -path '*/.lake/*' ! -name '*.pyc' ! -path '*__pycache__*') | while read -r f; do
  if [ ! -e "$f" ]; then mkdir -p "$(dirname "$f")"; cp "$src/$f" "$f"; echo "new   $f";
  elif ! cmp -s "$src/$f" "$f"; then
    if git cat-file -e "$base:$f" 2>/dev/null; then
      git show "$base:$f" > /tmp/int_base.$$
      if cmp -s /tmp/int_base.$$ "$src/$f"; then :; # agent did not touch it
      else cp "$f" /tmp/int_cur.$$; if git merge-file -q /tmp/int_cur.$$ /tmp/int_base.$$ "$src/$f"; then cp /tmp/int_cur.$$ "$f"; echo "merge $f"; else echo "CONFLICT $f (left as is; agent version at $src/$f)"; fi; fi
    else echo "DIFFERS (no base) $f"; fi
  fi
done
for f in lean/Main.lean lean/Csverif.lean; do
  git show "$base:$f" > /tmp/int_base.$$; cp "$f" /tmp/int_cur.$$
  if cmp -s /tmp/int_base.$$ "$src/$f"; then continue; fi
  if git merge-file -q /tmp/int_cur.$$ /tmp/int_base.$$ "$src/$f"; then cp /tmp/int_cur.$$ "$f"; echo "merge $f"; else
    # union merge for import lists / match cases
    cp "$f" /tmp/int_cur.$$; git merge-file -q --union /tmp/int_cur.$$ /tmp/int_base.$$ "$src/$f"; cp /tmp/int_cur.$$ "$f"; echo "union-merge $f (check it)"; fi
done
mkdir -p docs/delivery; cp "$src/DELIVERY_$id.md" docs/delivery/ 2>/dev/null
rm -f /tmp/int_base.$$ /tmp/int_cur.$$
