import Csverif.Driver.Path
import Csverif.Driver.Storage
import Csverif.Driver.Runnable
import Csverif.Driver.Monitor
import Csverif.Driver.Sched
import Csverif.Driver.HCache
import Csverif.Driver.HDict
import Csverif.Driver.State
import Csverif.Driver.MockFS
import Csverif.Driver.MonC10
import Csverif.Driver.MonC15
import Csverif.Driver.MonC05
import Csverif.Driver.Codec
import Csverif.Driver.MonC07
import Csverif.Driver.MonC12
import Csverif.Driver.MonC14
import Csverif.Driver.MonC06
import Csverif.Driver.MonC20
import Csverif.Driver.Engine
import Csverif.Driver.MonC04
/- Driver: `driver <layer>` reads one operation per line on stdin and prints one canonical
   line per operation.  It executes the very definitions the theorems are about. -/
open CS

partial def loopStateless (h : IO.FS.Stream) (out : IO.FS.Stream) (f : List String → String) : IO Unit := do
  let line ← h.getLine
  if line.isEmpty then return ()
  out.putStrLn (f (Wire.tokens line))
  loopStateless h out f

partial def loopState {σ : Type} (h : IO.FS.Stream) (out : IO.FS.Stream) (s : σ)
    (f : σ → List String → σ × String) : IO Unit := do
  let line ← h.getLine
  if line.isEmpty then return ()
  let (s', o) := f s (Wire.tokens line)
  out.putStrLn o
  loopState h out s' f

def main (args : List String) : IO UInt32 := do
  let stdin ← IO.getStdin
  let stdout ← IO.getStdout
  match args with
  | ["path"] => loopStateless stdin stdout Driver.Path.step; stdout.flush; return 0
  | ["sqlite"] => loopState stdin stdout ([] : Storage.Sqlite.Table String) Driver.Storage.stepSqliteR; stdout.flush; return 0
  | ["sqliteconn"] => loopState stdin stdout Driver.Storage.connInit Driver.Storage.stepConn; stdout.flush; return 0
  | ["mockstorage"] => loopState stdin stdout ({ rows := [], cursor := 0 } : Storage.Mock.St String) Driver.Storage.stepMock; stdout.flush; return 0
  | ["runseq"] => loopStateless stdin stdout Driver.Runnable.stepRunSeq; stdout.flush; return 0
  | ["notify"] => loopStateless stdin stdout Driver.Runnable.stepNotify; stdout.flush; return 0
  | ["proto"] => loopState stdin stdout Driver.Runnable.pInit Driver.Runnable.stepProto; stdout.flush; return 0
  | ["threads"] => loopState stdin stdout Driver.RunnableTh.tInit Driver.RunnableTh.stepThreads; stdout.flush; return 0
  | ["monitor"] => loopStateless stdin stdout Driver.Monitor.step; stdout.flush; return 0
  | ["sched"] => loopState stdin stdout ({} : Driver.Sched.DSt) Driver.Sched.step; stdout.flush; return 0
  | ["hcache"] => loopState stdin stdout Driver.HCache.St.init Driver.HCache.step; stdout.flush; return 0
  | ["dict"] => loopState stdin stdout Driver.HDict.St.init Driver.HDict.step; stdout.flush; return 0
  | ["state"] => loopState stdin stdout ({} : Driver.State.DSt) Driver.State.step; stdout.flush; return 0
  | ["mockfs"] => loopState stdin stdout Driver.MockFS.dInit Driver.MockFS.step; stdout.flush; return 0
  | ["tree"] => loopState stdin stdout Driver.MockFS.tInit Driver.MockFS.stepTree; stdout.flush; return 0
  | ["fshash"] => loopState stdin stdout (FsHash.CacheEnt.fresh : Driver.MockFS.HSt) Driver.MockFS.stepHash; stdout.flush; return 0
  | ["fscursor"] => loopState stdin stdout ({ cursor := 0, latest := 0 } : FsCursor.St) Driver.MockFS.stepFsCursor; stdout.flush; return 0
  | ["connect"] => loopState stdin stdout (Conn.init : Driver.MockFS.CSt) Driver.MockFS.stepConn; stdout.flush; return 0
  | ["c10"] => loopStateless stdin stdout Driver.MonC10.step; stdout.flush; return 0
  | ["lockmon"] => loopStateless stdin stdout Driver.MonC15.step; stdout.flush; return 0
  | ["resolver"] => loopStateless stdin stdout Driver.MonC05.stepTie; stdout.flush; return 0
  | ["monc05"] => loopStateless stdin stdout Driver.MonC05.stepMon; stdout.flush; return 0
  | ["codec"] => loopStateless stdin stdout Driver.Codec.stepCodec; stdout.flush; return 0
  | ["persist"] => loopState stdin stdout Driver.Codec.initPersist Driver.Codec.stepPersist; stdout.flush; return 0
  | ["monc07"] => loopStateless stdin stdout Driver.MonC07.step; stdout.flush; return 0
  | ["monc12"] => loopStateless stdin stdout Driver.MonC12.step; stdout.flush; return 0
  | ["monc14"] => loopStateless stdin stdout Driver.MonC14.step; stdout.flush; return 0
  | ["event"] => loopState stdin stdout Driver.MonC06.eventInit Driver.MonC06.stepEvent; stdout.flush; return 0
  | ["monc06"] => loopStateless stdin stdout Driver.MonC06.stepMon; stdout.flush; return 0
  | ["durable"] => loopStateless stdin stdout Driver.MonC06.stepDurable; stdout.flush; return 0
  | ["monc20"] => loopStateless stdin stdout Driver.MonC20.step; stdout.flush; return 0
  | ["monc04"] => loopStateless stdin stdout Driver.MonC04.step; stdout.flush; return 0
  | ["engine"] => loopStateless stdin stdout Driver.Engine.step; stdout.flush; return 0
  | ["reach"] => IO.println (toString Runnable.reachableCodes); return 0
  | _ => IO.eprintln "usage: driver <layer>"; return 2
