import Csverif.Driver.Path
import Csverif.Driver.Storage
import Csverif.Driver.Runnable
import Csverif.Driver.Monitor
import Csverif.Driver.Sched
import Csverif.Driver.HCache
/- Driver: `driver <layer>` reads one operation per line on stdin and prints one canonical
   line per operation.  It executes the very definitions the theorems are about. -/
open CS

partial def loopStateless (h : IO.FS.Stream) (out : IO.FS.Stream) (f : List String → String) : IO Unit := do
  let line ← h.getLine
  if line.isEmpty then return ()
  out.putStrLn (f (Wire.tokens line))
  loopStateless h out f

partial def loopState {σ : Type} (h : IO.FS.Stream) (out : IO.FS.Stream) (s : σ)
    (f : σ → List String → σ × String) : IO Unit := do
  let line ← h.getLine
  if line.isEmpty then return ()
  let (s', o) := f s (Wire.tokens line)
  out.putStrLn o
  loopState h out s' f

def main (args : List String) : IO UInt32 := do
  let stdin ← IO.getStdin
  let stdout ← IO.getStdout
  match args with
  | ["path"] => loopStateless stdin stdout Driver.Path.step; stdout.flush; return 0
  | ["sqlite"] => loopState stdin stdout ([] : Storage.Sqlite.Table String) Driver.Storage.stepSqliteR; stdout.flush; return 0
  | ["mockstorage"] => loopState stdin stdout ({ rows := [], cursor := 0 } : Storage.Mock.St String) Driver.Storage.stepMock; stdout.flush; return 0
  | ["runseq"] => loopStateless stdin stdout Driver.Runnable.stepRunSeq; stdout.flush; return 0
  | ["notify"] => loopStateless stdin stdout Driver.Runnable.stepNotify; stdout.flush; return 0
  | ["proto"] => loopState stdin stdout Driver.Runnable.pInit Driver.Runnable.stepProto; stdout.flush; return 0
  | ["monitor"] => loopStateless stdin stdout Driver.Monitor.step; stdout.flush; return 0
  | ["sched"] => loopState stdin stdout ({} : Driver.Sched.DSt) Driver.Sched.step; stdout.flush; return 0
  | ["hcache"] => loopState stdin stdout Driver.HCache.St.init Driver.HCache.step; stdout.flush; return 0
  | ["reach"] => IO.println (toString Runnable.reachableCodes); return 0
  | _ => IO.eprintln "usage: driver <layer>"; return 2
