import Csverif.Model.Path
