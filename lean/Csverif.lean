import Csverif.Model.Path
import Csverif.Model.Storage
import Csverif.Props.C09
