import Csverif.Model.Path
import Csverif.Model.Storage
import Csverif.Props.C09
import Csverif.Props.C13
import Csverif.Props.C18
