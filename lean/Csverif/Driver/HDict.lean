import Csverif.Model.HDict
import Csverif.Driver.HCache
/- Line protocol, dictionary specification of the hierarchical cache (`driver dict`).
   `reset <cs:T|F> <rootoid>`; operations as in the `hcache` layer.
   Output: `<ok|!ValueError|!AssertionError> # <entries>` where an entry is `k1/k2/…:<F|D>:<oid|~>` (keys as
   encStr, the root has the key `^`), effective entries only, order unspecified. -/
namespace CS.Driver.HDict
open CS.HCache CS.HDict CS.Path CS.Wire

structure St where
  c : Cfg
  d : D

def St.init : St := { c := mkCfg true false, d := CS.HDict.init 9 }

def encKey (k : Key) : String :=
  match k with
  | [] => "^"
  | _ => "/".intercalate (k.map encStr)

def encEnt (e : Key × CS.HDict.Ent) : String :=
  s!"{encKey e.1}:{CS.Driver.HCache.encType e.2.1}:{CS.Driver.HCache.encOid e.2.2}"

def dump (d : D) : String :=
  " ".intercalate ((d.filter (fun e => decide (dlook d e.1 = some e.2))).map encEnt)

def encRes : SRes → String
  | .ok => "ok"
  | .valueError => "!ValueError"
  | .assertionError => "!AssertionError"

def step (st : St) (toks : List String) : St × String :=
  match toks with
  | ["reset", cs, r] =>
    match decBool cs, r.toNat? with
    | some cs, some r => ({ c := mkCfg cs false, d := CS.HDict.init r }, "ok")
    | _, _ => (st, "bad-reset")
  | _ =>
    match CS.Driver.HCache.parseOp toks with
    | none => (st, "bad-op")
    | some op =>
      let (d', r) := specStep st.c st.d op
      ({ st with d := d' }, s!"{encRes r} # {dump d'}")

end CS.Driver.HDict
