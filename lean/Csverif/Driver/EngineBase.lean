import Csverif.Model.Engine
import Csverif.Driver.Wire
/- codecs shared by the ops of driver layer `engine` (see Driver/Engine.lean for the wire format) -/
namespace CS.Driver.EngineBase
open CS.Engine CS.Wire
open CS.Hints (Ex OT Ign)

def decRel : Char → Option Rel
  | 'n' => some .nn | 'c' => some .cn | 's' => some .ns | 'e' => some .eq | 'd' => some .ne | _ => none

def encRel : Rel → Char
  | .nn => 'n' | .cn => 'c' | .ns => 's' | .eq => 'e' | .ne => 'd'

def decEx : Char → Option Ex
  | 'u' => some .unknown | 'e' => some .present | 't' => some .trashed | 'm' => some .missing
  | 'l' => some .likely | 'c' => some .corrupt | _ => none

def encEx : Ex → Char
  | .unknown => 'u' | .present => 'e' | .trashed => 't' | .missing => 'm' | .likely => 'l' | .corrupt => 'c'

def decB : Char → Option Bool
  | 'T' => some true | 'F' => some false | _ => none

def encB (b : Bool) : Char := if b then 'T' else 'F'

def decOT : Char → Option OT
  | 'f' => some .file | 'd' => some .dir | 'n' => some .notknown | _ => none

def encOT : OT → Char
  | .file => 'f' | .dir => 'd' | .notknown => 'n'

def decIgn : String → Option Ign
  | "n" => some .no | "d" => some .discarded | "c" => some .conflict | "t" => some .tempRename | "i" => some .irrelevant
  | _ => none

def encIgn : Ign → String
  | .no => "n" | .discarded => "d" | .conflict => "c" | .tempRename => "t" | .irrelevant => "i"

def decSide (t : String) : Option Side :=
  match t.toList with
  | [a, b, c, d, e, f, g, h] => do
    let saved ← if e == '-' then some none else (decEx e).map some
    pure { oid := ← decB a, p := ← decRel b, h := ← decRel c, ex := ← decEx d, saved := saved,
           otype := ← decOT f, changed := ← decB g, force := ← decB h }
  | _ => none

def encSide (s : Side) : String :=
  String.ofList [encB s.oid, encRel s.p, encRel s.h, encEx s.ex,
    (match s.saved with | none => '-' | some x => encEx x), encOT s.otype, encB s.changed, encB s.force]

def decSd : String → Option Sd
  | "L" => some .loc | "R" => some .rem | _ => none

def sdc : Sd → String
  | .loc => "L" | .rem => "R"

def decTr : Char → Option TrAns
  | 'n' => some .none | 'p' => some .path | 's' => some .sync | 'a' => some .alt | 'l' => some .lt | 'g' => some .gt
  | _ => none

def decDel : Char → Option DelRes
  | 'o' => some .ok | 'f' => some .fnf | 'e' => some .notEmpty | 't' => some .temp | _ => none

def decDl : Char → Option DlRes
  | 'o' => some .ok | 'f' => some .fail | 'm' => some .failMissing | 'c' => some .corrupt | 't' => some .temp | _ => none

def decUp : Char → Option UpRes
  | 'o' => some .ok | 'f' => some .fail | 'm' => some .failMissing | 'n' => some .nameErr | 'c' => some .corrupt
  | 't' => some .temp | _ => none

def decMk : Char → Option MkRes
  | 'o' => some .ok | 'p' => some .punt | 'x' => some .none_ | 'n' => some .nameErr | 't' => some .temp | _ => none

def decCr : Char → Option CrRes
  | 'o' => some .ok | 'p' => some .punt | 'n' => some .nameErr | 'c' => some .corrupt | 'y' => some .tooMany
  | 't' => some .temp | _ => none

def decRen : Char → Option RenRes
  | 'o' => some .ok | 'f' => some .fnf | 'n' => some .nameErr | 'e' => some .exists_ | 't' => some .temp | _ => none

def decRev : Char → Option RevInfo
  | 'n' => some .none | 'x' => some .noPath | 'p' => some .path | _ => none

def decOracle (t : String) (pc : String) : Option Oracle :=
  match t.toList with
  | [a1, a2, b1, b2, b3, c1, c2, c3, d1, d2, d3, e1, e2, f1, f2, g1, g2, g3, h1, h2, h3, h4, h5, i1, i2, j1, j2, k1, k2] => do
    pure { trL := ← decTr a1, trR := ← decTr a2, inRoot := ← decB b1, nameConfl := ← decB b2, parentConfl := ← decB b3,
           pcPrio := ← pc.toInt?,
           rdc := ← decB c1, delCreate := ← decB c2, delRename := ← decB c3, del := ← decDel d1,
           kidsNeedSync := ← decB d2, remaining := ← decB d3, dl := ← decDl e1, up := ← decUp e2,
           childConfl := ← decB f1, disjoint := ← decB f2, mkd := ← decMk g1, cr := ← decCr g2, ren := ← decRen g3,
           rcEnt := ← decB h1, rcNeedsSync := ← decB h2, rcDelExists := ← decB h3, fixFnf := ← decB h4, hcTemp := ← decB h5,
           revOtherL := ← decB i1, revOtherR := ← decB i2, revInfoL := ← decRev j1, revInfoR := ← decRev j2,
           revTrL := ← decB k1, revTrR := ← decB k2 }
  | _ => none

def encExc : Exc → String
  | .assertion => "!assertion" | .typeError => "!typeError" | .temp => "!temp" | .tooMany => "!tooMany" | .corrupt => "!corrupt"

def encOut : Out → String
  | .ret .finished => "F" | .ret .punt => "P" | .ret .requeue => "R" | .ret .none_ => "N"
  | .raised x => encExc x

def encEff : Eff → String
  | .hashConflict => "hc" | .split => "split" | .fin s => "fin" ++ sdc s | .punt => "punt"
  | .notifyCorrupt s => "nc" ++ sdc s | .notifyDiscarded s => "nd" ++ sdc s
  | .getLatest => "gl" | .getLatestForce => "glf" | .reprioritise => "reprio"
  | .delete s => "del" ++ sdc s | .listdir s => "ls" ++ sdc s | .forceKids s => "fk" ++ sdc s
  | .download s => "dl" ++ sdc s | .upload s => "up" ++ sdc s | .create s => "cr" ++ sdc s | .mkdir s => "mk" ++ sdc s
  | .rename s => "rn" ++ sdc s | .checkDisjoint => "cd" | .fnfHandler => "fnf" | .nameError s => "ne" ++ sdc s
  | .deleteOther s => "do" ++ sdc s | .conflictRename s => "cf" ++ sdc s

def encEffs (fx : List Eff) : String :=
  match fx with
  | [] => "-"
  | _ => ",".intercalate (fx.map encEff)

def encEntry (e : Entry) : String :=
  let ord := if e.l.changed && e.r.changed then e.lLeR else true
  s!"{encSide e.l} {encSide e.r} {encB ord} {encIgn e.ign} {e.prio}"

def line (out : String) (fx : List Eff) (e : Entry) : String := s!"{out} | {encEffs fx} | {encEntry e}"

def encRes (r : Res) : String := line (encOut r.out) r.effs r.ent

def bools (bs : List Bool) : String := String.ofList (bs.map encB)

end CS.Driver.EngineBase
