import Csverif.Model.State
import Csverif.Driver.Wire
/- Line protocol, sync-state layer (C11).  One operation per line in; out: `<status> <result> | <full dump>`.
   Strings use the Wire encoding; entries are named by creation order.  See harness/c11_state.py `op_line`. -/
namespace CS.Driver.State
open CS.State CS.Wire

structure DSt where
  cfg : Cfg := mkCfg false false true true 0 0
  fuel : Nat := 150
  st : St := {}

def decSd (t : String) : Option Sd := if t == "0" then some .L else if t == "1" then some .R else none
def decOptNat (t : String) : Option (Option Nat) := if t == "~" then some none else t.toNat?.map some
def decInt (t : String) : Option Int := t.toInt?
def decChg (t : String) : Option Chg :=
  if t == "~" then some .none else if t == "F" then some .fls else (t.toInt?).map .num
def decOptInt (t : String) : Option (Option Int) := if t == "~" then some none else (t.toInt?).map some
def decIgn (t : String) : Option Ign :=
  match t with
  | "n" => some .none | "d" => some .discarded | "c" => some .conflict | "t" => some .tempRename | "i" => some .irrelevant
  | _ => none
def decOT (t : String) : Option OType :=
  match t with | "d" => some .dir | "f" => some .file | "n" => some .notknown | _ => none
def decOptOT (t : String) : Option (Option OType) := if t == "~" then some none else (decOT t).map some
def decEx (t : String) : Option Ex :=
  match t with
  | "u" => some .unknown | "e" => some .exists_ | "t" => some .trashed | "m" => some .missing | "l" => some .likely
  | "c" => some .corrupt | _ => none
def decExVal (t : String) : Option ExVal :=
  match t with
  | "T" => some (.bool true) | "F" => some (.bool false) | "~" => some .none
  | _ => (decEx t).map .enum

def encIgn : Ign → String
  | .none => "n" | .discarded => "d" | .conflict => "c" | .tempRename => "t" | .irrelevant => "i"
def encOT : OType → String | .dir => "d" | .file => "f" | .notknown => "n"
def encEx : Ex → String
  | .unknown => "u" | .exists_ => "e" | .trashed => "t" | .missing => "m" | .likely => "l" | .corrupt => "c"
def encChg : Chg → String | .none => "~" | .fls => "F" | .num n => toString n
def encOptNat : Option Nat → String | none => "~" | some n => toString n

def decUArgs (oid path h ex ch ot size mtime acc : String) : Option UArgs := do
  let oid ← decOptStr oid
  let path ← decOptStr path
  let h ← decOptNat h
  let ex ← decExVal ex
  let ch ← decOptInt ch
  let ot ← decOptOT ot
  let size ← decOptNat size
  let mtime ← decOptNat mtime
  let acc ← decBool acc
  pure { oid := oid, path := path, hash := h, exists_ := ex, changed := ch, otype := ot, size := size, mtime := mtime, accurate := acc }

def parseOp (toks : List String) : Option Op :=
  match toks with
  | ["T", ms] => ms.toNat?.map .tick
  | ["P", e, s, v] => do some (.setSide (← e.toNat?) (← decSd s) (.path (← decOptStr v)))
  | ["O", e, s, v] => do some (.setSide (← e.toNat?) (← decSd s) (.oid (← decOptStr v)))
  | ["C", e, s, v] => do some (.setSide (← e.toNat?) (← decSd s) (.changed (← decChg v)))
  | ["X", e, s, v] => do some (.setSide (← e.toNat?) (← decSd s) (.exists_ (← decExVal v)))
  | ["H", e, s, v] => do some (.setSide (← e.toNat?) (← decSd s) (.hash (← decOptNat v)))
  | ["SH", e, s, v] => do some (.setSide (← e.toNat?) (← decSd s) (.syncHash (← decOptNat v)))
  | ["SP", e, s, v] => do some (.setSide (← e.toNat?) (← decSd s) (.syncPath (← decOptStr v)))
  | ["OT", e, s, v] => do some (.setSide (← e.toNat?) (← decSd s) (.otype (← decOT v)))
  | ["SZ", e, s, v] => do some (.setSide (← e.toNat?) (← decSd s) (.size (← decOptNat v)))
  | ["MT", e, s, v] => do some (.setSide (← e.toNat?) (← decSd s) (.mtime (← decOptNat v)))
  | ["I", e, v] => do some (.setIgnored (← e.toNat?) (← decIgn v))
  | ["R", e, v] => do some (.setPriority (← e.toNat?) (← decInt v))
  | ["PU", e] => do some (.punt (← e.toNat?))
  | ["UI", e, v] => do some (.unignore (← e.toNat?) (← decIgn v))
  | ["U", s, ot, oid, path, h, ex, prior, size, mtime, acc] => do
    let a ← decUArgs oid path h ex "~" "~" size mtime acc
    some (.update (← decSd s) (← decOT ot) a (← decOptStr prior))
  | ["UE", e, s, oid, path, h, ex, ch, ot, size, mtime, acc] => do
    some (.updateEntry (← e.toNat?) (← decSd s) (← decUArgs oid path h ex ch ot size mtime acc))
  | ["SPL", e] => do some (.split (← e.toNat?))
  | ["SI", d, s, src, ss] => do some (.setItem (← d.toNat?) (← decSd s) (← src.toNat?) (← decSd ss))
  | ["FG", s, k] => do some (.forget (← decSd s) (← decOptStr k))
  | ["CL", e, s] => do some (.clear (← e.toNat?) (← decSd s))
  | ["MK", e, s] => do some (.mark (← e.toNat?) (← decSd s))
  | ["CM"] => some .commit
  | ["RL"] => some .reload
  | _ => none

def commaList (l : List String) : String := if l.isEmpty then "-" else ",".intercalate l

def encSide (x : Side) : String :=
  " ".intercalate [encOT x.otype, encOptNat x.hash, encChg x.changed, encOptNat x.syncHash, encOptStr x.syncPath,
    encOptStr x.path, encOptStr x.oid, encEx x.exists_, (match x.savedExists with | none => "~" | some v => encEx v),
    encOptNat x.size, encOptNat x.mtime, toString x.lastGotten]

def encSlots (b : List (Oid × Nat)) : String := commaList (b.map (fun (k, i) => s!"{encOptStr k}:{i}"))

def dump (st : St) : String :=
  let hdr := s!"n={st.ents.length} {st.now} {st.last}"
  let o := [Sd.L, Sd.R].map (fun s => (if s = .L then "O0 " else "O1 ") ++ encSlots (st.oids s))
  let p := [Sd.L, Sd.R].map (fun s => (if s = .L then "P0 " else "P1 ") ++
    (if (st.paths s).isEmpty then "-" else ";".intercalate ((st.paths s).map (fun (k, b) => s!"{encOptStr k}={encSlots b}"))))
  let sets := ["CS " ++ commaList (st.cs.map toString), "D " ++ commaList (st.dirty.map toString),
    "GA " ++ commaList ((st.getAll false).map toString)]
  let es := (List.range st.ents.length).map (fun i =>
    let e := st.ent i
    s!"E{i} {encIgn e.ignored} {e.priority} / {encSide e.l} / {encSide e.r}")
  " | ".intercalate ([hdr] ++ o ++ p ++ sets ++ es)

def encExc : Exc → String
  | .assert => "Assert" | .key => "Key" | .value => "Value" | .recursion => "Recursion" | .badref => "BadRef"

def query (d : DSt) (toks : List String) : Option String :=
  match toks with
  | ["K", s, p] => do
    let s ← decSd s
    let p ← decStr p
    some (commaList ((d.st.getKids d.cfg s p).map (fun (i, r) => s!"{i}:{encStr r}")))
  | ["LP", s, p, stale] => do
    some (commaList ((d.st.lookupPath (← decSd s) (← decOptStr p) (← decBool stale)).map toString))
  | ["LO", s, k] => do
    some (match d.st.lookupOid (← decSd s) (← decOptStr k) with | none => "~" | some i => toString i)
  | _ => none

def step (d : DSt) (toks : List String) : DSt × String :=
  match toks with
  | ["reset", a, b, c, e, pm, im] =>
    match decBool a, decBool b, decBool c, decBool e, pm.toNat?, im.toNat? with
    | some a, some b, some c, some e, some pm, some im =>
      let d' : DSt := { cfg := mkCfg a b c e pm im, fuel := d.fuel, st := {} }
      (d', "ok - | " ++ dump d'.st)
    | _, _, _, _, _, _ => (d, "bad-op")
  | ["fuel", n] => match n.toNat? with
    | some n => ({ d with fuel := n }, "ok")
    | none => (d, "bad-op")
  | _ =>
    match query d toks with
    | some r => (d, s!"ok {r} | " ++ dump d.st)
    | none =>
      match parseOp toks with
      | none => (d, "bad-op")
      | some op =>
        match CS.State.step d.cfg d.fuel op d.st with
        | (.ok _, st') => ({ d with st := st' }, "ok - | " ++ dump st')
        | (.error e, st') => ({ d with st := st' }, encExc e ++ " - | " ++ dump st')

end CS.Driver.State
