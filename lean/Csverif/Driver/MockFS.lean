import Csverif.Model.MockFS
import Csverif.Model.FsHash
import Csverif.Driver.Wire
/- Line protocol, provider layers (C16).

   layer `mockfs` (the model of providers/mock.py):
     reset <oip> <cs> <filter_events> <oidless_folder_trash_events> | create P T N | mkdir P | upload O T N | download O | rename O P | delete O
     | infop P | infoo O | existsp P | existso O | listdir O | hasho O | hashd T N | events | latest
     | current | setcur <n|~|x> | dump   (n = Python value + 1, ~ = None, x = not an int)
   layer `tree` (the reference tree, path-style ids):
     reset <cs> <nameFirst> <forbidBacktick> | create P T N | mkdir P | upload P T N | download P | rename P P
     | delete P | infop P | infoo P | existsp P | existso P | listdir P | hasho P | hashd T N
   layer `fshash`:  fast <hex> | data <hex> | dataold <hex> | path <mtime> <hex> | clear
   layer `connect`: reset | connect <id|~|!> | disconnect | reconnect
   layer `fscursor`: reset | recv N | setcur <n|~|x> | drain | current | latest   (FileSystemProvider cursors, plain ints)
   P, O are `encStr` strings; contents are a token number T and a size N. -/
namespace CS.Driver.MockFS
open CS.Wire
open CS.Tree (Kind Err)

abbrev Cont := Nat × Nat      -- (token, size)

def hc : CS.MockFS.HashCfg Cont Nat := { hashOf := fun x => x.1, sizeOf := fun x => x.2 }

def encKind : Kind → String
  | .file => "F"
  | .dir => "D"

def encErr : Err → String
  | .notFound => "!NotFound"
  | .exists => "!Exists"
  | .name => "!Name"
  | .other => "!Other"

def encHash : Option Nat → String
  | none => "~"
  | some t => s!"h{t}"

def encInfo (i : CS.MockFS.Info Nat) (sepr : String) : String :=
  sepr.intercalate [encKind i.kind, encStr i.oid, encHash i.hash, encStr i.path, toString i.size, encStr i.name]

def encEvent (e : CS.MockFS.Event) : String :=
  ",".intercalate [encKind e.kind, encOptStr e.oid, encOptStr e.path, encBool e.live, encOptStr e.prior, toString e.cursor]

def encRes : CS.MockFS.Res Cont Nat → String
  | .info i => "info " ++ encInfo i " "
  | .none => "none"
  | .oid o => "oid " ++ encStr o
  | .unit => "unit"
  | .data c => s!"data {c.1}"
  | .bool b => encBool b
  | .list l => " ".intercalate ("list" :: l.map (fun i => encInfo i ","))
  | .hash h => "hash " ++ encHash h
  | .events l => " ".intercalate ("events" :: l.map encEvent)
  | .cur n => s!"cur {n}"
  | .cursorErr => "!Cursor"
  | .err e => encErr e

structure DSt where
  c  : CS.Path.Cfg
  fl : CS.MockFS.Flavour
  s  : CS.MockFS.St Cont

def mkFlavour (oip : Bool) (filt : Bool := false) (oidless : Bool := false) : CS.MockFS.Flavour :=
  { oip := oip, filterEvents := filt, oidlessTrash := oidless, forbidden := ['`'] }

def dInit : DSt :=
  let c := CS.Path.mkCfg true false
  let fl := mkFlavour false
  { c := c, fl := fl, s := CS.MockFS.init c fl }

def decCont (t n : String) : Option Cont := do
  let a ← t.toNat?
  let b ← n.toNat?
  pure (a, b)

def parseOp (toks : List String) : Option (CS.MockFS.Op Cont) :=
  match toks with
  | ["create", p, t, n] => do let p ← decStr p; let d ← decCont t n; pure (.create p d)
  | ["mkdir", p] => (decStr p).map .mkdir
  | ["upload", o, t, n] => do let o ← decStr o; let d ← decCont t n; pure (.upload o d)
  | ["download", o] => (decStr o).map .download
  | ["rename", o, p] => do let o ← decStr o; let p ← decStr p; pure (.rename o p)
  | ["delete", o] => (decStr o).map .delete
  | ["infop", p] => (decStr p).map .infoPath
  | ["infoo", o] => (decStr o).map .infoOid
  | ["existsp", p] => (decStr p).map .existsPath
  | ["existso", o] => (decStr o).map .existsOid
  | ["listdir", o] => (decStr o).map .listdir
  | ["hasho", o] => (decStr o).map .hashOid
  | ["hashd", t, n] => (decCont t n).map .hashData
  | ["events"] => some .events
  | ["latest"] => some .latestCursor
  | ["current"] => some .currentCursor
  | ["setcur", v] =>
    if v == "~" then some (.setCursor .none)
    else if v == "x" then some (.setCursor .other)
    else v.toNat?.map (fun n => .setCursor (.int n))
  | _ => none

def encDump (s : CS.MockFS.St Cont) : String :=
  " ".intercalate ("dump" :: s.dict.map (fun (k, h) =>
    match s.heap[h]? with
    | none => encStr k ++ ",?"
    | some o => ",".intercalate [encStr k, encStr o.oid, encStr o.path, encBool o.live, encKind o.kind,
        match o.contents with | some x => toString x.1 | none => "~"]))

def step (d : DSt) (toks : List String) : DSt × String :=
  match toks with
  | ["reset", oip, cs, filt, oidless] =>
    match decBool oip, decBool cs, decBool filt, decBool oidless with
    | some oip, some cs, some filt, some oidless =>
      let c := CS.Path.mkCfg cs false
      let fl := mkFlavour oip filt oidless
      ({ c := c, fl := fl, s := CS.MockFS.init c fl }, "unit")
    | _, _, _, _ => (d, "bad-arg")
  | ["dump"] => (d, encDump d.s)
  | _ =>
    match parseOp toks with
    | none => (d, "bad-op")
    | some op =>
      let (s', r) := CS.MockFS.step d.c d.fl hc d.s op
      ({ d with s := s' }, encRes r)

/-! ### reference tree layer -/

def splitPath (s : Str) : CS.Tree.Path :=
  ((String.ofList s).splitOn "/").filterMap (fun p => if p.isEmpty then none else some p.toList)

def pathStr (p : CS.Tree.Path) : Str := '/' :: ("/".intercalate (p.map String.ofList)).toList

structure TSt where
  cfg : CS.Tree.Cfg
  t   : CS.Tree.T Cont

def mkTreeCfg (cs nameFirst forbid : Bool) : CS.Tree.Cfg :=
  { cs := cs, lower := CS.Path.simpleLower, nameFirst := nameFirst,
    badName := fun n => (forbid && n.contains '`') || n.length > 255 }

def tInit : TSt := { cfg := mkTreeCfg true false false, t := CS.Tree.init }

def encTInfo (i : CS.Tree.Info Cont) (sepr : String) : String :=
  sepr.intercalate [encKind i.kind, encStr (pathStr i.path), encHash (i.content.map (·.1)), encStr (pathStr i.path),
    toString (match i.content with | some x => x.2 | none => 0), encStr i.name]

def encTRes : CS.Tree.Res Cont → String
  | .info i => "info " ++ encTInfo i " "
  | .none => "none"
  | .path p => "oid " ++ encStr (pathStr p)
  | .unit => "unit"
  | .data c => s!"data {c.1}"
  | .bool b => encBool b
  | .list l => " ".intercalate ("list" :: l.map (fun i => encTInfo i ","))
  | .err e => encErr e

def decTarget (t : String) : Option (Option CS.Tree.Path) :=
  if t == "~" then some none else (decStr t).map (fun s => some (splitPath s))

def parseTOp (toks : List String) : Option (CS.Tree.Op Cont) :=
  match toks with
  | ["create", p, t, n] => do let p ← decStr p; let d ← decCont t n; pure (.create (splitPath p) d)
  | ["mkdir", p] => (decStr p).map (fun p => .mkdir (splitPath p))
  | ["upload", o, t, n] => do let o ← decTarget o; let d ← decCont t n; pure (.upload o d)
  | ["download", o] => (decTarget o).map .download
  | ["rename", o, p] => do let o ← decTarget o; let p ← decStr p; pure (.rename o (splitPath p))
  | ["delete", o] => (decTarget o).map .delete
  | ["infop", p] => (decStr p).map (fun p => .infoPath (splitPath p))
  | ["infoo", o] => (decTarget o).map .infoOid
  | ["existsp", p] => (decStr p).map (fun p => .existsPath (splitPath p))
  | ["existso", o] => (decTarget o).map .existsOid
  | ["listdir", o] => (decTarget o).map .listdir
  | _ => none

def stepTree (d : TSt) (toks : List String) : TSt × String :=
  match toks with
  | ["reset", cs, nf, fb] =>
    match decBool cs, decBool nf, decBool fb with
    | some cs, some nf, some fb => ({ cfg := mkTreeCfg cs nf fb, t := CS.Tree.init }, "unit")
    | _, _, _ => (d, "bad-arg")
  | ["hasho", o] =>                 -- hash_oid: the hash field of info_oid, `~` when there is no such file
    match decTarget o with
    | none => (d, "bad-arg")
    | some tg =>
      match (CS.Tree.step d.cfg d.t (.infoOid tg)).2 with
      | .info i => (d, "hash " ++ encHash (i.content.map (·.1)))
      | _ => (d, "hash ~")
  | ["hashd", t, _] => (d, "hash " ++ encHash (t.toNat?))
  | _ =>
    match parseTOp toks with
    | none => (d, "bad-op")
    | some op =>
      let (t', r) := CS.Tree.step d.cfg d.t op
      ({ d with t := t' }, encTRes r)

/-! ### filesystem hash layer: the digest is left symbolic — the driver prints the byte string the
    digest is applied to, the harness applies blake2b to it -/

def hexVal (ch : Char) : Nat :=
  if '0' ≤ ch ∧ ch ≤ '9' then ch.toNat - 48 else if 'a' ≤ ch ∧ ch ≤ 'f' then ch.toNat - 87 else 0

def decHex : List Char → List Nat
  | a :: b :: rest => (hexVal a * 16 + hexVal b) :: decHex rest
  | _ => []

def hexDigit (n : Nat) : Char := if n < 10 then Char.ofNat (48 + n) else Char.ofNat (87 + n)

def encHex (bs : List Nat) : String :=
  if bs.isEmpty then "-" else String.ofList (bs.flatMap (fun b => [hexDigit (b / 16), hexDigit (b % 16)]))

def decBytes (t : String) : List Nat := if t == "-" then [] else decHex t.toList

abbrev HSt := CS.FsHash.CacheEnt (List Nat)

def stepHash (ci : HSt) (toks : List String) : HSt × String :=
  match toks with
  | ["fast", x] => let r := CS.FsHash.fastHashData id (decBytes x); (ci, encHex r.1 ++ " " ++ encBool r.2)
  | ["data", x] => (ci, encHex (CS.FsHash.hashData id (decBytes x)))
  | ["dataold", x] => (ci, encHex (CS.FsHash.hashDataOld id (decBytes x)))
  | ["path", m, x] =>
    match m.toNat? with
    | none => (ci, "bad-arg")
    | some m => let r := CS.FsHash.fastHashPath id ci m (decBytes x); (r.1, encHex r.2)
  | ["clear"] => (CS.FsHash.CacheEnt.fresh, "unit")
  | _ => (ci, "bad-op")

/-! ### connect layer: credentials are the identity they log in as (`~` = None creds, `!` = creds
    that `connect_impl` rejects) -/

abbrev CSt := CS.Conn.St String

def connImpl : Option String → Option String
  | none => none                 -- MockProvider.connect_impl: `if not creds: raise CloudTokenError`
  | some "!" => none
  | some i => some i

def encConn (s : CSt) (r : CS.Conn.Res) : String :=
  (match r with | .ok => "ok" | .tokenError => "!Token") ++ " " ++ encBool (CS.Conn.isConnected s) ++ " " ++
    (match s.connId with | none => "~" | some i => if i == "" then "-" else i)

def stepConn (s : CSt) (toks : List String) : CSt × String :=
  match toks with
  | ["reset"] => (CS.Conn.init, "unit")
  | ["connect", c] =>
    let cr : Option String := if c == "~" then none else if c == "-" then some "" else some c
    let (s', r) := CS.Conn.step connImpl s (.connect cr); (s', encConn s' r)
  | ["disconnect"] => let (s', r) := CS.Conn.step connImpl s .disconnect; (s', encConn s' r)
  | ["reconnect"] => let (s', r) := CS.Conn.step connImpl s .reconnect; (s', encConn s' r)
  | _ => (s, "bad-op")

/-! ### FileSystemProvider cursor layer -/

def stepFsCursor (s : CS.FsCursor.St) (toks : List String) : CS.FsCursor.St × String :=
  match toks with
  | ["reset"] => ({ cursor := 0, latest := 0 }, "unit")
  | ["recv", n] => (match n.toNat? with | some k => (CS.FsCursor.receive s k, "unit") | none => (s, "bad-arg"))
  | ["setcur", v] =>
    let val : Option CS.FsCursor.Val :=
      if v == "~" then some .none else if v == "x" then some .other else v.toNat?.map .int
    match val with
    | none => (s, "bad-arg")
    | some val =>
      let (s', r) := CS.FsCursor.setCursor s val
      (s', match r with | .ok => "unit" | .cursorErr => "!Cursor")
  | ["drain"] =>
    let (s', l) := CS.FsCursor.drain s
    (s', " ".intercalate ("drain" :: l.map toString))
  | ["current"] => (s, s!"cur {s.cursor}")
  | ["latest"] => (s, s!"cur {s.latest}")
  | _ => (s, "bad-op")

end CS.Driver.MockFS
