import Csverif.Model.Lock
import Csverif.Driver.Wire
/- Line protocol `lockmon` (C15): one recorded trace window per line, starting and ending with the lock free.
   token `<tid>:<act>` in global (real-time) order; act = `A` acquire (recorded after the lock was obtained),
   `R` release (recorded before it is given up), `r<loc>` read access, `w<loc>` write access, `o` other.
   The window is turned into a program (thread t's code = its tokens in order) and a schedule (the tids in order) and
   executed by the very definitions of Model/Lock.lean:
     * `run` must succeed — the recorded interleaving is a legal interleaving of the model's re-entrant lock
       (nobody acquired while another thread held it, no release by a non-owner);
     * `firstBad` (= `Disciplined`, Props/C15 `okFrom_iff_firstBad`) per thread: an access outside the lock.
   Answers:  ok | ok-writes unlocked-read tid=<t> nth=<i> | reject unlocked-write tid=<t> nth=<i> |
             reject illegal-schedule index=<i> | bad-arg -/
namespace CS.Driver.MonC15
open CS.Lock

def decAct (s : String) : Option Act :=
  if s == "A" then some .acquire
  else if s == "R" then some .release
  else if s == "o" then some .other
  else if s.startsWith "r" then (s.drop 1).toString.toNat?.map (fun l => Act.read l)
  else if s.startsWith "w" then (s.drop 1).toString.toNat?.map (fun l => Act.write l (fun _ => 0))
  else none

def decTok (t : String) : Option (Tid × Act) :=
  match t.splitOn ":" with
  | [a, b] => do pure (← a.toNat?, ← decAct b)
  | _ => none

def codeOf (evs : List (Tid × Act)) (t : Tid) : List Act :=
  (evs.filter (fun e => e.1 == t)).map (·.2)

def tids (evs : List (Tid × Act)) : List Tid := (evs.map (·.1)).eraseDups

/-- program of the window: a finite table, everything else has no code -/
def progOf (evs : List (Tid × Act)) : Prog :=
  let table := (tids evs).map (fun t => (t, codeOf evs t))
  fun t => match table.find? (fun r => r.1 == t) with
    | some r => r.2
    | none => []

/-- index of the first scheduled step that is not enabled -/
def firstStuck : State → Nat → List Tid → Option Nat
  | _, _, [] => none
  | s, i, t :: rest => match step s t with
    | none => some i
    | some s1 => firstStuck s1 (i + 1) rest

def readsAsOther : List Act → List Act
  | [] => []
  | .read _ :: rest => .other :: readsAsOther rest
  | a :: rest => a :: readsAsOther rest

def step (toks : List String) : String :=
  match toks.mapM decTok with
  | none => "bad-arg"
  | some evs =>
    let p := progOf evs
    let sched := evs.map (·.1)
    match firstStuck (init p (fun _ => 0)) 0 sched with
    | some i => s!"reject illegal-schedule index={i}"
    | none =>
      let ts := tids evs
      match ts.findSome? (fun t => (firstBad 0 0 (readsAsOther (p t))).map (fun i => (t, i))) with
      | some (t, i) => s!"reject unlocked-write tid={t} nth={i}"
      | none =>
        match ts.findSome? (fun t => (firstBad 0 0 (p t)).map (fun i => (t, i))) with
        | some (t, i) => s!"ok-writes unlocked-read tid={t} nth={i}"
        | none => "ok"

end CS.Driver.MonC15
