import Csverif.Model.Spec.Sync
import Csverif.Driver.Wire
/- Line protocol `monitor`: one property obligation per line, sections separated by `|`.
   path token: components (each `encStr`) joined by ','; the empty path is "@".
   tree entry: `<path>=D` or `<path>=F<tag>`.   ops: `C:<path>:<tag>` `W:<path>:<tag>` `M:<path>` `D:<path>` `R:<src>:<dst>`.
   ledger events: `W:<tag>:<killed|~>` `D:<killed|~>` `X:<tag>`. -/
namespace CS.Driver.Monitor
open CS.Spec CS.Wire

def decPath (t : String) : Option RPath :=
  if t == "@" then some [] else (t.splitOn ",").mapM (fun c => (decStr c).map String.ofList)

def encPath (p : RPath) : String :=
  if p.isEmpty then "@" else ",".intercalate (p.map (fun c => encStr c.toList))

def decEntry (t : String) : Option (RPath × Node) :=
  match t.splitOn "=" with
  | [p, v] => do
    let path ← decPath p
    if v == "D" then pure (path, .dir)
    else if v.startsWith "F" then (v.drop 1).toString.toNat?.map (fun n => (path, .file n))
    else none
  | _ => none

def decTree (ts : List String) : Option Tree := ts.mapM decEntry

def decOp (t : String) : Option UOp :=
  match t.splitOn ":" with
  | ["C", p, g] => do pure (.create (← decPath p) (← g.toNat?))
  | ["W", p, g] => do pure (.write (← decPath p) (← g.toNat?))
  | ["M", p] => do pure (.mkdir (← decPath p))
  | ["D", p] => do pure (.delete (← decPath p))
  | ["R", s, d] => do pure (.rename (← decPath s) (← decPath d))
  | _ => none

def decOptNat (t : String) : Option (Option Nat) := if t == "~" then some none else t.toNat?.map some

def decLEv (t : String) : Option LEv :=
  match t.splitOn ":" with
  | ["W", g, k] => do pure (.write (← g.toNat?) (← decOptNat k))
  | ["D", k] => do pure (.delete (← decOptNat k))
  | ["X", g] => do pure (.discard (← g.toNat?))
  | _ => none

/-- split a token list into sections at "|" -/
def sections (toks : List String) : List (List String) :=
  let rec go (cur : List String) (acc : List (List String)) : List String → List (List String)
    | [] => (cur.reverse :: acc).reverse
    | t :: ts => if t == "|" then go [] (cur.reverse :: acc) ts else go (t :: cur) acc ts
  go [] [] toks

def firstDiff (a b : Tree) : String :=
  match a.find? (fun e => b.get e.1 != some e.2) with
  | some e => encPath e.1
  | none => match b.find? (fun e => a.get e.1 != some e.2) with
    | some e => encPath e.1
    | none => "?"

def step (toks : List String) : String :=
  match sections toks with
  | [["c01"], l, r] =>
    match decTree l, decTree r with
    | some l, some r => if converged l r then "ok" else s!"reject differ {firstDiff l.core r.core}"
    | _, _ => "bad-arg"
  | [["c03"], ob, oa, ma, [n1, n2]] =>
    match decTree ob, decTree oa, decTree ma, n1.toNat?, n2.toNat? with
    | some ob, some oa, some ma, some n1, some n2 =>
      if oneSidedOk ob oa ma n1 n2 then "ok"
      else if !(ob.sameAs oa) then s!"reject origin-changed {firstDiff ob oa}"
      else if !(ma.sameAs oa) then s!"reject mirror-differs {firstDiff ma oa}"
      else if n1 != 0 then "reject engine-wrote-origin"
      else if n2 != 0 then "reject echo-writes-after-quiet"
      else "reject conflicted-artefact"
    | _, _, _, _, _ => "bad-arg"
  | [["c04"], base, opsL, opsR, l, r] =>
    match decTree base, opsL.mapM decOp, opsR.mapM decOp, decTree l, decTree r with
    | some base, some opsL, some opsR, some l, some r =>
      if !disjointSeqs opsL opsR then "not-disjoint"
      else if mergeOk base opsL opsR l r then "ok"
      else
        let e := mergeExpected base opsL opsR
        if !(l.sameAs e) then s!"reject left-differs {firstDiff l e}" else s!"reject right-differs {firstDiff r e}"
    | _, _, _, _, _ => "bad-arg"
  | [["c02"], evs, l, r] =>
    match evs.mapM decLEv, decTree l, decTree r with
    | some evs, some l, some r =>
      if noLoss evs l r then "ok"
      else match (live evs).find? (fun t => !(l.tags.contains t || r.tags.contains t)) with
        | some t => s!"reject lost {t}"
        | none => "reject lost ?"
    | _, _, _ => "bad-arg"
  | [["c12"], [root], targets] =>
    match decPath root, targets.mapM decPath with
    | some root, some ts =>
      match ts.find? (fun t => !confined root t) with
      | none => "ok"
      | some t => s!"reject outside-root {encPath t}"
    | _, _ => "bad-arg"
  | [["c12o"], before, after] =>
    match decTree before, decTree after with
    | some b, some a => if outsideUntouched b a then "ok" else s!"reject outside-changed {firstDiff b a}"
    | _, _ => "bad-arg"
  | _ => "bad-op"

end CS.Driver.Monitor
