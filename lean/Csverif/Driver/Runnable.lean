import Csverif.Model.Runnable
import Csverif.Model.RunnableThreads
import Csverif.Driver.Wire
/- Line protocol for the runnable layers.
   runseq:  `<mn> <mx> <mult> <sleep> <b0> <o1> <o2> …`  rationals as `n/d`; outcomes S N B E X
            → `<final> | <sleep1> <sleep2> …` as `n/d`
   proto :  stateful; `reset` | `L` | `Lt` | `A` | `C stop <f> <w>` | `C wake` | `C start` | `C wait`
            → observable summary after settling joins
   notify:  `<raises-mask> <k> <q1> <q2> …` queue entries `n<id>` or `~` (stop marker)  → delivered ids -/
namespace CS.Driver.Runnable
open CS.Runnable CS.Wire

def parseRat (t : String) : Option Rat :=
  match t.splitOn "/" with
  | [n, d] => do
    let neg := n.startsWith "-"
    let nn ← (if neg then (n.drop 1).toString else n).toNat?
    let dd ← d.toNat?
    if dd == 0 then none else
    let q : Rat := (nn : Rat) / (dd : Rat)
    pure (if neg then -q else q)
  | _ => none

def encRat (q : Rat) : String := s!"{q.num}/{q.den}"

def parseOutcome : String → Option Outcome
  | "S" => some .success | "N" => some .noop | "B" => some .backoffReq | "E" => some .exc | "X" => some .baseExc | "F" => some .noopThenFail
  | _ => none

def stepRunSeq (toks : List String) : String :=
  match toks with
  | mn :: mx :: mult :: sleep :: b0 :: outs =>
    match parseRat mn, parseRat mx, parseRat mult, parseRat sleep, parseRat b0, outs.mapM parseOutcome with
    | some mn, some mx, some mult, some sleep, some b0, some os =>
      let (bf, ss) := runSeq ⟨mn, mx, mult⟩ sleep b0 os
      encRat bf ++ " | " ++ " ".intercalate (ss.map encRat)
    | _, _, _, _, _, _ => "bad-arg"
  | _ => "bad-op"

/-- protocol state plus observable counters maintained by the driver -/
structure PObs where
  s        : St
  nDo      : Nat
  nDone    : Nat
  refused  : Nat
  started  : Nat

def pInit : PObs := { s := init, nDo := 0, nDone := 0, refused := 0, started := 0 }

def isHookL (l : LPc) : Bool := l == .rDo || l == .slp || l == .dead || l == .none

/-- one model step with counters -/
def obsStep (o : PObs) (a : Act) : PObs :=
  match step o.s a with
  | none => o
  | some t =>
    let nDo := if o.s.lpc == .rDo && t.lpc != .rDo then o.nDo + 1 else o.nDo
    let nDone := if o.s.lpc == .f4 && o.s.shutdown then o.nDone + 1 else o.nDone
    let refused := match o.s.cpc, t.cpc with
      | .start1, .idle => o.refused + 1
      | .start3, .idle => o.refused + 1
      | _, _ => o.refused
    let started := if o.s.cpc == .start5 then o.started + 1 else o.started
    { s := t, nDo, nDone, refused, started }

/-- loop thread runs from its current hook to the next one (do / sleep / death) -/
def loopToHook (o : PObs) (timeout : Bool) : PObs :=
  let first := obsStep o (.loop timeout)
  if first.s == o.s then o else
  let rec go (fuel : Nat) (o : PObs) : PObs :=
    match fuel with
    | 0 => o
    | k+1 => if isHookL o.s.lpc then o else go k (obsStep o (.loop false))
  go 20 first

def isHookC (c : CPc) : Bool :=
  match c with
  | .idle | .stop3 _ _ | .stop4 _ true | .wake1 | .wait1 => true
  | _ => false

/-- application thread runs to its next hook: the call to wake(), a join, or the end of the call -/
def appToHook (o : PObs) : PObs :=
  let first := obsStep o .app
  if first.s == o.s then o else
  let rec go (fuel : Nat) (o : PObs) : PObs :=
    match fuel with
    | 0 => o
    | k+1 => if isHookC o.s.cpc then o else
      let n := obsStep o .app
      if n.s == o.s then o else go k n
  go 20 first

/-- real threads run to their next hook by themselves: a freshly started loop thread runs up to its first
    `do()`, and joins complete as soon as the loop thread is dead -/
def settle (o : PObs) : PObs :=
  let rec goL (fuel : Nat) (o : PObs) : PObs :=
    match fuel with
    | 0 => o
    | k+1 => if isHookL o.s.lpc then o else goL k (obsStep o (.loop false))
  let o := goL 20 o
  match o.s.cpc with
  | .stop4 _ true | .wait1 => if o.s.lpc == .dead || o.s.lpc == .none then obsStep o .app else o
  | _ => o

def lClass (l : LPc) : String :=
  match l with
  | .none => "none" | .dead => "dead" | .rDo => "do" | .slp => "sleep" | _ => "mid"

def cClass (c : CPc) : String :=
  match c with
  | .idle => "idle" | .stop3 _ _ => "wake" | .wake1 => "wake" | .stop4 _ true => "join" | .wait1 => "join" | _ => "mid"

def encObs (o : PObs) : String :=
  s!"do={o.nDo} done={o.nDone} refused={o.refused} started={o.started} loop={lClass o.s.lpc} app={cClass o.s.cpc} bad={o.s.bad}"

def stepProto (o : PObs) (toks : List String) : PObs × String :=
  let busy := o.s.cpc != .idle
  match toks with
  | ["reset"] => (pInit, encObs pInit)
  | ["L"] => let o' := settle (loopToHook o false); (o', encObs o')
  | ["Lt"] => let o' := settle (loopToHook o true); (o', encObs o')
  | ["A"] => let o' := settle (appToHook o); (o', encObs o')
  | ["C", "stop", f, w] =>
    if busy then (o, encObs o) else
    match decBool f, decBool w with
    | some f, some w =>
      -- the call runs immediately up to its first hook (wake)
      let o1 := obsStep o (.call (.stop1 f w)); let o' := settle (appToHook o1); (o', encObs o')
    | _, _ => (o, "bad-arg")
  | ["C", "wake"] => if busy then (o, encObs o) else let o' := obsStep o (.call .wake1); (o', encObs o')
  | ["C", "start"] =>
    -- a start while the old thread is alive would block one second in join(timeout=1): not scheduled
    if busy || alive o.s then (o, encObs o) else
    let o1 := obsStep o (.call .start1); let o' := settle (appToHook o1); (o', encObs o')
  | ["C", "wait"] => if busy then (o, encObs o) else let o1 := obsStep o (.call .wait1); let o' := settle o1; (o', encObs o')
  | _ => (o, "bad-op")

def stepNotify (toks : List String) : String :=
  match toks with
  | mask :: k :: q =>
    match mask.toNat?, k.toNat? with
    | some mask, some k =>
      let queue : List (Option Nat) := q.map (fun t => if t == "~" then none else (t.drop 1).toString.toNat?)
      let r := nRun (fun n => mask.testBit n) k { queue := queue, delivered := [], stopReq := false }
      " ".intercalate (r.delivered.map (fun n => s!"n{n}")) ++ s!" | stop={r.stopReq} left={r.queue.length}"
    | _, _ => "bad-arg"
  | _ => "bad-op"

end CS.Driver.Runnable

/-! ## two-thread small-step model (Model/RunnableThreads.lean), line-granular ticks
   threads: stateful; `reset <v>` | `C <tmo>` | `S <tmo> <outcome> <until>` | `call start` | `call stop <f> <w>` | `call wake` |
            `call wait <timed>`  → observable summary (same format as harness/c18_sched.py `Ctl.obs`) -/
namespace CS.Driver.RunnableTh
open CS.Runnable CS.Wire CS.Driver.Runnable
open CS.Runnable.Th (SPc CPc Ret Thr Call Tick lineTick nDo)

structure TObs where
  v : Th.Prog
  s : Th.St

def tInit : TObs := { v := .head, s := Th.init }

/-- backoff parameters of the harness service: min 1/4, max 4, multiplier 2, sleep 1/8 (all exact in binary floating point) -/
def hp : Params := ⟨1/4, 4, 2⟩
def hSleep : Rat := 1/8

/-- `in_backoff` after the recorded outcomes (oldest first) -/
def backoffOf (dos : List Outcome) : Rat := dos.reverse.foldl (fun b o => after hp b o) 0

def outLetter : Outcome → String
  | .success => "S" | .noop => "N" | .backoffReq => "B" | .exc => "E" | .baseExc => "X" | .noopThenFail => "F"

def encRet : Ret → String
  | .none => "-"
  | .startOk | .stopRet _ _ | .wakeRet => "ok:None"
  | .waitTrue => "ok:True"
  | .waitFalse => "ok:False"
  | .startRefused | .startAlready => "RuntimeError"
  | .waitTimeout => "TimeoutError"
  | .attrErr => "AttributeError"

def encIntr : Intr → String
  | .absent => "absent" | .clear => "clear" | .set => "set"

def encSvc (s : Th.St) : String :=
  match s.svc with
  | .none => "none"
  | .dead => "dead"
  | p => if p.blocked then "blocked:evwait:" ++ encRat (sleepFor hSleep (backoffOf s.dos)) else "parked@" ++ p.label

def encCal (s : Th.St) : String :=
  match s.cal with
  | .idle => "idle"
  | p => if p.blocked then "blocked:join" else "parked@" ++ p.label

def encT (o : TObs) : String :=
  let s := o.s
  let outs := if s.dos.isEmpty then "-" else String.join (s.dos.reverse.map outLetter)
  s!"svc={encSvc s}|cal={encCal s}|stopping={encBool s.stopping} shutdown={encBool s.shutdown} stopped={encBool s.stopped} intr={encIntr s.intr} thr={encBool (s.thr != .none)} alive={encBool (Th.alive s)} do={nDo s} done={s.nDone} starts={s.nStart} outs={outs} ret={encRet s.ret} b={encRat (backoffOf s.dos)}"

def stepThreads (o : TObs) (toks : List String) : TObs × String :=
  let fin (s : Th.St) : TObs × String := let o' := { o with s := s }; (o', encT o')
  match toks with
  | ["reset", v] =>
    let o' : TObs := { v := if v == "1" then .resetInRun else if v == "2" then .wakeTwice else .head, s := Th.init }; (o', encT o')
  | ["C", tmo] =>
    match decBool tmo with
    | some tmo => fin (lineTick o.v o.s (.c tmo))
    | none => (o, "bad-arg")
  | ["S", tmo, oc, untl] =>
    match decBool tmo, parseOutcome oc, decBool untl with
    | some tmo, some oc, some untl => fin (lineTick o.v o.s (.s tmo oc untl))
    | _, _, _ => (o, "bad-arg")
  | ["call", "start"] => fin (lineTick o.v o.s (.call .start))
  | ["call", "stop", f, w] =>
    match decBool f, decBool w with
    | some f, some w => fin (lineTick o.v o.s (.call (.stop f w)))
    | _, _ => (o, "bad-arg")
  | ["call", "wake"] => fin (lineTick o.v o.s (.call .wake))
  | ["call", "wait", t] =>
    match decBool t with
    | some t => fin (lineTick o.v o.s (.call (.wait t)))
    | none => (o, "bad-arg")
  | _ => (o, "bad-op")

end CS.Driver.RunnableTh
