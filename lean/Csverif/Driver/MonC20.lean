import Csverif.Model.Smart
import Csverif.Model.Spec.Smart
import Csverif.Driver.Monitor
/- Line protocol `monc20` (C20, on-demand sync).  One obligation or one model evaluation per line.

   MODEL evaluations (plain tokens; B = a string of T/F, one letter per feature, in the order of the structure's fields):
     gate B8                      -> `<finished> <note>`     note = `-` | <D|U><L|R><r|t|l>
     filter B8 <callbacks|-> B2   -> `<included><notified><req><excl><cleared>`
     syncent B4                   -> `<req><excl><cleared>`   (`_smart_sync_ent` on one entry: req excl localPath localPathExists)
     sets <q<n>|u<n>>*            -> `<req ids ,>;<excl ids ,>`  (from empty sets)
     unsyncoid <found> B4         -> actions
     unsyncpath <translates> B4*  -> actions
     list B8                      -> T | F | -
     info B8                      -> T | F | -        (`smart_info_path`)
     infooid B2 B8                -> T | F | -        (`smart_info_oid`: known translates)
   SPEC obligations (sections separated by `|`; trees / paths as in layer `monitor`):
     step | ops | auto | L                               -> ok | reject …
     quiet | ops | auto | L | R
     unsync | ops | auto | p | L/R | Lb | Rb | La | Ra | ok/nf/err
     listing | Q/S | local names | remote names | name:T/F …
     ghost | name:<synced T/F>:<engine knows the remote side gone T/F> …   (any listing / info result, at any instant)
   ops: RC:<p>:<tag> RW:<p>:<tag> RD:<p> RM:<p> LC:<p>:<tag> LW:<p>:<tag> LM:<p> Q+:<p>:<res> Q-:<p>:<res> -/
namespace CS.Driver.MonC20
open CS.Wire CS.Smart CS.Spec CS.Spec.Smart CS.Driver.Monitor

def decBools (t : String) : Option (List Bool) :=
  if t == "-" then some [] else t.toList.mapM (fun c => if c == 'T' then some true else if c == 'F' then some false else none)

def encB (b : Bool) : String := if b then "T" else "F"

def encNote : Option Note → String
  | none => "-"
  | some n =>
    (match n.ntype with | .discarded => "D" | .smartUnsynced => "U") ++
    (match n.src with | .loc => "L" | .rem => "R") ++
    (match n.path with | .remotePath => "r" | .translatedLocal => "t" | .rawLocal => "l")

def encAct : Act → String
  | .getLatestLocal e => s!"G{e}"
  | .flush e => s!"F{e}"
  | .localInfo e => s!"I{e}"
  | .write side m e =>
    (match side with | .loc => "wL" | .rem => "wR") ++
    (match m with | .create => "create" | .upload => "upload" | .rename => "rename" | .delete => "delete" | .mkdir => "mkdir") ++ s!"{e}"
  | .clearLocal e => s!"C{e}"
  | .moveToExcluded e => s!"M{e}"
  | .raiseNotFound => "!NotFound"
  | .raiseTypeError => "!TypeError"
  | .returnOk => "ok"
  | .returnNone => "none"

def encActs (l : List Act) : String := " ".intercalate (l.map encAct)

def decUnsyncIn : List Bool → Option UnsyncIn
  | [a, b, c, d] => some { requested := a, localPath := b, localInfo := c, newer := d }
  | _ => none

def decCall (t : String) : Option Call :=
  if t.startsWith "q" then (t.drop 1).toString.toNat?.map Call.request
  else if t.startsWith "u" then (t.drop 1).toString.toNat?.map Call.unrequest
  else none

def encIds (l : List Nat) : String := if l.isEmpty then "-" else ",".intercalate (l.map toString)

def decRes (t : String) : Option Res :=
  if t == "ok" then some .ok else if t == "nf" then some .nf else if t == "err" then some .err else none

def decSOp (t : String) : Option SOp :=
  match t.splitOn ":" with
  | ["RC", p, g] => do pure (.rcreate (← decPath p) (← g.toNat?))
  | ["RW", p, g] => do pure (.rwrite (← decPath p) (← g.toNat?))
  | ["RD", p] => do pure (.rdelete (← decPath p))
  | ["RM", p] => do pure (.rmkdir (← decPath p))
  | ["LC", p, g] => do pure (.lcreate (← decPath p) (← g.toNat?))
  | ["LW", p, g] => do pure (.lwrite (← decPath p) (← g.toNat?))
  | ["LM", p] => do pure (.lmkdir (← decPath p))
  | ["Q+", p, r] => do pure (.request (← decPath p) (← decRes r))
  | ["Q-", p, r] => do pure (.unrequest (← decPath p) (← decRes r))
  | _ => none

def decName (t : String) : Option String := (decStr t).map String.ofList

def decListEnt (t : String) : Option (String × Bool) :=
  match t.splitOn ":" with
  | [n, b] => do pure ((← decName n), (← decBool b))
  | _ => none

def encStatus : Status → String
  | .unreq => "unrequested" | .req => "requested" | .loc => "local-creation" | .auto => "auto-synced" | .maybe => "maybe"

def modelStep (toks : List String) : Option String :=
  match toks with
  | ["gate", b] => do
    match ← decBools b with
    | [a, b, c, d, e, f, g, h] =>
      let o := preSyncGate { superFinished := a, localOid := b, localExists := c, requested := d, remoteDir := e,
                             remotePath := f, localPath := g, translates := h }
      pure s!"{encB o.finished} {encNote o.note}"
    | _ => none
  | ["filter", b, cbs, b2] => do
    match ← decBools b, ← decBools cbs, ← decBools b2 with
    | [a, b, c, d, e, f, g, h], cbs, [x, y] =>
      let o := changesetFilter { inExclude := a, localChanged := b, inRequest := c, remoteDir := d, remoteChanged := e,
                                 isLatest := f, localOid := g, remotePath := h, callbacks := cbs, localPath := x, localPathExists := y }
      pure (encB o.included ++ encB o.notified ++ encB o.mem.req ++ encB o.mem.excl ++ encB o.cleared)
    | _, _, _ => none
  | ["syncent", b] => do
    match ← decBools b with
    | [r, x, lp, le] =>
      let (m, c) := smartSyncEnt { req := r, excl := x } lp le
      pure (encB m.req ++ encB m.excl ++ encB c)
    | _ => none
  | "sets" :: calls => do
    let cs ← calls.mapM decCall
    let s := runCalls { req := [], excl := [] } cs
    pure s!"{encIds s.req};{encIds s.excl}"
  | ["unsyncoid", f, b] => do
    match ← decBools f, ← decBools b with
    | [found], bs => do pure (encActs (unsyncOid found (← decUnsyncIn bs)))
    | _, _ => none
  | "unsyncpath" :: t :: ents => do
    match ← decBools t with
    | [tr] => do
      let es ← ents.mapM (fun e => do decUnsyncIn (← decBools e))
      pure (encActs (unsyncPath tr es))
    | _ => none
  | ["info", b] => do
    match ← decBools b with
    | [a, b, c, d, e, f, g, h] =>
      let o := infoPath { hasLocal := a, hasRent := b, rentLocalPath := c, pathsMatch := d, localGone := e, remoteGone := f,
                          localVisible := g, remoteVisible := h }
      pure (match o with | some true => "T" | some false => "F" | none => "-")
    | _ => none
  | ["infooid", kt, b] => do
    match ← decBools kt, ← decBools b with
    | [k, t], [a, b, c, d, e, f, g, h] =>
      let o := infoOid k t { hasLocal := a, hasRent := b, rentLocalPath := c, pathsMatch := d, localGone := e, remoteGone := f,
                             localVisible := g, remoteVisible := h }
      pure (match o with | some true => "T" | some false => "F" | none => "-")
    | _, _ => none
  | ["list", b] => do
    match ← decBools b with
    | [a, b, c, d, e, f, g, h] =>
      let o := listEntry { hasLocal := a, hasRent := b, rentLocalPath := c, pathsMatch := d, localGone := e, remoteGone := f,
                           localVisible := g, remoteVisible := h }
      pure (match o with | some true => "T" | some false => "F" | none => "-")
    | _ => none
  | _ => none

def specStep (secs : List (List String)) : Option String :=
  match secs with
  | [["step"], ops, auto, l] => do
    let ops ← ops.mapM decSOp
    let auto ← auto.mapM decPath
    let l ← decTree l
    if stepOk auto ops l then pure "ok"
    else pure s!"reject unrequested-file-present-locally {match stepBad auto ops l with | some p => encPath p | none => "?"}"
  | [["quiet"], ops, auto, l, r] => do
    let ops ← ops.mapM decSOp
    let auto ← auto.mapM decPath
    let l ← decTree l
    let r ← decTree r
    pure (match quietVerdict auto ops l r with
      | .ok => "ok"
      | .remoteDiffers => s!"reject remote-differs {firstDiff r (run auto ops).expectedRemote}"
      | .folderNotMirrored p => s!"reject folder-not-mirrored {encPath p}"
      | .extraLocal p => s!"reject extra-local-entry {encPath p}"
      | .notInSync p st => s!"reject {encStatus st}-not-in-sync {encPath p}"
      | .staleLocalCopy p => s!"reject stale-local-copy {encPath p}"
      | .unrequestedPresent p => s!"reject unrequested-file-present-locally {encPath p}")
  | [["unsync"], ops, auto, [p], [last], lb, rb, la, ra, [res]] => do
    let ops ← ops.mapM decSOp
    let auto ← auto.mapM decPath
    let p ← decPath p
    let lb ← decTree lb
    let rb ← decTree rb
    let la ← decTree la
    let ra ← decTree ra
    let res ← decRes res
    pure (match unsyncVerdict auto ops p (last == "L") lb rb la ra res with
      | .ok => "ok"
      | .remoteDeleted q => s!"reject remote-deleted {encPath q}"
      | .localNotRemovedExactly => s!"reject local-copy-not-removed-exactly {firstDiff la (Smart.Tree.erase lb p)}"
      | .remoteNotNewest => s!"reject remote-not-newest {firstDiff ra (expectedRemoteAfter (last == "L") lb rb p)}"
      | .remoteChanged q => s!"reject remote-changed {encPath q}"
      | .localChangedByNoop => s!"reject local-changed-by-noop-unrequest {firstDiff la lb}"
      | .newestLost => s!"reject newest-lost {encPath p}"
      | .otherLocalChanged => "reject other-local-changed")
  | [["ghost"], rows] => do
    let rows ← rows.mapM (fun t => match t.splitOn ":" with
      | [n, sy, g] => do pure ({ name := (← decName n), synced := (← decBool sy), remoteKnownGone := (← decBool g) } : Row)
      | _ => none)
    pure (match ghostOf rows with
      | none => "ok"
      | some n => s!"reject deleted-remote-file-listed {encStr n.toList}")
  | [["listing"], [q], lk, rk, ents] => do
    let lk ← lk.mapM decName
    let rk ← rk.mapM decName
    let ents ← ents.mapM decListEnt
    pure (match listingVerdict (q == "Q") lk rk ents with
      | .ok => "ok"
      | .localNotReportedSynced n => s!"reject local-not-reported-synced {encStr n.toList}"
      | .remoteOnlyReportedSynced n => s!"reject remote-only-reported-synced {encStr n.toList}"
      | .remoteOnlyNotListed n => s!"reject remote-only-not-listed {encStr n.toList}")
  | _ => none

def step (toks : List String) : String :=
  match toks with
  | [] => "bad-op"
  | t :: _ =>
    if t == "step" || t == "quiet" || t == "unsync" || t == "listing" || t == "ghost" then
      (specStep (sections toks)).getD "bad-arg"
    else (modelStep toks).getD "bad-arg"

end CS.Driver.MonC20
