import Csverif.Driver.EngineBase
import Csverif.Driver.EngineXfer
import Csverif.Driver.EngineMore
import Csverif.Driver.EngineRefresh
/- Driver layer `engine` (differential tie of the engine decision tables; one line in, one canonical line out).

  `<op> <side> <L> <R> <lLeR> <ign> <prio> <oracle> <pcPrio>`
     op     = preds | presync | sync | syncone | embrace | hpcc | hashdiff | deleteD | deleteI | rename | corrupt | missing |
              split | finished
     side   = L | R   (the CHANGED side for the handlers; ignored by preds/presync/sync/syncone/split)
     L, R   = one side: <oid T/F><p><h><ex><saved><otype><changed T/F><force T/F>
              p, h  ∈ n c s e d  (nn cn ns eq ne);  ex ∈ u e t m l c;  saved ∈ - u e t m l c;  otype ∈ f d n
     ign    = n d c t i ;  prio, pcPrio = integers (tenths)
     oracle = one character per field of `CS.Engine.Oracle` except pcPrio, in declaration order:
              trL trR (n p s a l g) inRoot nameConfl parentConfl rdc delCreate delRename del (o f e t) kidsNeedSync remaining
              dl (o f m c t) up (o f m n c t) childConfl disjoint mkd (o p x n t) cr (o p n c y t) ren (o f n e t)
              rcEnt rcNeedsSync rcDelExists fixFnf hcTemp revOtherL revOtherR revInfoL revInfoR (n x p) revTrL revTrR
  → `<out> | <effects or -> | <L> <R> <lLeR> <ign> <prio>`
     out = F | P | R | N | !<exception>  (handlers);  T | F | !<exception> (sync);  T | F | B (syncone);  T | F (presync)
     lLeR is printed canonically: `T` unless both change flags are set
  preds → sixteen T/F: needsSync L R, isCreation L R, isDeletion L R, isRename L R, isPathChange L R, hashConflict,
          isCorrupt L R, corruptGone L R, pathConflict                                                                  -/
namespace CS.Driver.Engine
open CS.Engine CS.Wire CS.Driver.EngineBase
open CS.Hints (Ex OT Ign)

def step (toks : List String) : String :=
  if (toks.head?.getD "").startsWith "x" then EngineXfer.step toks else
  if (toks.head?.getD "").startsWith "y" then EngineMore.step toks else
  if (toks.head?.getD "").startsWith "z" then EngineRefresh.step toks else
  match toks with
  | [op, sd, l, r, ord, ign, prio, orc, pc] =>
    match decSd sd, decSide l, decSide r, (ord.toList.head?).bind decB, decIgn ign, prio.toInt?, decOracle orc pc with
    | some c, some l, some r, some ord, some ign, some prio, some o =>
      let e : Entry := { l := l, r := r, lLeR := ord, ign := ign, prio := prio }
      match op with
      | "preds" =>
        bools [e.l.needsSync, e.r.needsSync, isCreation e .loc, isCreation e .rem, isDeletion e .loc, isDeletion e .rem,
               isRename e .loc, isRename e .rem, isPathChange e .loc, isPathChange e .rem, hashConflict e,
               e.l.isCorrupt, e.r.isCorrupt, e.l.corruptGone, e.r.corruptGone, pathConflict o e]
      | "presync" => let (b, fx, e') := preSync o e; line (String.ofList [encB b]) fx e'
      | "sync" =>
        let r := sync o e
        line (match r.done with | .ok b => String.ofList [encB b] | .error x => encExc x) r.effs r.ent
      | "syncone" =>
        let (out, fx, e') := syncOne o e
        line (match out with | .done b => String.ofList [encB b] | .backoff => "B") fx e'
      | "embrace" => encRes (embrace o e c)
      | "hpcc" => encRes (hpcc o e c)
      | "hashdiff" => encRes (hashDiff o e c)
      | "deleteD" => encRes (deleteSynced o e c .discarded)
      | "deleteI" => encRes (deleteSynced o e c .irrelevant)
      | "rename" => encRes (handleRename o e c)
      | "corrupt" => encRes (handleCorrupt e c)
      | "missing" => encRes (handleMissing e c)
      | "split" => match splitEntry e with
        | .ok e' => line "ok" [] e'
        | .error x => line (encExc x) [] e
      | "finished" => line "ok" [] (finished e c)
      | _ => "bad-op"
    | _, _, _, _, _, _, _ => "bad-arg"
  | _ => "bad-line"

end CS.Driver.Engine
