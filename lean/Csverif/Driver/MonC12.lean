import Csverif.Model.Spec.Confine
import Csverif.Driver.Monitor
/- Line protocol `monc12` (C12, root confinement): one obligation per line, sections separated by `|`.
   Strings (`encStr`): code points joined by '.', "-" empty.  Tree entries / path tokens as in layer `monitor`.

   call  | <cs:T/F> <root> | <declined folder>* | <call>*       call = <m>:<path>  or  rename:<src>:<dst>
         root, folders and paths are the provider's own path *strings*; the monitor computes their components with the
         path model (`pathComps`) and decides `checkCall`.         -> ok | reject <guard> <index> <method>
   out   | <before> | <after> | <before> | <after> ...          trees outside the root around every engine step
                                                                  -> ok | reject outside-changed <step> <path>
   alien | <name>* | <tag>* | <inside tree L> | <inside tree R>   -> ok | reject alien-name <L/R> <path> | reject alien-content <L/R> <path>
   mout  | <other side's inside tree> | <path>                    -> ok | reject moved-out-still-there <path>
   min   | <mover's inside tree> | <other side's inside tree> | <path>
                                                                  -> ok | reject moved-in-not-created <path>
   head  <hasPath> <exists> <translated> <hadSyncPath> <inRoot> <delRet:F/P/R> <discarded>
                                                                  -> the effects and outcome of `embraceHead`
   sub   <cs:T/F> <root> <path>                                   -> <confinedStr T/F> <isSubpath ≠ no T/F> -/
namespace CS.Driver.MonC12
open CS.Spec CS.Wire CS.Driver.Monitor

def cfgOf (cs : Bool) : CS.Path.Cfg := CS.Path.mkCfg cs false true

def decMeth (t : String) : Option Meth :=
  if t == "create" then some .create
  else if t == "upload" then some .upload
  else if t == "rename" then some .rename
  else if t == "delete" then some .delete
  else if t == "mkdir" || t == "mkdirs" then some .mkdir
  else none

def encMeth : Meth → String
  | .create => "create" | .upload => "upload" | .rename => "rename" | .delete => "delete" | .mkdir => "mkdir"

def decCall (c : CS.Path.Cfg) (t : String) : Option ECall :=
  match t.splitOn ":" with
  | [m, p] => do
    let m ← decMeth m
    let p ← decStr p
    pure { meth := m, tgt := pathComps c p, dst := none }
  | [m, s, d] => do
    let m ← decMeth m
    let s ← decStr s
    let d ← decStr d
    pure { meth := m, tgt := pathComps c s, dst := some (pathComps c d) }
  | _ => none

def encVerdict : Verdict → String
  | .ok => "ok" | .outsideRoot => "outside-root" | .rootItself => "root-itself" | .declined => "declined-touched"

def pairUp : List Tree → Option (List (Tree × Tree))
  | [] => some []
  | [_] => none
  | a :: b :: rest => (pairUp rest).map ((a, b) :: ·)

def decRet (t : String) : Option Ret :=
  if t == "F" then some .finished else if t == "P" then some .punt else if t == "R" then some .requeue else none

def encRet : Ret → String
  | .finished => "F" | .punt => "P" | .requeue => "R"

def encEff : Eff → String
  | .askTranslate => "translate:synced" | .askInRoot => "inroot:changed"
  | .notifyDiscarded => "notify" | .deletePeerIrrelevant => "delete-peer-irrelevant" | .split => "split"
  | .ignoreIrrelevant => "ignore-irrelevant"

def encOutcome : Outcome → String
  | .ret r => "ret:" ++ encRet r
  | .proceed => "proceed"

def alienIn (names : List String) (tags : List Nat) (side : String) (t : Tree) : Option String :=
  match t.find? (fun e => !legitEntry names tags e) with
  | none => none
  | some e =>
    let nameOk := legitEntry names (match e.2 with | .file tag => [tag] | .dir => []) e
    some (s!"reject {if nameOk then "alien-content" else "alien-name"} {side} {encPath e.1}")

def step (toks : List String) : String :=
  match sections toks with
  | [["call"], [cs, root], holes, calls] =>
    match decBool cs, decStr root, holes.mapM decStr with
    | some cs, some root, some holes =>
      let c := cfgOf cs
      match calls.mapM (decCall c) with
      | some calls =>
        match checkCalls (pathComps c root) (holes.map (pathComps c)) calls with
        | none => "ok"
        | some (i, call, v) => s!"reject {encVerdict v} {i} {encMeth call.meth}"
      | none => "bad-arg"
    | _, _, _ => "bad-arg"
  | ["out"] :: trees =>
    match (trees.mapM decTree).bind pairUp with
    | some pairs =>
      match firstTouched pairs with
      | none => if stepsUntouched pairs then "ok" else "reject outside-changed ? ?"
      | some k => match pairs[k]? with
        | some (b, a) => s!"reject outside-changed {k} {firstDiff b a}"
        | none => "reject outside-changed ? ?"
    | none => "bad-arg"
  | [["alien"], names, tags, l, r] =>
    match names.mapM decStr, tags.mapM String.toNat?, decTree l, decTree r with
    | some names, some tags, some l, some r =>
      let names := names.map String.ofList
      if noAlien names tags l && noAlien names tags r then "ok"
      else match alienIn names tags "L" l with
        | some m => m
        | none => (alienIn names tags "R" r).getD "reject alien ? ?"
    | _, _, _, _ => "bad-arg"
  | [["mout"], other, [p]] =>
    match decTree other, decPath p with
    | some other, some p => if movedOutOk other p then "ok" else s!"reject moved-out-still-there {encPath p}"
    | _, _ => "bad-arg"
  | [["min"], mine, other, [p]] =>
    match decTree mine, decTree other, decPath p with
    | some mine, some other, some p =>
      if movedInOk mine other p then "ok" else s!"reject moved-in-not-created {encPath p}"
    | _, _, _ => "bad-arg"
  | [["head", a, b, c, d, e, f, g]] =>
    match decBool a, decBool b, decBool c, decBool d, decBool e, decRet f, decBool g with
    | some a, some b, some c, some d, some e, some f, some g =>
      let (effs, out) := embraceHead { hasPath := a, exists_ := b, tr := c, hadSync := d, inRoot := e, delRet := f, discarded := g }
      " ".intercalate (effs.map encEff ++ [encOutcome out])
    | _, _, _, _, _, _, _ => "bad-arg"
  | [["sub", cs, root, p]] =>
    match decBool cs, decStr root, decStr p with
    | some cs, some root, some p =>
      let c := cfgOf cs
      s!"{encBool (confinedStr c root p)} {encBool (CS.Path.isSubpath c root p false != .no)}"
    | _, _, _ => "bad-arg"
  | _ => "bad-op"

end CS.Driver.MonC12
