import Csverif.Model.Hints
import Csverif.Model.Path
import Csverif.Model.Spec.Mangle
import Csverif.Driver.Monitor
/- Line protocol `monc14` (C14).  Sections are separated by `|`.

   model lines (differential tie of Model/Hints.lean):
     ev <oidIsPath T|F> <force T|F> <otherChanged> <now> | <side> | <truth>* | <event> <t> | <event> <t> ...
        -> `<raised T|F>* | <side after the events> | <side after get_latest>`
     fnf <priority> <providerHasParent T|F> <parent path> | <side> | <side> ...
        -> `toomany` | `inject` | `noinfo` | `use <oid of the entry taken for the parent>`
     pe <fromWalk T|F> | <event> | <side> | <side> ...
        -> `dropped` | `noop` | `update <event>`
   side  = oid path hash ex saved otype changed lastGotten ign     (strings: Wire.encStr, None = ~)
   truth = oid present(T|F) path hash otype hashOid
   event = otype oid path hash ex(T|F|~) accurate(T|F)
   ex: U P T M L C   otype: F D N   ign: n d c t i

   outcome lines (trace refinement, Model/Spec/Mangle.lean):
     c14 | A.left | A.right | B.left | B.right | A.calls | B.calls      (trees as in `monitor`; calls opaque tokens)
     quiet | L before | R before | L after | R after | <engine writes>
-/
namespace CS.Driver.MonC14
open CS.Hints CS.Wire CS.Spec
open CS.Driver.Monitor (sections decTree firstDiff)

def decS (t : String) : Option (Option String) := (decOptStr t).map (fun o => o.map String.ofList)
def encS (o : Option String) : String := encOptStr (o.map String.toList)

def decEx : String → Option Ex
  | "U" => some .unknown | "P" => some .present | "T" => some .trashed
  | "M" => some .missing | "L" => some .likely | "C" => some .corrupt | _ => none
def encEx : Ex → String
  | .unknown => "U" | .present => "P" | .trashed => "T" | .missing => "M" | .likely => "L" | .corrupt => "C"
def decOT : String → Option OT
  | "F" => some .file | "D" => some .dir | "N" => some .notknown | _ => none
def encOT : OT → String
  | .file => "F" | .dir => "D" | .notknown => "N"
def decIgn : String → Option Ign
  | "n" => some .no | "d" => some .discarded | "c" => some .conflict | "t" => some .tempRename
  | "i" => some .irrelevant | _ => none
def encIgn : Ign → String
  | .no => "n" | .discarded => "d" | .conflict => "c" | .tempRename => "t" | .irrelevant => "i"

def decSide : List String → Option Side
  | [o, p, h, e, sv, ot, c, lg, ig] => do
    let saved ← if sv == "~" then some none else (decEx sv).map some
    pure { oid := ← decS o, path := ← decS p, hash := ← decS h, ex := ← decEx e, saved := saved,
           otype := ← decOT ot, changed := ← c.toNat?, lastGotten := ← lg.toNat?, ign := ← decIgn ig }
  | _ => none

def encSide (s : Side) : String :=
  " ".intercalate [encS s.oid, encS s.path, encS s.hash, encEx s.ex,
    (match s.saved with | none => "~" | some x => encEx x), encOT s.otype, toString s.changed,
    toString s.lastGotten, encIgn s.ign]

def decOB (t : String) : Option (Option Bool) :=
  if t == "~" then some none else (decBool t).map some
def encOB : Option Bool → String
  | none => "~" | some b => encBool b

def decEvent : List String → Option Event
  | [ot, o, p, h, e, a] => do
    pure { otype := ← decOT ot, oid := ← decS o, path := ← decS p, hash := ← decS h, ex := ← decOB e,
           accurate := ← decBool a }
  | _ => none

def encEvent (e : Event) : String :=
  " ".intercalate [encOT e.otype, encS e.oid, encS e.path, encS e.hash, encOB e.ex, encBool e.accurate]

def decTruth1 : List String → Option (Oid × Option Info × Option Hash)
  | [o, pr, p, h, ot, ho] => do
    let oid ← (← decS o)
    let present ← decBool pr
    let path ← decS p
    let hash ← decS h
    let otype ← decOT ot
    let info : Option Info := if present then some { path := path.getD "", hash := hash, otype := otype } else none
    pure (oid, info, ← decS ho)
  | _ => none

def mkTruth (l : List (Oid × Option Info × Option Hash)) : Truth :=
  { info := fun o => (l.find? (·.1 == o)).bind (·.2.1),
    hashOid := fun o => (l.find? (·.1 == o)).bind (·.2.2) }

/-- `normalize_path_separators` of the mock provider (sep '/', alt_sep '\\'), from the C13 model -/
def norm (p : Path) : Path := String.ofList (CS.Path.normSeps (CS.Path.mkCfg true false) p.toList)

def runEvents (ip : Bool) (s : Side) : List (Event × Nat) → Side × List Bool
  | [] => (s, [])
  | (e, t) :: es =>
    let (s', fl) := runEvents ip (applyEvent ip norm s e t) es
    (s', e.raises :: fl)

def decEventT (toks : List String) : Option (Event × Nat) :=
  match toks.reverse with
  | t :: rest => do pure (← decEvent rest.reverse, ← t.toNat?)
  | [] => none

def decCalls (ts : List String) : List String := ts

def step (toks : List String) : String :=
  match sections toks with
  | ["ev", ip, force, oc, now] :: side :: rest =>
    match decBool ip, decBool force, oc.toNat?, now.toNat?, decSide side with
    | some ip, some force, some oc, some now, some s =>
      -- truths are 6-token sections, events 7-token sections
      let truths := rest.filter (·.length == 6)
      let evs := rest.filter (·.length == 7)
      match truths.mapM decTruth1, evs.mapM decEventT with
      | some tl, some el =>
        let (s1, raised) := runEvents ip s el
        let s2 := getLatestMaybe ip norm (mkTruth tl) now force oc s1
        s!"{" ".intercalate (raised.map encBool)} | {encSide s1} | {encSide s2}"
      | _, _ => "bad-arg"
    | _, _, _, _, _ => "bad-arg"
  | ["pe", fw] :: ev :: sides =>
    match decBool fw, decEvent ev, sides.mapM decSide with
    | some fw, some e, some idx =>
      match processEvent idx e fw with
      | .dropped => "dropped"
      | .walkNoop => "noop"
      | .update e' => s!"update {encEvent e'}"
    | _, _, _ => "bad-arg"
  | ["fnf", prio, has, parent] :: sides =>
    match prio.toNat?, decBool has, decS parent, sides.mapM decSide with
    | some prio, some has, some (some parent), some idx =>
      match fnfParent false idx parent prio has with
      | .tooManyRetries => "toomany"
      | .injectParent => "inject"
      | .noInfo => "noinfo"
      | .useEntry k => s!"use {encS k.oid}"
    | _, _, _, _ => "bad-arg"
  | [["c14"], al, ar, bl, br, ca, cb] =>
    match decTree al, decTree ar, decTree bl, decTree br with
    | some al, some ar, some bl, some br =>
      let A : MangleOutcome := { l := al, r := ar, calls := ca }
      let B : MangleOutcome := { l := bl, r := br, calls := cb }
      if mangledOk A B then "ok"
      else if !(converged bl br) then s!"reject mangled-run-not-converged {firstDiff bl.core br.core}"
      else if !(bl.sameAs al) then s!"reject left-tree-differs-from-prompt-run {firstDiff bl al}"
      else if !(br.sameAs ar) then s!"reject right-tree-differs-from-prompt-run {firstDiff br ar}"
      else if !(noNewConflicts al bl && noNewConflicts ar br) then "reject conflicted-artefact-only-in-mangled-run"
      else match cb.find? (fun x => countOf x cb > countOf x ca) with
        | some x => s!"reject spurious-write {x}"
        | none => "reject ?"
    | _, _, _, _ => "bad-arg"
  | [["quiet"], lb, rb, la, ra, [n]] =>
    match decTree lb, decTree rb, decTree la, decTree ra, n.toNat? with
    | some lb, some rb, some la, some ra, some n =>
      if replayQuiet lb rb la ra n then "ok"
      else if n != 0 then s!"reject replay-caused-writes {n}"
      else "reject replay-changed-a-tree"
    | _, _, _, _, _ => "bad-arg"
  | _ => "bad-op"

end CS.Driver.MonC14
