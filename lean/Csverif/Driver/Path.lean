import Csverif.Model.Path
import Csverif.Driver.Wire
/- Line protocol for the path layer:  `<cs><win><alt> <op> <args…>`  e.g. `TFT join 47.97 98`. -/
namespace CS.Driver.Path
open CS.Path CS.Wire

def encErr : PErr → String
  | .index => "!Index"
  | .value => "!Value"

def encExc {α} (f : α → String) : Except PErr α → String
  | .ok a => f a
  | .error e => encErr e

def encSub : SubRes → String
  | .no => "F"
  | .rel r => encStr r

def parseCfg (t : String) : Option Cfg :=
  match t.toList with
  | [a, b, c] => do
    let cs ← decBool (String.singleton a)
    let win ← decBool (String.singleton b)
    let alt ← decBool (String.singleton c)
    pure (mkCfg cs win alt)
  | _ => none

/-- nested `join` arguments: `[` opens a list/tuple, `]` closes it, `~` is `None`, anything else an
    encoded string -/
def parseJArgs (toks : List String) : Option (List JArg) :=
  let rec go (toks : List String) (stack : List (List JArg)) (cur : List JArg) : Option (List JArg) :=
    match toks with
    | [] => if stack.isEmpty then some cur.reverse else none
    | t :: ts =>
      if t == "[" then go ts (cur :: stack) []
      else if t == "]" then
        match stack with
        | [] => none
        | top :: rest => go ts rest (JArg.seq cur.reverse :: top)
      else if t == "~" then go ts stack (JArg.none :: cur)
      else match decStr t with
        | some s => go ts stack (JArg.str s :: cur)
        | none => none
  go toks [] []

def step (toks : List String) : String :=
  match toks with
  | cfgT :: op :: args =>
    match parseCfg cfgT with
    | none => "bad-cfg"
    | some c =>
      match op, args with
      | "normseps", [a] => (match decStr a with | some s => encStr (normSeps c s) | none => "bad-arg")
      | "join", as => (match as.mapM decStr with | some ps => encStr (join c ps) | none => "bad-arg")
      | "split", [a] => (match decStr a with
          | some s => let r := split c s; encStr r.1 ++ " " ++ encStr r.2
          | none => "bad-arg")
      | "dirname", [a] => (match decStr a with | some s => encStr (dirname c s) | none => "bad-arg")
      | "basename", [a] => (match decStr a with | some s => encStr (basename c s) | none => "bad-arg")
      | "normalize", [a, d] => (match decStr a, decBool d with
          | some s, some fd => encStr (normalizePath c s fd)
          | _, _ => "bad-arg")
      | "issub", [f, t, st] => (match decStr f, decStr t, decBool st with
          | some f, some t, some st => encSub (isSubpath c f t st)
          | _, _, _ => "bad-arg")
      | "issubopt", [f, t, st] => (match decOptStr f, decOptStr t, decBool st with
          | some f, some t, some st => encSub (isSubpathOpt c f t st)
          | _, _, _ => "bad-arg")
      | "issubroot", [r, t, st] => (match decOptStr r, decOptStr t, decBool st with
          | some r, some t, some st => encSub (isSubpathOfRoot c r t st)
          | _, _, _ => "bad-arg")
      | "joinn", as => (match parseJArgs as with | some l => encStr (joinArgs c l) | none => "bad-arg")
      | "replace", [p, f, t] => (match decStr p, decStr f, decStr t with
          | some p, some f, some t => encExc encStr (replacePath c p f t)
          | _, _, _ => "bad-arg")
      | "match", [a, b, d] => (match decOptStr a, decOptStr b, decBool d with
          | some a, some b, some d => encBool (pathsMatch c a b d)
          | _, _, _ => "bad-arg")
      | "translate", [cfg2, r1, r2, p] => (match parseCfg cfg2, decStr r1, decStr r2, decStr p with
          | some c2, some r1, some r2, some p => encOptStr (translate c c2 r1 r2 p)
          | _, _, _, _ => "bad-arg")
      | _, _ => "bad-op"
  | _ => "bad-op"

end CS.Driver.Path
