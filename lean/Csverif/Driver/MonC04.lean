import Csverif.Model.Spec.ObjTree
import Csverif.Driver.Monitor
/- Line protocol `monc04` (C04, object-identity family): one run per line, sections separated by `|`.
   Names are `encStr` (code points joined by '.', "-" empty); an id is a decimal number, the root parent is "~".

   c04o | <obj>* | <opL>* | <opR>* | <tree L> | <tree R>
        obj  = <id>:<parent|~>:<name>:D            folder            (the synchronised base, ascending ids)
               <id>:<parent|~>:<name>:F<tag>       file
        op   = C:<id>:<parent|~>:<name>:<tag>  W:<id>:<tag>  M:<id>:<parent|~>:<name>  D:<id>  V:<id>:<parent|~>:<name>
        tree = entries `<path>=D` / `<path>=F<tag>` as in layer `monitor`
     -> ok | <expected path tree>                      both sides equal the path view of the merged object tree
        reject left-differs <path> | <expected>        (or right-differs)
        skip not-disjoint | skip incompatible          the premise of C04 does not hold for this pair of sequences
        bad-base                                       the base object tree is not well formed
        bad-arg
   The expected tree is printed so that the harness can cross-check its own bookkeeping. -/
namespace CS.Driver.MonC04
open CS.Spec CS.Spec.Obj CS.Wire CS.Driver.Monitor

def decId (t : String) : Option (Option Nat) := if t == "~" then some none else t.toNat?.map some

def decName (t : String) : Option String := (decStr t).map String.ofList

def decKind (t : String) : Option Node :=
  if t == "D" then some .dir
  else if t.startsWith "F" then (t.drop 1).toString.toNat?.map Node.file
  else none

def decObj (t : String) : Option Obj :=
  match t.splitOn ":" with
  | [i, p, n, k] => do pure ⟨← i.toNat?, ← decId p, ← decName n, ← decKind k⟩
  | _ => none

def decOOp (t : String) : Option OOp :=
  match t.splitOn ":" with
  | ["C", i, p, n, g] => do pure (.create (← i.toNat?) (← decId p) (← decName n) (← g.toNat?))
  | ["W", i, g] => do pure (.write (← i.toNat?) (← g.toNat?))
  | ["M", i, p, n] => do pure (.mkdir (← i.toNat?) (← decId p) (← decName n))
  | ["D", i] => do pure (.delete (← i.toNat?))
  | ["V", i, p, n] => do pure (.move (← i.toNat?) (← decId p) (← decName n))
  | _ => none

def encEntry (e : RPath × Node) : String :=
  encPath e.1 ++ "=" ++ (match e.2 with | .dir => "D" | .file g => s!"F{g}")

def encTree (t : Tree) : String := " ".intercalate (t.map encEntry)

def step (toks : List String) : String :=
  match sections toks with
  | [["c04o"], base, opsL, opsR, l, r] =>
    match base.mapM decObj, opsL.mapM decOOp, opsR.mapM decOOp, decTree l, decTree r with
    | some base, some opsL, some opsR, some l, some r =>
      if !wfB base then "bad-base"
      else if !disjointSeqs opsL opsR then "skip not-disjoint"
      else if !CompatibleSeqs base opsL opsR then "skip incompatible"
      else
        let e := toPaths (objMerge base opsL opsR)
        if objMergeOk base opsL opsR l r then s!"ok | {encTree e}"
        else if !(l.sameAs e) then s!"reject left-differs {firstDiff l e} | {encTree e}"
        else s!"reject right-differs {firstDiff r e} | {encTree e}"
    | _, _, _, _, _ => "bad-arg"
  | _ => "bad-op"

end CS.Driver.MonC04
