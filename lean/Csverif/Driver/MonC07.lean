import Csverif.Model.Spec.Crash
import Csverif.Driver.Monitor
/- Line protocol `monc07` (C07, crash consistency): one obligation per line, sections separated by `|`.

   effect token  `<n>=<body>` with body
       `SC:<eid>:<cl>:<cr>` `SU:<eid>:<cl>:<cr>` `SD:<eid>`     entry row create / update / delete (claims: content tag or `~`)
       `K:<side>:<c>`  cursor write     `W:<side>`  walk marker write     `O`  other storage write
       `P:<side>:<E|U>:<tag|~>`  provider write by Engine / User       `A:<side>:<idx>:<row eid|~>`  event handled
   `log | effects…`                                      → `ok <n>` | `reject <position> <reason>`          (`check`)
   `cut <k> | effects… | rows… | cursors… | walks…`      → `ok` | `reject …`   prefix `take k` is accepted, `consistentB`, and the abstract
                                                           storage equals what the real storage holds (rows `eid:cl:cr`, cursors `side:c`)
   `c07 <T|F one-sided> | ledger… | left tree | right tree` → `ok` | `reject <clause>`                      (`recovered`)
   `create <ok:oid:hash:path|exists|notfound|name|other> <ip: ~|oid:hash:path> <tempHash> <tp> <priority>` → outcome of `createSynced`
   `split <T|F> <T|F> <T|F> <dhash> <rhash>`             → outcome of `handleSplitConflict` -/
namespace CS.Driver.MonC07
open CS.Spec CS.Spec.Crash CS.Wire CS.Driver.Monitor

def decSide (t : String) : Option Side := if t == "0" then some false else if t == "1" then some true else none

def decEffBody (t : String) : Option Eff :=
  match t.splitOn ":" with
  | ["SC", e, a, b] => do pure (.rowCreate (← e.toNat?) (← decOptNat a) (← decOptNat b))
  | ["SU", e, a, b] => do pure (.rowUpdate (← e.toNat?) (← decOptNat a) (← decOptNat b))
  | ["SD", e] => do pure (.rowDelete (← e.toNat?))
  | ["K", s, c] => do pure (.cursorWrite (← decSide s) (← c.toNat?))
  | ["W", s] => do pure (.walkWrite (← decSide s))
  | ["O"] => some .otherWrite
  | ["P", s, w, p] => do
    let eng ← (if w == "E" then some true else if w == "U" then some false else none)
    pure (.providerWrite (← decSide s) eng (← decOptNat p))
  | ["A", s, i, r] => do pure (.eventApplied (← decSide s) (← i.toNat?) (← decOptNat r))
  | _ => none

def decEff (t : String) : Option NEff :=
  match t.splitOn "=" with
  | [n, b] => do pure ⟨← n.toNat?, ← decEffBody b⟩
  | _ => none

/-- diagnostic only: position and reason of the first rejected effect (the verdict itself is `check`) -/
def firstBad (st : St) (pos : Nat) : Log → Option (Nat × String)
  | [] => none
  | x :: xs =>
    match stepN st x with
    | .ok st' => firstBad st' (pos + 1) xs
    | .error m => some (pos, m)

def decRow (t : String) : Option (Nat × Option Nat × Option Nat) :=
  match t.splitOn ":" with
  | [e, a, b] => do pure (← e.toNat?, ← decOptNat a, ← decOptNat b)
  | _ => none

def decCur (t : String) : Option (Side × Nat) :=
  match t.splitOn ":" with
  | [s, c] => do pure (← decSide s, ← c.toNat?)
  | _ => none

def sameSet {α : Type} [BEq α] (a b : List α) : Bool := a.all b.contains && b.all a.contains

def storedCursors (st : St) : List (Side × Nat) :=
  (match st.l.cursor with | some c => [(false, c)] | none => []) ++ (match st.r.cursor with | some c => [(true, c)] | none => [])

def storedWalks (st : St) : List Side := (if st.l.walked then [false] else []) ++ (if st.r.walked then [true] else [])

def spaced (l : List String) : String := " ".intercalate l

def showRet : Ret → String
  | .finished => "finished" | .punt => "punt" | .raised => "raised"

def showOutcome (o : Outcome) : String :=
  let rec_ := match o.recorded with | none => "~" | some r => s!"{r.oid}:{r.syncHash}:{r.syncPath}"
  let g := match o.peerGuess with | none => "~" | some (a, b) => s!"{a}:{b}"
  s!"{showRet o.ret} {rec_} {g} {encBool o.irrelevant}"

def decInfo (t : String) : Option (Option Info) :=
  if t == "~" then some none else
  match t.splitOn ":" with
  | [o, h, p] => do pure (some ⟨← o.toNat?, ← h.toNat?, ← decOptNat p⟩)
  | _ => none

def decCreateRes (t : String) : Option CreateRes :=
  match t.splitOn ":" with
  | ["ok", o, h, p] => do pure (.ok (← o.toNat?) (← h.toNat?) (← decOptNat p))
  | ["exists"] => some .existsErr
  | ["notfound"] => some .notFoundErr
  | ["name"] => some .nameErr
  | ["other"] => some .otherErr
  | _ => none

def step (toks : List String) : String :=
  match sections toks with
  | [["log"], effs] =>
    match effs.mapM decEff with
    | some log =>
      if check log then s!"ok {log.length}"
      else match firstBad St.init 0 log with
        | some (p, m) => s!"reject {p} {m}"
        | none => "reject ? ?"
    | none => "bad-arg"
  | [["cut", k], effs, rows, curs, walks] =>
    match k.toNat?, effs.mapM decEff, rows.mapM decRow, curs.mapM decCur, walks.mapM decSide with
    | some k, some log, some rows, some curs, some walks =>
      match run St.init (log.take k) with
      | .error m => s!"reject prefix-not-accepted {m}"
      | .ok st =>
        if !consistentB st then "reject storage-claims-unreflected-work"
        else if !sameSet st.rowTriples rows then "reject storage-rows-differ-from-log-replay"
        else if !sameSet (storedCursors st) curs then "reject stored-cursors-differ-from-log-replay"
        else if !sameSet (storedWalks st) walks then "reject stored-walk-markers-differ-from-log-replay"
        else "ok"
    | _, _, _, _, _ => "bad-arg"
  | [["c07", os], evs, l, r] =>
    match decBool os, evs.mapM decLEv, decTree l, decTree r with
    | some os, some evs, some l, some r =>
      if recovered evs os l r then "ok"
      else if !converged l r then s!"reject differ {firstDiff l.core r.core}"
      else if !noLoss evs l r then
        match (live evs).find? (fun t => !(l.tags.contains t || r.tags.contains t)) with
        | some t => s!"reject lost {t}"
        | none => "reject lost ?"
      else if !noDup evs l then "reject duplicated left"
      else if !noDup evs r then "reject duplicated right"
      else "reject conflicted-artefact"
    | _, _, _, _ => "bad-arg"
  | [["create", cr, ip, th, tp, pr]] =>
    match decCreateRes cr, decInfo ip, th.toNat?, tp.toNat?, pr.toInt? with
    | some cr, some ip, some th, some tp, some pr => showOutcome (createSynced cr ip th tp pr)
    | _, _, _, _, _ => "bad-arg"
  | [["split", f, d, e, dh, rh]] =>
    match decBool f, decBool d, decBool e, dh.toNat?, rh.toNat? with
    | some f, some d, some e, some dh, some rh =>
      match handleSplitConflict f d e dh rh with
      | .notDone => "notdone" | .merged => "merged" | .resolverCalled => "resolver"
    | _, _, _, _, _ => "bad-arg"
  | _ => "bad-op"

end CS.Driver.MonC07
