import Csverif.Model.Codec
import Csverif.Driver.Wire
/- Line protocol, codec and persistence layers.

   Values (no spaces): `N` None, `T`/`F` bool, `I<int>`, `D<bits>` float (IEEE-754 pattern, decimal),
   `S<str>` (Wire.encStr of the code points), `B<hex>` (`B-` empty), `L(v,…)` list, `U(v,…)` tuple,
   `M(k:v,…)` dict with keys `S…` `B…` `I…` `O<n>`.

   A side is 14 tokens: otype side hash changed sync_hash sync_path path oid exists temp_file size mtime
   saved_exists force_sync (enums by member value with ' ' written '_', saved `~` = None);
   an entry is `ignored priority storage_id` + side0 + side1  (31 tokens).

   layer `codec`:   `deser <sid> <val>` (dumps, loads, deserialize) | `row <entry>` (the stored row) |
                    `rt <sid> <entry>` (serialize, dumps, loads, deserialize)
   layer `persist`: `reset mock|sqlite` | `new <otype>` | `ws <i> <side> <key> <value>` |
                    `we <i> ignored|priority <v>` | `commit` | `reload` | `dump` |
                    `lo <side> <val>` | `lp <side> <val> <stale>` -/
namespace CS.Driver.Codec
open CS.Codec CS.Persist CS.Wire CS.Storage

def strOfCodes (t : String) : Option String := (decStr t).map String.ofList
def codesOfStr (s : String) : String := encStr s.toList

partial def encVal : Val → String
  | .nil => "N"
  | .bool true => "T"
  | .bool false => "F"
  | .int i => s!"I{i}"
  | .float b => s!"D{b}"
  | .str s => "S" ++ codesOfStr s
  | .bin b => "B" ++ (if b == "" then "-" else b)
  | .arr l xs => (if l then "L(" else "U(") ++ ",".intercalate (xs.map encVal) ++ ")"
  | .map kvs => "M(" ++ ",".intercalate (kvs.map fun (k, v) => encKey k ++ ":" ++ encVal v) ++ ")"
where
  encKey : Key → String
    | .str s => "S" ++ codesOfStr s
    | .bin b => "B" ++ (if b == "" then "-" else b)
    | .int i => s!"I{i}"
    | .other n => s!"O{n}"

def isScalarChar (c : Char) : Bool := c != ',' && c != ':' && c != '(' && c != ')'

def takeScalar (cs : List Char) : String × List Char :=
  (String.ofList (cs.takeWhile isScalarChar), cs.dropWhile isScalarChar)

def parseKey (cs : List Char) : Option (Key × List Char) :=
  match cs with
  | 'S' :: r => let (t, r') := takeScalar r; (strOfCodes t).map fun s => (.str s, r')
  | 'B' :: r => let (t, r') := takeScalar r; some (.bin (if t == "-" then "" else t), r')
  | 'I' :: r => let (t, r') := takeScalar r; t.toInt?.map fun i => (.int i, r')
  | 'O' :: r => let (t, r') := takeScalar r; t.toNat?.map fun n => (.other n, r')
  | _ => none

mutual
partial def parseVal (cs : List Char) : Option (Val × List Char) :=
  match cs with
  | 'N' :: r => some (.nil, r)
  | 'T' :: r => some (.bool true, r)
  | 'F' :: r => some (.bool false, r)
  | 'I' :: r => let (t, r') := takeScalar r; t.toInt?.map fun i => (.int i, r')
  | 'D' :: r => let (t, r') := takeScalar r; t.toNat?.map fun n => (.float n, r')
  | 'S' :: r => let (t, r') := takeScalar r; (strOfCodes t).map fun s => (.str s, r')
  | 'B' :: r => let (t, r') := takeScalar r; some (.bin (if t == "-" then "" else t), r')
  | 'L' :: '(' :: r => (parseItems r []).map fun (xs, r') => (.arr true xs, r')
  | 'U' :: '(' :: r => (parseItems r []).map fun (xs, r') => (.arr false xs, r')
  | 'M' :: '(' :: r => (parsePairs r []).map fun (xs, r') => (.map xs, r')
  | _ => none
partial def parseItems (cs : List Char) (acc : List Val) : Option (List Val × List Char) :=
  match cs with
  | ')' :: r => some (acc.reverse, r)
  | ',' :: r => parseItems r acc
  | _ => match parseVal cs with
    | some (v, r) => parseItems r (v :: acc)
    | none => none
partial def parsePairs (cs : List Char) (acc : List (Key × Val)) : Option (List (Key × Val) × List Char) :=
  match cs with
  | ')' :: r => some (acc.reverse, r)
  | ',' :: r => parsePairs r acc
  | _ => match parseKey cs with
    | some (k, ':' :: r) =>
      match parseVal r with
      | some (v, r') => parsePairs r' ((k, v) :: acc)
      | none => none
    | _ => none
end

def decVal (t : String) : Option Val :=
  match parseVal t.toList with
  | some (v, []) => some v
  | _ => none

def encErr : Err → String
  | .key => "KeyError"
  | .value => "ValueError"
  | .type => "TypeError"
  | .attr => "AttributeError"
  | .assertion => "AssertionError"
  | .overflow => "OverflowError"

def us (s : String) : String := s.replace " " "_"
def unus (s : String) : String := s.replace "_" " "

def encSide (s : Side) : List String :=
  [us s.otype.value, encVal s.side, encVal s.hash, encVal s.changed, encVal s.syncHash, encVal s.syncPath,
   encVal s.path, encVal s.oid, us s.exists_.value, encVal s.tempFile, encVal s.size, encVal s.mtime,
   (match s.savedExists with | none => "~" | some e => us e.value), encVal s.forceSync]

def encEntry (e : Entry) : String :=
  " ".intercalate ([us e.ignored.value, toString e.priority,
    (match e.storageId with | none => "~" | some n => toString n)] ++ encSide e.s0 ++ encSide e.s1)

def decSide (ts : List String) : Option Side :=
  match ts with
  | [ot, sd, h, c, sh, sp, p, o, ex, tf, sz, mt, sv, fs] => do
    let ot ← OType.ofValue (unus ot)
    let ex ← Exists.ofValue (unus ex)
    let sv ← (if sv == "~" then some none else (Exists.ofValue (unus sv)).map some)
    pure { otype := ot, side := ← decVal sd, hash := ← decVal h, changed := ← decVal c, syncHash := ← decVal sh,
           syncPath := ← decVal sp, path := ← decVal p, oid := ← decVal o, exists_ := ex, tempFile := ← decVal tf,
           size := ← decVal sz, mtime := ← decVal mt, savedExists := sv, forceSync := ← decVal fs }
  | _ => none

def decEntry (ts : List String) : Option Entry :=
  match ts with
  | ig :: pr :: sid :: rest =>
    if rest.length != 28 then none else do
      let ig ← Ignore.ofValue (unus ig)
      let pr ← pr.toInt?
      let sid ← (if sid == "~" then some none else sid.toNat?.map some)
      let s0 ← decSide (rest.take 14)
      let s1 ← decSide (rest.drop 14)
      pure { s0 := s0, s1 := s1, ignored := ig, priority := pr, storageId := sid }
  | _ => none

def encRes : Except Err Entry → String
  | .ok e => "ok " ++ encEntry e
  | .error e => "err " ++ encErr e

def stepCodec (toks : List String) : String :=
  match toks with
  | ["deser", sid, v] =>
    match sid.toNat?, decVal v with
    | some sid, some v =>
      match dumps v with
      | .error e => "dumps-err " ++ encErr e
      | .ok row => encRes (Entry.deserialize sid row)
    | _, _ => "bad-arg"
  | "row" :: ent =>
    match decEntry ent with
    | some e => (match e.row with | .ok r => "ok " ++ encVal r | .error x => "err " ++ encErr x)
    | none => "bad-arg"
  | "rt" :: sid :: ent =>
    match sid.toNat?, decEntry ent with
    | some sid, some e =>
      match e.row with
      | .error x => "dumps-err " ++ encErr x
      | .ok r => encRes (Entry.deserialize sid r)
    | _, _ => "bad-arg"
  | _ => "bad-op"

/-! persistence layer -/

def encHErr : HErr → String
  | .py e => encErr e
  | .recursion => "Recursion"
  | .unmodelled => "Unmodelled"

def encDictN (d : Dict Nat) : String :=
  "{" ++ ",".intercalate (d.map fun (k, i) => encVal k ++ ">" ++ toString i) ++ "}"

def encIx (ix : SideIdx) : String :=
  "oids=" ++ encDictN ix.oids ++ " paths={" ++
    ",".intercalate (ix.paths.map fun (k, d) => encVal k ++ ">" ++ encDictN d) ++ "}"

def encNats (l : List Nat) : String := "[" ++ ",".intercalate (l.map toString) ++ "]"

def encRows (b : Backend) : String :=
  "[" ++ ";".intercalate ((rowsOf b).map fun (n, v) => toString n ++ "=" ++ encVal v) ++ "]"

def encState (st : St) : String :=
  "ents=[" ++ " | ".intercalate (st.ents.map encEntry) ++ "] L:" ++ encIx st.ix0 ++ " R:" ++ encIx st.ix1 ++
    " cs=" ++ encNats st.changeset ++ " dirty=" ++ encNats st.dirty ++ " rows=" ++ encRows st.store ++
    " ghost=" ++ encNats st.silent

def decSd (t : String) : Option Sd :=
  if t == "0" then some false else if t == "1" then some true else none

def decSideWrite (key v : String) : Option SideWrite :=
  let plain := fun (k : SKey) => (decVal v).map fun x => SideWrite.plain k (.val x)
  match key with
  | "otype" => (OType.ofValue (unus v)).map fun o => .plain .otype (.otype o)
  | "hash" => plain .hash
  | "changed" => plain .changed
  | "sync_hash" => plain .syncHash
  | "sync_path" => plain .syncPath
  | "path" => plain .path
  | "oid" => plain .oid
  | "temp_file" => plain .tempFile
  | "size" => plain .size
  | "force_sync" => plain .forceSync
  | "mtime" => (decVal v).map .mtime
  | "exists" =>
    match v.toList with
    | 'E' :: r => (Exists.ofValue (unus (String.ofList r))).map fun e => .exists_ (.enum e)
    | 'R' :: r => (decVal (String.ofList r)).map fun x => .exists_ (.raw x)
    | _ => none
  | _ => none

def encUnit : Except HErr Unit → String
  | .ok _ => "ok"
  | .error e => "err " ++ encHErr e

def freshBackend (t : String) : Option Backend :=
  if t == "mock" then some (.mock { rows := [], cursor := 0 })
  else if t == "sqlite" then some (.sqlite [])
  else none

def stepPersist (st : St) (toks : List String) : St × String :=
  match toks with
  | ["reset", b] =>
    match freshBackend b with
    | some b => (St.init b, "ok")
    | none => (st, "bad-arg")
  | ["new", o] =>
    match OType.ofValue (unus o) with
    | some o => let (_, s) := step st (.new o); (s, s!"ent {st.ents.length}")
    | none => (st, "bad-arg")
  | ["ws", i, sd, key, v] =>
    match i.toNat?, decSd sd, decSideWrite key v with
    | some i, some sd, some w =>
      if i < st.ents.length then let (r, s) := step st (.write (.side i sd w)); (s, encUnit r) else (st, "bad-ent")
    | _, _, _ => (st, "bad-arg")
  | ["we", i, "ignored", v] =>
    match i.toNat?, Ignore.ofValue (unus v) with
    | some i, some g =>
      if i < st.ents.length then let (r, s) := step st (.write (.ent i (.ignored g))); (s, encUnit r) else (st, "bad-ent")
    | _, _ => (st, "bad-arg")
  | ["we", i, "priority", v] =>
    match i.toNat?, v.toInt? with
    | some i, some p =>
      if i < st.ents.length then let (r, s) := step st (.write (.ent i (.priority p))); (s, encUnit r) else (st, "bad-ent")
    | _, _ => (st, "bad-arg")
  | ["commit"] => let (r, s) := step st .commit; (s, encUnit r)
  | ["reload"] => let s := reload st.store; ({ s with punt0 := st.punt0, punt1 := st.punt1 }, "ok")
  | ["dump"] => (st, encState st)
  | ["lo", sd, k] =>
    match decSd sd, decVal k with
    | some sd, some k => (st, match lookupOid st sd k with | none => "~" | some i => toString i)
    | _, _ => (st, "bad-arg")
  | ["lp", sd, k, stale] =>
    match decSd sd, decVal k, decBool stale with
    | some sd, some k, some stale => (st, encNats (lookupPath st sd k stale))
    | _, _, _ => (st, "bad-arg")
  | _ => (st, "bad-op")

def initPersist : St := St.init (.mock { rows := [], cursor := 0 })

end CS.Driver.Codec
