import Csverif.Model.EngineMore
import Csverif.Model.EngineConflict
import Csverif.Driver.EngineBase
/- Driver for ENG part 3 (part of layer `engine`; ops start with `y`).

  `ycn <stem> <ext> <taken>*`                          strings in Wire.encStr            → `<name> <tries>` | `stuck`
  `ycr <cs T/F> <path> <present T/F> <taken>*`                                            → `valueError` | `absent` | `renamed <path> <tries>` | `stuck`
  `yfix <r|a|v> <oldIsMine> <otherHolds> <tempRename>`                                    → `<T/F> nothing|this<T/F>|other<T/F>`
  `yrr <r|a|v> <side>`                                                                    → `<T/F> <side>`
  `yfnf <L|R> <L> <R> <ord> <ign> <prio> <parent: - | L,R,ord,ign,prio> <parentThere> <parentSynced>`
                                                                                          → `<out> | <effs> | <parent entry or ->`
  `ydj <cOtype> <sOtype> <infoThere> <peer>*`   peer = <ex><oidMatch><hashSynced><changed><otype>   → `<T/F> | <effs>`
  `yff <peer>*`                                  peer = <ex><otype><infoThere>                     → `<idx or ~> | <gone,…>`
  `ymk <prio> <other>*`                          other = <cOtype><sOtype><cEx><sEx>                → `<d1> | punt|proceedT|proceedF | <d2>`
  `yhc <L> <R> <ord> <ign> <prio> <dl o f m t x><tempGone><sameHash><rc o t c>`
                                                 → `<out> | <effs> | <defer entry> | <replace entry>`                              -/
namespace CS.Driver.EngineMore
open CS.Engine CS.Engine.More CS.Engine.Conflict CS.Wire CS.Driver.EngineBase
open CS.Hints (Ex OT Ign)

def encStrL (s : List Char) : String := encStr s

def decStrs (ts : List String) : Option (List (List Char)) := ts.mapM decStr

def encCRen : CRen → String
  | .valueError => "valueError" | .absent => "absent" | .stuck => "stuck"
  | .renamed p k => s!"renamed {encStr p} {k}"

def decCRenKind (t : String) : Option CRen :=
  if t == "r" then some (.renamed [] 1) else if t == "a" then some .absent else if t == "v" then some .valueError else none

def bch (c : Char) : Option Bool := decB c
def bs (b : Bool) : String := String.singleton (encB b)

def encFnfEff : FnfEff → String
  | .infoParent => "ipar" | .adoptParent => "adopt" | .infoParentOid => "ioid"

def encDjEff : DjEff → String
  | .discard i => s!"disc{i}" | .infoPath => "ip" | .merge i => s!"merge{i}" | .splitConflict i => s!"hsc{i}"

def listOr (l : List String) : String := if l.isEmpty then "-" else ",".intercalate l

def decPeer (t : String) : Option Peer :=
  match t.toList with
  | [a, b, c, d, e] => do pure ⟨← decEx a, ← bch b, ← bch c, ← bch d, ← decOT e⟩
  | _ => none

def decFf (t : String) : Option FfPeer :=
  match t.toList with
  | [a, b, c] => do pure ⟨← decEx a, ← decOT b, ← bch c⟩
  | _ => none

def decOther (t : String) : Option MkOther :=
  match t.toList with
  | [a, b, c, d] => do pure ⟨← decOT a, ← decOT b, ← decEx c, ← decEx d⟩
  | _ => none

def decEntry5 (l r ord ign prio : String) : Option Entry := do
  pure { l := ← decSide l, r := ← decSide r, lLeR := ← (ord.toList.head?).bind decB, ign := ← decIgn ign, prio := ← prio.toInt? }

def encCEff : CEff → String
  | .split => "split" | .getLatest => "gl" | .download => "dl" | .hashData => "hd" | .resolve => "resolve"

def step (toks : List String) : String :=
  match toks with
  | "ycn" :: stem :: ext :: taken =>
    match decStr stem, decStr ext, decStrs taken with
    | some s, some e, some t =>
      match conflictName s e t with
      | some (n, k) => s!"{encStr n} {k}"
      | none => "stuck"
    | _, _, _ => "bad-arg"
  | "ycr" :: cs :: path :: present :: taken =>
    match decBool cs, decStr path, decBool present, decStrs taken with
    | some cs, some p, some pr, some t => encCRen (conflictRename (CS.Path.mkCfg cs false) p pr t)
    | _, _, _, _ => "bad-arg"
  | ["yfix", k, a, b, c] =>
    match decCRenKind k, decBool a, decBool b, decBool c with
    | some r, some a, some b, some c =>
      let (res, tgt) := renameToFix r a b c
      bs res ++ " " ++ (match tgt with | .nothing => "nothing" | .thisEntry t => "this" ++ bs t | .otherEntry t => "other" ++ bs t)
    | _, _, _, _ => "bad-arg"
  | ["yrr", k, s] =>
    match decCRenKind k, decSide s with
    | some r, some s => let (b, s') := resolveRename r s; bs b ++ " " ++ encSide s'
    | _, _ => "bad-arg"
  | ["yfnf", sd, l, r, ord, ign, prio, par, pt, ps] =>
    let parent : Option (Option Entry) :=
      if par == "-" then some none
      else match par.splitOn "," with
        | [a, b, c, d, e] => (decEntry5 a b c d e).map some
        | _ => none
    match decSd sd, decEntry5 l r ord ign prio, parent, decBool pt, decBool ps with
    | some c, some e, some parent, some pt, some ps =>
      let res := fnfHandler e c parent pt ps
      s!"{encOut res.out} | {listOr (res.effs.map encFnfEff)} | " ++ (match res.parent with | none => "-" | some p => encEntry p)
    | _, _, _, _, _ => "bad-arg"
  | "ydj" :: co :: so :: it :: peers =>
    match (co.toList.head?).bind decOT, (so.toList.head?).bind decOT, decBool it, peers.mapM decPeer with
    | some co, some so, some it, some ps =>
      let (b, fx) := checkDisjoint co so ps it
      s!"{bs b} | {listOr (fx.map encDjEff)}"
    | _, _, _, _ => "bad-arg"
  | "yff" :: peers =>
    match peers.mapM decFf with
    | some ps =>
      let (i, gone) := folderFileConflict ps
      (match i with | none => "~" | some i => toString i) ++ " | " ++ listOr (gone.map toString)
    | none => "bad-arg"
  | "ymk" :: prio :: others =>
    match prio.toInt?, others.mapM decOther with
    | some p, some os =>
      let (d1, h, d2) := mkdirHead os p
      listOr (d1.map toString) ++ " | " ++ (match h with | .punt => "punt" | .proceed r => "proceed" ++ bs r) ++ " | " ++ listOr (d2.map toString)
    | _, _ => "bad-arg"
  | ["yhc", l, r, ord, ign, prio, orc] =>
    match decEntry5 l r ord ign prio, orc.toList with
    | some e, [a, b, c, d] =>
      let dl : Option Conflict.DlAns := match a with | 'o' => some .ok | 'f' => some .fail | 'm' => some .failMissing | 't' => some .temp | 'x' => some .corrupt | _ => none
      let rc : Option RcAns := match d with | 'o' => some .ok | 't' => some .temp | 'c' => some .cloud | _ => none
      match dl, bch b, bch c, rc with
      | some dl, some tg, some sh, some rc =>
        let res := hashConflictHandler ⟨dl, tg, sh, rc⟩ e
        let out := match res.out with | .ret b => bs b | .raised x => encExc x
        s!"{out} | {listOr (res.effs.map encCEff)} | {encEntry res.ents.defer} | {encEntry res.ents.replace}"
      | _, _, _, _ => "bad-arg"
    | _, _ => "bad-arg"
  | _ => "bad-line"

end CS.Driver.EngineMore
