/-
Wire format shared by all driver layers (one operation per line in, one canonical line out).
A string is sent as its code points in decimal joined by '.', the empty string as "-",
Python `None` as "~".  Booleans are "T"/"F".
-/
namespace CS.Wire

abbrev Str := List Char

def encStr (s : Str) : String :=
  match s with
  | [] => "-"
  | _ => ".".intercalate (s.map (fun c => toString c.toNat))

def decStr (t : String) : Option Str :=
  if t == "-" then some []
  else (t.splitOn ".").mapM (fun p => p.toNat?.map Char.ofNat)

def encOptStr : Option Str → String
  | none => "~"
  | some s => encStr s

def decOptStr (t : String) : Option (Option Str) :=
  if t == "~" then some none else (decStr t).map some

def encBool (b : Bool) : String := if b then "T" else "F"

def decBool (t : String) : Option Bool :=
  if t == "T" then some true else if t == "F" then some false else none

def tokens (line : String) : List String :=
  (line.trimAscii.toString.splitOn " ").filter (· ≠ "")

end CS.Wire
