import Csverif.Model.Event
import Csverif.Model.Durable
import Csverif.Model.Spec.Restart
import Csverif.Driver.Monitor
/-
Driver layers for C06.

`event`  (stateful): one operation of the EventManager world per line, answers the observable state
          after it.  It executes `CS.Event.apply` / `doAll` / `finishStop` / `finishCrash`, the very
          definitions Props/C06.lean is about.
            reset <cfg: n|p|b> <events in feed> <provider position> <objs> <rootSet T|F>
            user <objs> | setroot | expire <d> | start | stop | do | dostop <k> | docrash <k> | busy | forget
            corrupt | delcursor | delwalk | provcur <v> | unsetroot
          answer:  cur=<~|bad|int> walked=<T|F> up=<T|F> val=<T|F|-> nw=<T|F|-> first=<T|F|-> mem=<~|bad|int|->
                   pos=<int> q=<ints,|-> fresh=<int|w ,…|->

`monc06` (stateless): one obligation per line at a quiescence of the real engine after restarts.
          `c01 …` `c02 …` `c03 …` `c04 …` are handed to Driver/Monitor.lean unchanged;
            c06r | <tags of files synchronised before the stop and untouched while down> | <tags the engine
                   created/uploaded after the restart>           -> `noRetransfer`
            c06a | <tree left> | <tree right>                   -> `noArtefacts`
-/
namespace CS.Driver.MonC06
open CS.Event CS.Wire

def encCV : Option CVal → String
  | none => "~"
  | some .bad => "bad"
  | some (.int i) => toString i

def encTr : Tr → String
  | .ev i => toString i
  | .w => "w"

def encList (l : List String) : String := if l.isEmpty then "-" else ",".intercalate l

def observe (s : St) : String :=
  let memPart := match s.mem with
    | none => "up=F val=- nw=- first=- mem=- q=-"
    | some m => s!"up=T val={encBool m.validated} nw={encBool m.needWalk} first={encBool m.firstDo} mem={encCV m.cursor} q={encList (m.queue.map toString)}"
  s!"cur={encCV s.store.cursor} walked={encBool s.store.walked} {memPart} pos={s.prov.cur} fresh={encList (s.ghost.fresh.reverse.map encTr)}"

def decCfg (t : String) : Option RootCfg :=
  if t == "n" then some .noRoot else if t == "p" then some .pathOnly else if t == "b" then some .both else none

def fuelOf (s : St) : Nat := measure s + 4

def stepEvent (s : St) (toks : List String) : St × String :=
  let ret (s' : St) : St × String := (s', observe s')
  match toks with
  | ["reset", c, n, p, o, r] =>
    match decCfg c, n.toNat?, p.toInt?, o.toNat?, decBool r with
    | some c, some n, some p, some o, some r => ret (init c n p o r)
    | _, _, _, _, _ => (s, "bad-arg")
  | ["user", o] => match o.toNat? with
    | some o => ret (apply s (.user o))
    | none => (s, "bad-arg")
  | ["setroot"] => ret (apply s .setRoot)
  | ["expire", d] => match d.toNat? with
    | some d => ret (apply s (.expire d))
    | none => (s, "bad-arg")
  | ["start"] => ret (apply s .start)
  | ["stop"] => ret (apply s .stop)
  | ["do"] => ret (doAll s)
  | ["dostop", k] => match k.toNat? with
    | some k =>
      let s1 := apply s .callDo
      ret (apply (finishStop (fuelOf s1) k s1) .stop)
    | none => (s, "bad-arg")
  | ["docrash", k] => match k.toNat? with
    | some k =>
      let s1 := apply s .callDo
      ret (apply (finishCrash (fuelOf s1) k s1) .stop)
    | none => (s, "bad-arg")
  | ["busy"] => ret (apply s .busy)
  | ["forget"] => ret (apply s .forget)
  | ["corrupt"] => ret (apply s .corrupt)
  | ["delcursor"] => ret (apply s .delCursor)
  | ["delwalk"] => ret (apply s .delWalk)
  | ["provcur", v] => match v.toInt? with
    | some v => ret (apply s (.provCur v))
    | none => (s, "bad-arg")
  | ["unsetroot"] => ret (apply s .unsetRoot)
  | _ => (s, "bad-op")

def eventInit : St := init .both 0 (-1) 0 false

/-! ### the engine-level monitor -/
open CS.Spec CS.Driver.Monitor

def decNats (ts : List String) : Option (List Nat) := ts.mapM (·.toNat?)

def stepMon (toks : List String) : String :=
  match sections toks with
  | [["c06r"], unchanged, transferred] =>
    match decNats unchanged, decNats transferred with
    | some u, some t =>
      match retransferred u t with
      | [] => "ok"
      | x :: _ => s!"reject retransferred {x}"
    | _, _ => "bad-arg"
  | [["c06a"], l, r] =>
    match decTree l, decTree r with
    | some l, some r =>
      if noArtefacts l r then "ok"
      else match (l ++ r).find? (fun e => isConflicted e.1) with
        | some e => s!"reject conflicted-artefact {encPath e.1}"
        | none => "reject conflicted-artefact ?"
    | _, _ => "bad-arg"
  | _ => CS.Driver.Monitor.step toks

/-! ### layer `durable`: one recorded write-order trace of the real EventManager per line

tokens: `wb` walk begins, `wr:<k>` a walk item made an entry dirty, `pe:<i>` feed event i made an entry dirty, `cm` the dirty set was
written back, `mk` / `dm` walk marker written / deleted, `cu:<p>` cursor row written, `ft` the step ended in an error, `rs` engine
dropped and a new one started, `xc` / `xw` cursor / marker row lost from outside, `fg` forget.
answer: `ok` or `reject <index> <token> order|coverage` (first breach of the write-order discipline / of durable coverage). -/
open CS.Durable in
def decStep (t : String) : Option CS.Durable.Step :=
  match t.splitOn ":" with
  | ["wb"] => some .walkBegin
  | ["wr", k] => k.toNat?.map .walkRecord
  | ["cm"] => some .commit
  | ["mk"] => some .writeMarker
  | ["dm"] => some .dropMarker
  | ["cu", p] => p.toInt?.map .writeCursor
  | ["pe", i] => i.toInt?.map .processEvent
  | ["ft"] => some .fault
  | ["rs"] => some .restart
  | ["xc"] => some .extCursorLost
  | ["xw"] => some .extMarkerLost
  | ["fg"] => some .forget
  | _ => none

def stepDurable (toks : List String) : String :=
  match toks.mapM decStep with
  | none => "bad-arg"
  | some steps =>
    match CS.Durable.monitor {} 0 steps with
    | none => "ok"
    | some (n, _, order) => s!"reject {n} {toks.getD n "?"} {if order then "order" else "coverage"}"

end CS.Driver.MonC06
