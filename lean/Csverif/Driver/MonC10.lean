import Csverif.Model.Spec.Faults
import Csverif.Driver.Wire
/- Line protocol `c10` (one obligation per line in, one canonical line out).  It executes the definitions of
   Model/Spec/Faults.lean that the theorems of Props/C10.lean are about.

   classes:  Python class names (`CloudTemporaryError`, ..., `Exception`, `BaseException`, `_BackoffError`),
             `OtherException` (any other Exception subclass), `OtherBase` (any other BaseException), `none`.
   kinds:    NotificationType member names (`TEMPORARY_ERROR`, ...).        sources: `LOCAL` `REMOTE` `SYNC`.

   nfe <cls>                         → <kind> | none                                   (notify_from_exception)
   sub <cls> <cls>                   → T | F                                            (issubclass)
   sync raised <cls>                 → <stepout> done=F                                 (_sync_one_entry)
   sync returned <T|F> <T|F>         → <stepout> done=<T|F>
   roots <cls>                       → <stepout>                                        (_validate_provider_roots)
   change <cls>                      → <stepout>                                        (SyncManager.do, path lookup in state.change)
   event <T|F has-nmgr> <cls>        → <stepout>                                        (EventManager.do)
   loop <T|F got-done> <cls|none>    → S | N | B | E | X                                (Runnable.run's classification)
   fault <S|E0|E1> <cls> <escaped cls|none> <src:kind>*   → ok | reject ...            (one injected fault of a run)
   esc <cls|none>                    → ok | reject escaped <cls>                        (a step without injected fault)
   queue <steps> <id:prio:fails|~>*  → synced=<ids> queue=<id:prio:fails>*              (the punting work queue)
   pick <id:prio>*                   → <id> | none                                      (lowest priority, first listed)
   <stepout> = notes=<kind,...|-> punts=<n> commits=<n> cursor=<T|F> walk=<T|F> forgot=<T|F> auth=<T|F> raised=<cls|none> -/
namespace CS.Driver.MonC10
open CS.Faults CS.Wire

def clsNames : List (String × Exc) :=
  [("BaseException", .baseException), ("Exception", .exception_), ("CloudException", .cloudException),
   ("CloudFileNotFoundError", .fileNotFound), ("CloudTemporaryError", .temporary), ("CloudFileNameError", .fileName),
   ("CloudOutOfSpaceError", .outOfSpace), ("CloudRootMissingError", .rootMissing),
   ("CloudResourceModifiedError", .resourceModified), ("CloudFileExistsError", .fileExists), ("CloudTokenError", .token),
   ("CloudDisconnectedError", .disconnected), ("CloudCursorError", .cursor), ("CloudNamespaceError", .namespace_),
   ("CloudTooManyRetriesError", .tooManyRetries), ("CloudCorruptError", .corrupt), ("_BackoffError", .backoffError),
   ("OtherException", .otherException), ("OtherBase", .otherBase)]

def decCls (t : String) : Option Exc := (clsNames.find? (·.1 == t)).map (·.2)
def encCls (e : Exc) : String := ((clsNames.find? (fun p => decide (p.2 = e))).map (·.1)).getD "?"

def decOptCls (t : String) : Option (Option Exc) := if t == "none" then some none else (decCls t).map some
def encOptCls : Option Exc → String
  | none => "none"
  | some e => encCls e

def kindNames : List (String × NKind) :=
  [("DISCONNECTED_ERROR", .disconnectedError), ("OUT_OF_SPACE_ERROR", .outOfSpaceError), ("FILE_NAME_ERROR", .fileNameError),
   ("NAMESPACE_ERROR", .namespaceError), ("ROOT_MISSING_ERROR", .rootMissingError), ("TEMPORARY_ERROR", .temporaryError)]

def decKind (t : String) : Option NKind := (kindNames.find? (·.1 == t)).map (·.2)
def encKind (k : NKind) : String := ((kindNames.find? (fun p => decide (p.2 = k))).map (·.1)).getD "?"

def decSource : String → Option Source
  | "LOCAL" => some .local_ | "REMOTE" => some .remote | "SYNC" => some .sync | _ => none

def decSite : String → Option Site
  | "S" => some .syncEntry | "E0" => some (.event 0) | "E1" => some (.event 1) | _ => none

def encOut (o : StepOut) : String :=
  let notes := if o.notes.isEmpty then "-" else ",".intercalate (o.notes.map encKind)
  s!"notes={notes} punts={o.punts} commits={o.commits} cursor={encBool o.cursorReset} walk={encBool o.needWalk} forgot={encBool o.walkForgot} auth={encBool o.needAuth} raised={encOptCls o.raised}"

def encOutcome : Runnable.Outcome → String
  | .success => "S" | .noop => "N" | .backoffReq => "B" | .exc => "E" | .baseExc => "X" | .noopThenFail => "F"

/-- a delivered notification `SRC:KIND`; kinds the classifier never produces (STARTED, ...) are dropped -/
def decNote (t : String) : Option (Option (Source × NKind)) :=
  match t.splitOn ":" with
  | [s, k] => match decSource s with
    | none => none
    | some src => some ((decKind k).map (fun kk => (src, kk)))
  | _ => none

def decQEnt (t : String) : Option QEnt :=
  match t.splitOn ":" with
  | [i, p, f] => do
    let id ← i.toNat?
    let prio ← p.toInt?
    let fails ← (if f == "~" then some none else f.toNat?.map some)
    pure ⟨id, prio, fails⟩
  | _ => none

def encQEnt (e : QEnt) : String :=
  s!"{e.id}:{e.prio}:" ++ (match e.fails with | none => "~" | some k => toString k)

def explainFault (f : FaultObs) : String :=
  let p := predict f.site f.exc
  if f.escaped != p.raised then s!"reject escaped {encOptCls f.escaped} model-says {encOptCls p.raised}"
  else match NKind.all.find? (fun k => matchesKind f.exc k && !f.notes.contains (f.site.source, k)) with
    | some k => s!"reject unreported {encKind k}"
    | none => match p.notes.find? (fun k => !f.notes.contains (f.site.source, k)) with
      | some k => s!"reject model-predicts-notification {encKind k}"
      | none => "reject not-reported"

def step (toks : List String) : String :=
  match toks with
  | ["nfe", c] => match decCls c with
    | some e => ((notifyFromException e).map encKind).getD "none"
    | none => "bad-arg"
  | ["sub", a, b] => match decCls a, decCls b with
    | some a, some b => encBool (isSub a b)
    | _, _ => "bad-arg"
  | ["sync", "raised", c] => match decCls c with
    | some e => let r := syncOneEntry (.raised e); encOut r.1 ++ " done=" ++ encBool r.2
    | none => "bad-arg"
  | ["sync", "returned", a, b] => match decBool a, decBool b with
    | some a, some b => let r := syncOneEntry (.returned a b); encOut r.1 ++ " done=" ++ encBool r.2
    | _, _ => "bad-arg"
  | ["roots", c] => match decCls c with
    | some e => encOut (syncDo .roots e)
    | none => "bad-arg"
  | ["change", c] => match decCls c with
    | some e => encOut (syncDo .change e)
    | none => "bad-arg"
  | ["event", b, c] => match decBool b, decCls c with
    | some b, some e => encOut (eventDo b e)
    | _, _ => "bad-arg"
  | ["loop", g, c] => match decBool g, decOptCls c with
    | some g, some r => encOutcome (loopOutcome g r)
    | _, _ => "bad-arg"
  | "fault" :: site :: c :: esc :: notes => match decSite site, decCls c, decOptCls esc, notes.mapM decNote with
    | some site, some e, some esc, some ns =>
      let f : FaultObs := ⟨site, e, ns.filterMap id, esc⟩
      if faultOk f && faultReported f then "ok" else explainFault f
    | _, _, _, _ => "bad-arg"
  | ["esc", c] => match decOptCls c with
    | some r => if escapeOk r then "ok" else s!"reject escaped {encOptCls r}"
    | none => "bad-arg"
  | "queue" :: n :: ents => match n.toNat?, ents.mapM decQEnt with
    | some n, some q =>
      let s := qRun n ⟨q, []⟩
      "synced=" ++ (if s.synced.isEmpty then "-" else ",".intercalate (s.synced.map toString)) ++
        " queue=" ++ (if s.q.isEmpty then "-" else " ".intercalate (s.q.map encQEnt))
    | _, _ => "bad-arg"
  | "pick" :: ents => match (ents.map (· ++ ":~")).mapM decQEnt with
    | some q => match minPrio q with
      | none => "none"
      | some m => ((q.find? (fun e => decide (e.prio = m))).map (fun e => toString e.id)).getD "none"
    | none => "bad-arg"
  | _ => "bad-op"

end CS.Driver.MonC10
