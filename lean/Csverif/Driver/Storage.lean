import Csverif.Model.Storage
import Csverif.Driver.Wire
/- Line protocol, storage layer.  Values and tags are opaque tokens (no spaces).
   `create T V` | `update T V E` | `delete T E` | `read T E` | `readall T|~` | `reopen` ; E = nat or `~`.
   sqlite layer only: `readpaged T|~ P B` = the model's keyset-paged `read_all` with page size P and cursor rule
   `pos := last id + B` (Model/Storage.lean `pagedReadAll`; B = 0 is the correct rule).
   layer `sqliteconn` (Model/Storage.lean `namespace Conn`, configuration of the code: every connection autocommit):
   `reset` | `resetcfg I R` (I, R = T/F: autocommit of the first / of a replacement connection) | `<op>` |
   `fault N F K <op>` (the next N executes raise OperationalError, F = T: fetchall raises; K = how many executes of the
   call run before the first fault - only `reopen` issues more than one - is the harness's business and ignored here) | `freshall T|~` | `lock` | `unlock`;
   answers as above, `!OperationalError`, `busy`. -/
namespace CS.Driver.Storage
open CS.Storage CS.Wire

def decEid (t : String) : Option (Option Nat) :=
  if t == "~" then some none else t.toNat?.map some

def parseOp (toks : List String) : Option (Op String) :=
  match toks with
  | ["create", t, v] => some (.create t v)
  | ["update", t, v, e] => (decEid e).map (fun e => .update t v e)
  | ["delete", t, e] => (decEid e).map (fun e => .delete t e)
  | ["read", t, e] => (decEid e).map (fun e => .read t e)
  | ["readall", t] => some (.readAll (if t == "~" then none else some t))
  | ["reopen"] => some .reopen
  | _ => none

def encRes : Res String → String
  | .id n => s!"id {n}"
  | .count n => s!"count {n}"
  | .unit => "unit"
  | .val none => "val ~"
  | .val (some v) => s!"val {v}"
  | .rows rs => "rows " ++ " ".intercalate (rs.map (fun (t, n, v) => s!"{t}:{n}:{v}"))
  | .valueError => "ValueError"

def stepSqlite (t : Sqlite.Table String) (toks : List String) : Sqlite.Table String × String :=
  match toks with
  | ["readpaged", tg, p, b] =>
    match p.toNat?, b.toNat? with
    | some p, some b => (t, encRes (Sqlite.pagedReadAll t (if tg == "~" then none else some tg) p b))
    | _, _ => (t, "bad-op")
  | _ =>
    match parseOp toks with
    | none => (t, "bad-op")
    | some op => let (t', r) := Sqlite.step t op; (t', encRes r)

def stepMock (s : Mock.St String) (toks : List String) : Mock.St String × String :=
  match toks with
  | ["reset"] => ({ rows := [], cursor := 0 }, "unit")
  | _ =>
    match parseOp toks with
    | none => (s, "bad-op")
    | some op => let (s', r) := Mock.step s op; (s', encRes r)

def stepSqliteR (t : Sqlite.Table String) (toks : List String) : Sqlite.Table String × String :=
  match toks with
  | ["reset"] => ([], "unit")
  | _ => stepSqlite t toks

def encCRes : Conn.CRes String → String
  | .ok r => encRes r
  | .operationalError => "!OperationalError"
  | .busy => "busy"

structure ConnD where
  cfg : Conn.Cfg
  st  : Conn.St String

def connInit : ConnD := { cfg := { initAuto := true, reconnAuto := true }, st := Conn.init { initAuto := true, reconnAuto := true } }

def stepConn (d : ConnD) (toks : List String) : ConnD × String :=
  let go (c : Conn.COp String) : ConnD × String :=
    let (s', r) := Conn.step d.cfg d.st c
    ({ d with st := s' }, encCRes r)
  match toks with
  | ["reset"] => (connInit, "unit")
  | ["resetcfg", i, r] =>
    let cfg : Conn.Cfg := { initAuto := i == "T", reconnAuto := r == "T" }
    ({ cfg := cfg, st := Conn.init cfg }, "unit")
  | ["freshall", t] => go (.fresh (if t == "~" then none else some t))
  | ["lock"] => go .lock
  | ["unlock"] => go .unlock
  | "fault" :: n :: f :: _k :: rest =>
    match n.toNat?, parseOp rest with
    | some n, some op => go (.call op n (f == "T"))
    | _, _ => (d, "bad-op")
  | _ =>
    match parseOp toks with
    | none => (d, "bad-op")
    | some op => go (.call op 0 false)

end CS.Driver.Storage
