import Csverif.Model.Resolver
import Csverif.Driver.Wire
/- Driver layers for C05.

Layer `resolver` (differential tie of the decision tables; one line in, one canonical line out):
  `safe <s0> <t0> <t1> <behaviour>`      s0 ∈ L|R (side of fhs[0]), t ∈ F|D, behaviour =
        `none` | `falsy` | `truthy` | `tuple <n> <first> <keep>` | `raises` | `temp`, first ∈ h0|h1|d<tag>|x
     → `pair h0|h1|d<tag> <keep> <called>` | `reraised <called>`   (the harness writes `asis` when the real function hands back a non-pair)
  `hc <lhash> <lsync> <lpath> <rhash> <rsync> <rpath>`   (each `~` or a number; 0 = falsy value)  → `T` | `F`
  `step <s0> <c0> <c1> <fh> <keep>`      immediate effect of `resolve_conflict` on (path content, parked) per side
     → `L <main> [<conf>,..] R <main> [<conf>,..] <pending>`

Layer `monc05` (trace refinement; sections separated by `|`):
  `c05 | <base|~> <cl> <cr> | temp <k> <answer> | <call>* | <quiet> <faults> | <main|~> <conf>* | <main|~> <conf>*`
     answer = `pick L|R T|F` | `merged <tag> T|F` | `none` | `raises` | `nontuple T|F` | `wronglen <n>` | `notfile T|F`
     call   = `<s0><s1>:<bytes0|~>:<bytes1|~>:<pathsOk>:<actualL>:<actualR>`  (actual = what the side held at call time)
  → `ok` | `reject <reason>`                                                                                     -/
namespace CS.Driver.MonC05
open CS.Resolver CS.Wire

def decSide (t : String) : Option Side :=
  if t == "L" then some .loc else if t == "R" then some .rem else none

def decOType (t : String) : Option OType :=
  if t == "F" then some .file else if t == "D" then some .dir else none

def decOptNat (t : String) : Option (Option Nat) := if t == "~" then some none else t.toNat?.map some

def decFirst (t : String) : Option (First Nat) :=
  if t == "h0" then some (.handle false)
  else if t == "h1" then some (.handle true)
  else if t == "x" then some .notFile
  else if t.startsWith "d" then (t.drop 1).toString.toNat?.map .data
  else none

def decBehaviour : List String → Option (Behaviour Nat)
  | ["none"] => some (.returns .none)
  | ["falsy"] => some (.returns .falsy)
  | ["truthy"] => some (.returns .truthyNonTuple)
  | ["raises"] => some .raises
  | ["temp"] => some .raisesTemp
  | ["tuple", n, f, k] => do pure (.returns (.tuple (← n.toNat?) (← decFirst f) (← decBool k)))
  | _ => none

def encChosen : Chosen Nat → String
  | .handle false => "h0"
  | .handle true => "h1"
  | .data d => s!"d{d}"

def encSafe : SafeRes Nat × Bool → String
  | (.pair fh keep, c) => s!"pair {encChosen fh} {encBool keep} {encBool c}"
  | (.reraised, c) => s!"reraised {encBool c}"

def encOptNat : Option Nat → String
  | none => "~"
  | some n => toString n

def encSideSt (s : SideSt Nat) : String :=
  encOptNat s.main ++ " [" ++ ",".intercalate (s.conf.map toString) ++ "]"

def encPending : Pending Nat → String
  | .nothing => "nothing"
  | .propagate .loc => "propagate-L"
  | .propagate .rem => "propagate-R"
  | .reconflict a b => s!"reconflict {a} {b}"

def decChosen (t : String) : Option (Chosen Nat) :=
  match decFirst t with
  | some (.handle i) => some (.handle i)
  | some (.data d) => some (.data d)
  | _ => none

def stepTie (toks : List String) : String :=
  match toks with
  | "safe" :: s0 :: t0 :: t1 :: rest =>
    match decSide s0, decOType t0, decOType t1, decBehaviour rest with
    | some s0, some t0, some t1, some b => encSafe (safeCall s0 t0 t1 b)
    | _, _, _, _ => "bad-arg"
  | ["hc", a, b, c, d, e, f] =>
    match decOptNat a, decOptNat b, decOptNat c, decOptNat d, decOptNat e, decOptNat f with
    | some a, some b, some c, some d, some e, some f => encBool (hashConflict ⟨a, b, c⟩ ⟨d, e, f⟩)
    | _, _, _, _, _, _ => "bad-arg"
  | ["step", s0, c0, c1, fh, keep] =>
    match decSide s0, c0.toNat?, c1.toNat?, decChosen fh, decBool keep with
    | some s0, some c0, some c1, some fh, some keep =>
      let p0 : Pair Nat := Pair.set (Pair.set ⟨⟨none, []⟩, ⟨none, []⟩⟩ s0 ⟨some c0, []⟩) s0.other ⟨some c1, []⟩
      let r := resolveStep p0 s0 c0 c1 fh keep
      s!"L {encSideSt r.1.loc} R {encSideSt r.1.rem} {encPending r.2}"
    | _, _, _, _, _ => "bad-arg"
  | _ => "bad-op"

/-- split a token list into sections at "|" -/
def sections (toks : List String) : List (List String) :=
  let rec go (cur : List String) (acc : List (List String)) : List String → List (List String)
    | [] => (cur.reverse :: acc).reverse
    | t :: ts => if t == "|" then go [] (cur.reverse :: acc) ts else go (t :: cur) acc ts
  go [] [] toks

def decAnswer : List String → Option (Answer Nat)
  | ["pick", s, k] => do pure (.pick (← decSide s) (← decBool k))
  | ["merged", d, k] => do pure (.merged (← d.toNat?) (← decBool k))
  | ["none"] => some .none
  | ["raises"] => some .raises
  | ["nontuple", t] => (decBool t).map (fun b => if b then .nonTuple else .falsy)
  | ["wronglen", n] => n.toNat?.map .wrongLen
  | ["notfile", k] => (decBool k).map .notFile
  | _ => none

def decCall (t : String) : Option Call :=
  match t.splitOn ":" with
  | [ss, b0, b1, p, aL, aR] =>
    match ss.toList with
    | [a, b] => do
      pure { s0 := ← decSide (String.singleton a), s1 := ← decSide (String.singleton b),
             b0 := ← decOptNat b0, b1 := ← decOptNat b1, pathsOk := ← decBool p, actL := ← aL.toNat?, actR := ← aR.toNat? }
    | _ => none
  | _ => none

def decSideSt : List String → Option (SideSt Nat)
  | [] => none
  | m :: cs => do pure { main := ← decOptNat m, conf := ← cs.mapM (·.toNat?) }

def stepMon (toks : List String) : String :=
  match sections toks with
  | [["c05"], [base, cl, cr], "temp" :: k :: ans, calls, [q, nf], l, r] =>
    match decOptNat base, cl.toNat?, cr.toNat?, k.toNat?, decAnswer ans, calls.mapM decCall, decBool q, nf.toNat?, decSideSt l, decSideSt r with
    | some base, some cl, some cr, some k, some ans, some calls, some q, some nf, some l, some r =>
      match contract { base := base, cl := cl, cr := cr, temp := k, ans := ans, faults := nf, calls := calls, quiet := q, l := l, r := r } with
      | .ok => "ok"
      | .reject why => "reject " ++ why
    | _, _, _, _, _, _, _, _, _, _ => "bad-arg"
  | _ => "bad-op"

end CS.Driver.MonC05
