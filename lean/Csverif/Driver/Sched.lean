import Csverif.Model.Sched
import Csverif.Model.SchedLoop
import Csverif.Driver.Wire
/- Line protocol, scheduling layer (stateful).  Rationals `n/d`; strings in `Wire.encStr` form; side `L`/`R`.
   `reset <puntL> <puntR> <last>`            new SyncState (punt_secs, _last_changed_time)
   `dir <P> <D>`                             providers[LOCAL].dirname(P) = D
   `update <s> <oid> <path|~> <prio> <now>`  state.update(s, FILE, oid, path=path, hash=h); prio = prioritize(s, path)
   `info <s> <oid> <path|~> <prio>`          providers[s].info_oid(oid) = object at `path` (`~`: no such object); prio = prioritize(s, path)
   `attach <s> <id> <oid> <path> <prio>`     ent[s].oid = oid; ent[s].path = path
   `mark <s> <id> <now>`                     state.mark_changed(s, ent)
   `punt <id>` | `setprio <id> <v>` | `clear <s> <id>` | `setaged <s> <id>` | `syncpath <s> <id> <P>` | `finished <id>`
   `change <now> <age>`                      state.change(age) incl. the fill-in loop → `pick <id|~> ` followed by the state
   `loop <age> <sleep> <mn> <mx> <mult> <b0> <now> <w1>:<d1> <w2>:<d2> …`
                                             Runnable.run/SyncManager.do over the current changeset (not written back);
                                             w ∈ F(inished) P(unted) Q(requeue) R(aised), d = time the work takes
                                             → `<t> <id|~> ; … | <final in_backoff>`
   `rule top <folder> <v>` | `rule sfx <suffix> <v>`   the application's prioritize: value of the first matching name suffix,
                                             else of the top-level folder, else 0 (both sides)
   `oip <T|F> <T|F>`                         providers[LOCAL/REMOTE].oid_is_path
   `updatedir <s> <oid> <prior oid|~> <path> <now>`   state.update(s, DIRECTORY, oid, path=path, prior_oid=prior)
   `obsreset` | `obs <now-age> <attempted id|~> <raised T|F> | <id> <prio> <lchanged> <rchanged> ; … | <rows after>` |
   `obscls <id> <class> ; …`                 the application's class of every pending entry, for the last `obs`: → `ok` | `bad unaged|classorder`
   `wait <id>`                               monitor of engine traces (Model/SchedLoop.lean `Obs.check`, `waitOf`): one `obs` per
                                             call of the real SyncManager.do → `ok <kind>` or `bad <kind> pick|stuck|rank …`;
                                             `wait` → `<eligible T|F> <attempted T|F> <busy> <bound>`
   every mutating line answers `[id <n>|pick <x>] <M|U> <last> | <id> <prio> <lchanged> <rchanged> <lpath> <rpath> ; … | <pending ids>`
   (`U` = an unmodelled branch was met since the last reset). -/
namespace CS.Driver.Sched
open CS.Sched CS.Wire

def parseRat (t : String) : Option Rat :=
  match t.splitOn "/" with
  | [n, d] => do
    let neg := n.startsWith "-"
    let nn ← (if neg then (n.drop 1).toString else n).toNat?
    let dd ← d.toNat?
    if dd == 0 then none else
    let q : Rat := (nn : Rat) / (dd : Rat)
    pure (if neg then -q else q)
  | _ => none

def encRat (q : Rat) : String := s!"{q.num}/{q.den}"

def encOptRat : Option Rat → String
  | none => "~"
  | some q => encRat q

def parseSide : String → Option Bool
  | "L" => some false
  | "R" => some true
  | _ => none

def parseStr (t : String) : Option String := (decStr t).map String.ofList

/-- split a token list at every occurrence of `sep` -/
def splitTok (sep : String) : List String → List (List String)
  | [] => [[]]
  | t :: ts =>
    match splitTok sep ts with
    | [] => [[t]]
    | g :: gs => if t == sep then [] :: g :: gs else (t :: g) :: gs

structure DSt where
  st    : St := {}
  dns   : List (String × String) := []
  infos : List ((Bool × String) × Option (String × Rat)) := []
  obs   : List SchedLoop.Obs := []
  tops  : List (String × Rat) := []
  sfxs  : List (String × Rat) := []
  oip   : Bool × Bool := (false, false)

def DSt.dn (d : DSt) (p : String) : String :=
  match d.dns.find? (·.1 == p) with
  | some (_, x) => x
  | none =>
    -- not announced: '/'-separated, case-sensitive default (what the mock providers' dirname gives for the harness's paths)
    match (p.splitOn "/").dropLast with
    | [] => ""
    | [""] => "/"
    | parts => "/".intercalate parts

def DSt.orc (d : DSt) : Oracle := fun id s =>
  match d.st.get? id with
  | some e =>
    match (e.side s).oid with
    | some o =>
      match d.infos.find? (fun x => x.1 == (s, o)) with
      | some (_, a) => a
      | none => none
    | none => none
  | none => none

/-- the application's prioritize used by the harness: name suffix first, then top-level folder, else 0 -/
def DSt.cls (d : DSt) : Cls := fun _ p =>
  match d.sfxs.find? (fun x => p.endsWith x.1) with
  | some (_, v) => v
  | none =>
    match (p.splitOn "/") with
    | _ :: top :: _ =>
      match d.tops.find? (fun x => x.1 == top) with
      | some (_, v) => v
      | none => 0
    | _ => 0

def encOptS : Option String → String
  | none => "~"
  | some p => encStr p.toList

def encEntry (e : Entry) : String :=
  s!"{e.id} {encRat e.priority} {encOptRat e.l.changed} {encOptRat e.r.changed} {encOptS e.l.path} {encOptS e.r.path}"

def encSt (st : St) : String :=
  (if st.unmodelled then "U " else "M ") ++ encRat st.last ++ " | " ++
  " ; ".intercalate (st.ents.map encEntry) ++ " | " ++ " ".intercalate (st.pending.map toString)

def upd (d : DSt) (st : St) : DSt × String := ({ d with st := st }, encSt st)

def step (d : DSt) (toks : List String) : DSt × String :=
  let bad : DSt × String := (d, "bad-op")
  match toks with
  | ["reset", pl, pr, last] =>
    match parseRat pl, parseRat pr, parseRat last with
    | some pl, some pr, some last => ({ st := { punt := (pl, pr), last := last }, dns := [], infos := [] }, "ok")
    | _, _, _ => bad
  | ["dir", p, q] =>
    match parseStr p, parseStr q with
    | some p, some q => ({ d with dns := (p, q) :: d.dns }, "ok")
    | _, _ => bad
  | ["rule", kind, name, v] =>
    match parseStr name, parseRat v with
    | some name, some v =>
      if kind == "top" then ({ d with tops := d.tops ++ [(name, v)] }, "ok")
      else if kind == "sfx" then ({ d with sfxs := d.sfxs ++ [(name, v)] }, "ok")
      else bad
    | _, _ => bad
  | ["oip", a, b] =>
    match decBool a, decBool b with
    | some a, some b => ({ d with oip := (a, b) }, "ok")
    | _, _ => bad
  | ["updatedir", s, oid, prior, path, now] =>
    match parseSide s, parseStr oid, (if prior == "~" then some none else (parseStr prior).map some), parseStr path, parseRat now with
    | some s, some oid, some prior, some path, some now =>
      let (st, id) := opUpdateDir d.cls d.oip d.st s oid prior path now
      ({ d with st := st }, s!"id {id} " ++ encSt st)
    | _, _, _, _, _ => bad
  | ["info", s, oid, path, prio] =>
    match parseSide s, parseStr oid, parseRat prio with
    | some s, some oid, some prio =>
      if path == "~" then ({ d with infos := ((s, oid), none) :: d.infos }, "ok")
      else match parseStr path with
        | some path => ({ d with infos := ((s, oid), some (path, prio)) :: d.infos }, "ok")
        | none => bad
    | _, _, _ => bad
  | ["update", s, oid, path, prio, now] =>
    match parseSide s, parseStr oid, (if path == "~" then some none else (parseStr path).map some), parseRat prio, parseRat now with
    | some s, some oid, some path, some prio, some now =>
      let (st, id) := opUpdate d.st s oid path prio now
      ({ d with st := st }, s!"id {id} " ++ encSt st)
    | _, _, _, _, _ => bad
  | ["attach", s, id, oid, path, prio] =>
    match parseSide s, id.toNat?, parseStr oid, parseStr path, parseRat prio with
    | some s, some id, some oid, some path, some prio => upd d (opAttach d.st s id oid path prio)
    | _, _, _, _, _ => bad
  | ["mark", s, id, now] =>
    match parseSide s, id.toNat?, parseRat now with
    | some s, some id, some now => upd d (markChanged d.st s id now)
    | _, _, _ => bad
  | ["punt", id] =>
    match id.toNat? with
    | some id => upd d (opPunt d.st id)
    | none => bad
  | ["setprio", id, v] =>
    match id.toNat?, parseRat v with
    | some id, some v => upd d (setPriority d.st id v)
    | _, _ => bad
  | ["clear", s, id] =>
    match parseSide s, id.toNat? with
    | some s, some id => upd d (opClear d.st s id)
    | _, _ => bad
  | ["setaged", s, id] =>
    match parseSide s, id.toNat? with
    | some s, some id => upd d (opSetAged d.st s id)
    | _, _ => bad
  | ["syncpath", s, id, p] =>
    match parseSide s, id.toNat?, parseStr p with
    | some s, some id, some p => upd d (opSyncPath d.st s id p)
    | _, _, _ => bad
  | ["finished", id] =>
    match id.toNat? with
    | some id => upd d (opFinished d.dn d.st id)
    | none => bad
  | ["change", now, age] =>
    match parseRat now, parseRat age with
    | some now, some age =>
      let (st, r) := changeFull d.orc d.st now age
      ({ d with st := st }, (match r with | some e => s!"pick {e.id} " | none => "pick ~ ") ++ encSt st)
    | _, _ => bad
  | ["obsreset"] => ({ d with obs := [] }, "ok")
  | "obs" :: earlier :: att :: raised :: "|" :: rest =>
    let parseRows (ts : List String) : Option (List Entry) :=
      let groups := (splitTok ";" ts).filter (fun g => !g.isEmpty)
      groups.mapM (fun g => match g with
        | [id, pr, lc, rc] =>
          match id.toNat?, parseRat pr, (if lc == "~" then some none else (parseRat lc).map some),
                (if rc == "~" then some none else (parseRat rc).map some) with
          | some id, some pr, some lc, some rc =>
            some ({ id := id, priority := pr, l := { changed := lc }, r := { changed := rc } } : Entry)
          | _, _, _, _ => none
        | _ => none)
    let (bef, aft) := match rest.span (· != "|") with
      | (b, _ :: a) => (b, a)
      | (b, []) => (b, [])
    match parseRat earlier, (if att == "~" then some none else att.toNat?.map some), decBool raised, parseRows bef, parseRows aft with
    | some earlier, some att, some raised, some bef, some aft =>
      let o : SchedLoop.Obs := { earlier := earlier, before := bef, attempted := att, raised := raised, after := aft }
      let k := match o.kind with | .idle => "idle" | .done => "done" | .punt => "punt" | .keep => "keep"
      let bad := o.check
      ({ d with obs := d.obs ++ [o] }, if bad.isEmpty then "ok " ++ k else "bad " ++ k ++ " " ++ " ".intercalate bad)
    | _, _, _, _, _ => bad
  | "obscls" :: rest =>
    -- `obscls <id> <class> ; …` : judge the LAST observation against the application's classes
    let pairs := (splitTok ";" rest).filterMap (fun g => match g with
      | [id, c] => match id.toNat?, parseRat c with
        | some id, some c => some (id, c)
        | _, _ => none
      | _ => none)
    match d.obs.getLast? with
    | some o =>
      let bad := o.checkCls pairs
      (d, if bad.isEmpty then "ok" else "bad " ++ " ".intercalate bad)
    | none => (d, "ok")
  | ["wait", id] =>
    match id.toNat? with
    | some id =>
      let r := SchedLoop.waitOf id d.obs
      (d, s!"{encBool r.1} {encBool r.2.1} {r.2.2.1} {r.2.2.2}")
    | none => bad
  | "loop" :: age :: sleep :: mn :: mx :: mult :: b0 :: now :: ws =>
    let parseStep (t : String) : Option SchedLoop.Step :=
      match t.splitOn ":" with
      | [w, dd] =>
        match (match w with
          | "F" => some SchedLoop.Work.finished | "P" => some .punted | "Q" => some .requeue | "R" => some .raised
          | "K" => some .stuck
          | _ => none), parseRat dd with
        | some w, some dd => some { work := w, dur := dd }
        | _, _ => none
      | _ => none
    match parseRat age, parseRat sleep, parseRat mn, parseRat mx, parseRat mult, parseRat b0, parseRat now, ws.mapM parseStep with
    | some age, some sleep, some mn, some mx, some mult, some b0, some now, some ws =>
      let c : SchedLoop.Cfg := { age := age, sleep := sleep, punt := d.st.punt, bp := ⟨mn, mx, mult⟩ }
      let (L, tr) := SchedLoop.run c { P := d.st.pendingEntries, now := now, backoff := b0 } ws
      (d, " ; ".intercalate (tr.map (fun r => encRat r.at_ ++ " " ++ (match r.ent with | some e => toString e.id | none => "~")))
          ++ " | " ++ encRat L.backoff)
    | _, _, _, _, _, _, _, _ => bad
  | _ => bad

end CS.Driver.Sched
