import Csverif.Model.Sched
import Csverif.Driver.Wire
/- Line protocol, scheduling layer (stateful).  Rationals `n/d`; strings in `Wire.encStr` form; side `L`/`R`.
   `reset <puntL> <puntR> <last>`            new SyncState (punt_secs, _last_changed_time)
   `dir <P> <D>`                             providers[LOCAL].dirname(P) = D
   `update <s> <oid> <path> <prio> <now>`    state.update(s, FILE, oid, path=path, hash=h); prio = prioritize(s, path)
   `attach <s> <id> <oid> <path> <prio>`     ent[s].oid = oid; ent[s].path = path
   `mark <s> <id> <now>`                     state.mark_changed(s, ent)
   `punt <id>` | `setprio <id> <v>` | `clear <s> <id>` | `setaged <s> <id>` | `syncpath <s> <id> <P>` | `finished <id>`
   `change <now> <age>`                      → `pick <id>` or `pick ~`
   every mutating line answers `<M|U> [id <n>] <last> | <id> <prio> <lchanged> <rchanged> ; … | <pending ids>`
   (`U` = an unmodelled branch was met since the last reset). -/
namespace CS.Driver.Sched
open CS.Sched CS.Wire

def parseRat (t : String) : Option Rat :=
  match t.splitOn "/" with
  | [n, d] => do
    let neg := n.startsWith "-"
    let nn ← (if neg then (n.drop 1).toString else n).toNat?
    let dd ← d.toNat?
    if dd == 0 then none else
    let q : Rat := (nn : Rat) / (dd : Rat)
    pure (if neg then -q else q)
  | _ => none

def encRat (q : Rat) : String := s!"{q.num}/{q.den}"

def encOptRat : Option Rat → String
  | none => "~"
  | some q => encRat q

def parseSide : String → Option Bool
  | "L" => some false
  | "R" => some true
  | _ => none

def parseStr (t : String) : Option String := (decStr t).map String.ofList

structure DSt where
  st  : St := {}
  dns : List (String × String) := []

def DSt.dn (d : DSt) (p : String) : String :=
  match d.dns.find? (·.1 == p) with
  | some (_, x) => x
  | none => ""

def encEntry (e : Entry) : String :=
  s!"{e.id} {encRat e.priority} {encOptRat e.l.changed} {encOptRat e.r.changed}"

def encSt (st : St) : String :=
  (if st.unmodelled then "U " else "M ") ++ encRat st.last ++ " | " ++
  " ; ".intercalate (st.ents.map encEntry) ++ " | " ++ " ".intercalate (st.pending.map toString)

def upd (d : DSt) (st : St) : DSt × String := ({ d with st := st }, encSt st)

def step (d : DSt) (toks : List String) : DSt × String :=
  let bad : DSt × String := (d, "bad-op")
  match toks with
  | ["reset", pl, pr, last] =>
    match parseRat pl, parseRat pr, parseRat last with
    | some pl, some pr, some last => ({ st := { punt := (pl, pr), last := last }, dns := [] }, "ok")
    | _, _, _ => bad
  | ["dir", p, q] =>
    match parseStr p, parseStr q with
    | some p, some q => ({ d with dns := (p, q) :: d.dns }, "ok")
    | _, _ => bad
  | ["update", s, oid, path, prio, now] =>
    match parseSide s, parseStr oid, parseStr path, parseRat prio, parseRat now with
    | some s, some oid, some path, some prio, some now =>
      let (st, id) := opUpdate d.st s oid path prio now
      ({ d with st := st }, s!"id {id} " ++ encSt st)
    | _, _, _, _, _ => bad
  | ["attach", s, id, oid, path, prio] =>
    match parseSide s, id.toNat?, parseStr oid, parseStr path, parseRat prio with
    | some s, some id, some oid, some path, some prio => upd d (opAttach d.st s id oid path prio)
    | _, _, _, _, _ => bad
  | ["mark", s, id, now] =>
    match parseSide s, id.toNat?, parseRat now with
    | some s, some id, some now => upd d (markChanged d.st s id now)
    | _, _, _ => bad
  | ["punt", id] =>
    match id.toNat? with
    | some id => upd d (opPunt d.st id)
    | none => bad
  | ["setprio", id, v] =>
    match id.toNat?, parseRat v with
    | some id, some v => upd d (setPriority d.st id v)
    | _, _ => bad
  | ["clear", s, id] =>
    match parseSide s, id.toNat? with
    | some s, some id => upd d (opClear d.st s id)
    | _, _ => bad
  | ["setaged", s, id] =>
    match parseSide s, id.toNat? with
    | some s, some id => upd d (opSetAged d.st s id)
    | _, _ => bad
  | ["syncpath", s, id, p] =>
    match parseSide s, id.toNat?, parseStr p with
    | some s, some id, some p => upd d (opSyncPath d.st s id p)
    | _, _, _ => bad
  | ["finished", id] =>
    match id.toNat? with
    | some id => upd d (opFinished d.dn d.st id)
    | none => bad
  | ["change", now, age] =>
    match parseRat now, parseRat age with
    | some now, some age =>
      match changeSt d.st now age with
      | some e => (d, s!"pick {e.id}")
      | none => (d, "pick ~")
    | _, _ => bad
  | _ => bad

end CS.Driver.Sched
