import Csverif.Model.EngineRefresh
import Csverif.Driver.EngineBase
/- Driver for ENG part 4 (part of layer `engine`; ops start with `z`).

  `zsite <preSync|renameRetry|renameConflict|renameFixFnf|splitDefer|lookupCreation|changeFill> <L|R|->`   → `<scope> <force T/F>`
  `zdec <chL> <chR> <lgL> <lgR> <scope L|R|LR|RL> <force>`                                              → `<reread or -> | <lgL> <lgR>`
  `zgl <re> <clock> <scope> <force> <probeL> <probeR> <pathIdL><pathIdR>`                               → `<reread> | <re'> <clock'>`
  `zren <L|R> <re me> <re cf | -> <clock> <oracle 29 chars> <pcPrio> <probeL me> <probeR me> <probeL cf> <probeR cf> <pathIdL><pathIdR>`
        → `<out> | <effs> | <calls> | <re me'> | <re cf' or ->`
     re    = <L> <R> <ign> <prio> <chL> <chR> <lgL> <lgR>      (sides as in Driver/Engine.lean; the change flags are derived from the stamps)
     probe = a | <h s|e|o><p s|e|o><otype f|d|n>               (absent | hash/path same / equal to the synced value / other)
     calls = <self|conflict>:<site>:<scope><force>:<reread>,…
  `zat <site> <L|R|-> <re> <clock> <probeL> <probeR> <pathIdL><pathIdR>`                                → `<calls> | <re'>`
        (site `changeFill -` = the whole fill-in loop of `SyncState.change`)                                                                              -/
namespace CS.Driver.EngineRefresh
open CS.Engine CS.Engine.Refresh CS.Wire CS.Driver.EngineBase
open CS.Hints (Ex OT Ign)

def decAns : Char → Option Ans
  | 's' => some .same | 'e' => some .newEqSync | 'o' => some .newOther | _ => none

def decProbe (t : String) : Option Probe :=
  match t.toList with
  | ['a'] => some .absent
  | [h, p, o] => do pure (.present (← decAns h) (← decAns p) (← decOT o))
  | _ => none

def decScope (t : String) : Option (List Sd) :=
  t.toList.mapM (fun c => if c == 'L' then some Sd.loc else if c == 'R' then some Sd.rem else none)

def encSides (l : List Sd) : String := if l.isEmpty then "-" else String.join (l.map sdc)

def decRE (l r ign prio chL chR lgL lgR : String) (clock : Nat) : Option RE := do
  let e : Entry := { l := ← decSide l, r := ← decSide r, lLeR := true, ign := ← decIgn ign, prio := ← prio.toInt? }
  pure (RE.norm { e := e, chL := ← chL.toNat?, chR := ← chR.toNat?, lgL := ← lgL.toNat?, lgR := ← lgR.toNat?, clock := clock })

def encRE (r : RE) : String :=
  s!"{encSide r.e.l} {encSide r.e.r} {encIgn r.e.ign} {r.e.prio} {r.chL} {r.chR} {r.lgL} {r.lgR}"

def siteName : Site → String
  | .preSync => "preSync" | .renameRetry => "renameRetry" | .renameConflict => "renameConflict" | .renameFixFnf => "renameFixFnf"
  | .splitDefer d => "splitDefer" ++ sdc d | .lookupCreation => "lookupCreation" | .changeFill s => "changeFill" ++ sdc s

def decSite (n sd : String) : Option Site :=
  match n with
  | "preSync" => some .preSync | "renameRetry" => some .renameRetry | "renameConflict" => some .renameConflict
  | "renameFixFnf" => some .renameFixFnf | "lookupCreation" => some .lookupCreation
  | "splitDefer" => (decSd sd).map .splitDefer
  | "changeFill" => (decSd sd).map .changeFill
  | _ => none

def encCall (c : GlCall) : String :=
  (match c.target with | .self => "self" | .conflict => "conflict") ++ ":" ++ siteName c.site ++ ":" ++
    encSides c.site.scope.1 ++ (encB c.site.scope.2).toString ++ ":" ++ encSides c.reread

def encCalls (l : List GlCall) : String := if l.isEmpty then "-" else ",".intercalate (l.map encCall)

def blank : Side := { oid := false, p := .nn, h := .nn, ex := .trashed, saved := none, otype := .file, changed := false, force := false }

def step (toks : List String) : String :=
  match toks with
  | ["zsite", n, sd] =>
    match decSite n sd with
    | some s => s!"{encSides s.scope.1} {encB s.scope.2}"
    | none => "bad-arg"
  | ["zdec", chL, chR, lgL, lgR, sc, f] =>
    match chL.toNat?, chR.toNat?, lgL.toNat?, lgR.toNat?, decScope sc, decBool f with
    | some a, some b, some c, some d, some sc, some f =>
      let r : RE := RE.norm { e := { l := blank, r := blank, lLeR := true, ign := .no, prio := 0 }, chL := a, chR := b, lgL := c, lgR := d, clock := 0 }
      let (r', rr) := getLatest ⟨.absent, .absent, false, false⟩ r sc f
      s!"{encSides rr} | {r'.lgL} {r'.lgR}"
    | _, _, _, _, _, _ => "bad-arg"
  | ["zgl", l, r, ign, prio, chL, chR, lgL, lgR, clock, sc, f, pL, pR, pid] =>
    match clock.toNat?, decScope sc, decBool f, decProbe pL, decProbe pR, pid.toList with
    | some ck, some sc, some f, some pL, some pR, [a, b] =>
      match decRE l r ign prio chL chR lgL lgR ck, decB a, decB b with
      | some re, some a, some b =>
        let (r', rr) := getLatest ⟨pL, pR, a, b⟩ re sc f
        s!"{encSides rr} | {encRE r'} {r'.clock}"
      | _, _, _ => "bad-arg"
    | _, _, _, _, _, _ => "bad-arg"
  | ["zat", n, sd, l, r, ign, prio, chL, chR, lgL, lgR, clock, pL, pR, pid] =>
    match clock.toNat?, decProbe pL, decProbe pR, pid.toList with
    | some ck, some pL, some pR, [a, b] =>
      match decRE l r ign prio chL chR lgL lgR ck, decB a, decB b with
      | some re, some a, some b =>
        let w : World := ⟨pL, pR, a, b⟩
        if n == "changeFill" && sd == "-" then
          let (r', calls) := changeFillR w re
          s!"{encCalls calls} | {encRE r'}"
        else match decSite n sd with
          | some site =>
            let (r', rr) := atSite w re site
            s!"{encCalls [⟨.self, site, rr⟩]} | {encRE r'}"
          | none => "bad-arg"
      | _, _, _ => "bad-arg"
    | _, _, _, _ => "bad-arg"
  | "zren" :: sd :: l :: r :: ign :: prio :: chL :: chR :: lgL :: lgR :: rest =>
    -- the conflict entry is either "-" (one token) or eight tokens
    let (cfToks, rest2) : List String × List String := match rest with
      | "-" :: tl => (["-"], tl)
      | _ => (rest.take 8, rest.drop 8)
    match rest2 with
    | [clock, orc, pc, p1, p2, p3, p4, pid] =>
      match decSd sd, clock.toNat?, decOracle orc pc, decProbe p1, decProbe p2, decProbe p3, decProbe p4, pid.toList with
      | some c, some ck, some o, some p1, some p2, some p3, some p4, [a, b] =>
        let cf : Option (Option RE) := match cfToks with
          | ["-"] => some none
          | [l2, r2, i2, pr2, a2, b2, c2, d2] => (decRE l2 r2 i2 pr2 a2 b2 c2 d2 ck).map some
          | _ => none
        match decRE l r ign prio chL chR lgL lgR ck, cf, decB a, decB b with
        | some me, some cf, some a, some b =>
          let res := handleRenameR o ⟨p1, p2, a, b⟩ ⟨p3, p4, a, b⟩ me cf c
          s!"{encOut res.out} | {encEffs res.effs} | {encCalls res.calls} | {encRE res.self} | " ++
            (match res.conflict with | none => "-" | some k => encRE k)
        | _, _, _, _ => "bad-arg"
      | _, _, _, _, _, _, _, _ => "bad-arg"
    | _ => "bad-line"
  | _ => "bad-line"

end CS.Driver.EngineRefresh
