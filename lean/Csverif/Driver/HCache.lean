import Csverif.Model.HCache
import Csverif.Driver.Wire
/- Line protocol, hierarchical cache layer (`driver hcache`).
   `reset <cs:T|F> <rootoid> <paths ,-separated> <ids ,-separated>`
   `mkdir P O` | `create P O` | `delete O P` | `rename P P` | `setoid P O <F|D>` | `update P <F|D> O`
   P = encStr or `~`, O = nat or `~`.
   Output: `<result> # C=<coherent> S=<guard held in pre-state> # <tree> # <idmap> # <getters>`. -/
namespace CS.Driver.HCache
open CS.HCache CS.Path CS.Wire

structure St where
  c     : Cfg
  s     : HC
  paths : List CS.Path.Str
  ids   : List Oid

def St.init : St := { c := mkCfg true false, s := CS.HCache.init 9, paths := [], ids := [] }

def encErr : Err → String
  | .lookup => "!LookupError"
  | .key => "!KeyError"
  | .value => "!ValueError"
  | .assertion => "!AssertionError"
  | .attr => "!AttributeError"
  | .type => "!TypeError"
  | .recursion => "!RecursionError"
  | .fuel => "!RecursionError"   -- the model's recursion budget stands for Python's recursion limit

def encOid : Option Oid → String
  | none => "~"
  | some n => toString n

def decOid (t : String) : Option (Option Oid) :=
  if t == "~" then some none else t.toNat?.map some

def encType : OType → String
  | .file => "F"
  | .dir => "D"

def decType (t : String) : Option OType :=
  if t == "F" then some .file else if t == "D" then some .dir else none

def encE {α} (f : α → String) : Except Err α → String
  | .ok a => f a
  | .error e => encErr e

def encList (l : List String) : String := "[" ++ ",".intercalate l ++ "]"

/-! structural dump -/

def pflag (s : HC) (par : Option Nat) (i : Nat) : String :=
  match (s.nd i).parent, par with
  | none, _ => "n"
  | some p, some q => if p = q then "p" else "x"
  | some _, none => "x"

def nodeHdr (s : HC) (key : String) (par : Option Nat) (i : Nat) : String :=
  let n := s.nd i
  s!"{key}:{encStr n.name}:{encType n.type}:{encOid n.oid}:{pflag s par i}{if n.isRoot then "r" else ""}"

def dumpTree (s : HC) : Nat → String → Option Nat → Nat → String
  | 0, _, _, _ => "!"
  | f + 1, key, par, i =>
    nodeHdr s key par i ++
      encList ((s.nd i).children.map (fun kc => dumpTree s f (encStr kc.1) (some i) kc.2))

/-- pre-order list of (node, key path) from the root -/
def reachList (s : HC) : Nat → List String → Nat → List (Nat × List String)
  | 0, _, _ => []
  | f + 1, kp, i =>
    (i, kp) :: (s.nd i).children.flatMap (fun kc => reachList s f (kp ++ [encStr kc.1]) kc.2)

def depthFuel : Nat := 40

def dumpIdmap (s : HC) : String :=
  let rl := reachList s depthFuel [] 0
  let sorted := s.idmap.mergeSort (fun a b => a.1 ≤ b.1)
  encList (sorted.map (fun on =>
    let loc := match rl.find? (fun r => r.1 == on.2) with
      | some r => "/" ++ "/".intercalate r.2
      | none => "?" ++ encStr (s.nd on.2).name
    s!"{on.1}>{loc}"))

/-! executable coherence test (the harness stops comparing a sequence once it fails; the Python
    oracle evaluates the same predicate on the real object and the two flags are compared) -/

def nodupB {α} [DecidableEq α] : List α → Bool
  | [] => true
  | a :: r => !(r.contains a) && nodupB r

def cleanName (c : Cfg) (k : CS.Path.Str) : Bool :=
  !k.isEmpty && !k.contains c.sep && (match c.alt with | some a => !k.contains a | none => true) &&
    (c.cs || k == lowerStr c k)

def cohB (c : Cfg) (s : HC) : Bool :=
  let rl := (reachList s depthFuel [] 0).map (·.1)
  let r := s.nd 0
  nodupB rl && rl.length < depthFuel &&
  r.isRoot && r.parent.isNone && r.type == .dir &&
  rl.all (fun p =>
    let n := s.nd p
    (p == 0 || !n.isRoot) &&
    (n.type == .dir || n.children.isEmpty) &&
    nodupB (n.children.map (·.1)) &&
    n.children.all (fun kc =>
      (s.nd kc.2).parent == some p && (s.nd kc.2).name == kc.1 && cleanName c kc.1)) &&
  nodupB (s.idmap.map (·.1)) &&
  s.idmap.all (fun on => rl.contains on.2 && (s.nd on.2).oid == some on.1 && on.1 != 0) &&
  rl.all (fun p => !truthy (s.nd p).oid ||
    (match (s.nd p).oid with | some o => dget s.idmap o == some p | none => true))

/-! getters -/

def encOptStr' (o : Option CS.Path.Str) : String := encOptStr o

def getters (st : St) : String :=
  let c := st.c
  let s := st.s
  let perPath := st.paths.map (fun p =>
    encE encOid (getOid c s p) ++ ";" ++
    encE (fun t => match t with | some t => encType t | none => "~") (getType c s none (some p)) ++ ";" ++
    encE (fun l => encList (l.map encStr)) (listdir c s none (some p)))
  let perId := st.ids.map (fun o =>
    encE encOptStr' (getPath c s o) ++ ";" ++
    encE (fun t => match t with | some t => encType t | none => "~") (getType c s (some o) none) ++ ";" ++
    encE (fun l => encList (l.map encStr)) (listdir c s (some o) none) ++ ";" ++
    encE (fun l => encList (l.map encOptStr')) (walkPaths c s (some o) none))
  " ".intercalate perPath ++ " | " ++ " ".intercalate perId ++ " | " ++
    encE (fun l => encList (l.map encOptStr')) (walkPaths c s none none)

def parseOp (toks : List String) : Option Op :=
  match toks with
  | ["mkdir", p, o] => do let p ← decStr p; let o ← decOid o; pure (.mkdir p o)
  | ["create", p, o] => do let p ← decStr p; let o ← decOid o; pure (.create p o)
  | ["delete", o, p] => do let o ← decOid o; let p ← decOptStr p; pure (.delete o p)
  | ["rename", a, b] => do let a ← decStr a; let b ← decStr b; pure (.rename a b)
  | ["setoid", p, o, t] => do let p ← decStr p; let o ← decOid o; let t ← decType t; pure (.setOid p o t)
  | ["update", p, t, o] => do let p ← decStr p; let t ← decType t; let o ← decOid o; pure (.update p t o)
  | _ => none

def splitComma (t : String) : List String := (t.splitOn ",").filter (· ≠ "")

def step (st : St) (toks : List String) : St × String :=
  match toks with
  | ["reset", cs, r, ps, is] =>
    match decBool cs, r.toNat?, (splitComma ps).mapM decStr, (splitComma is).mapM (·.toNat?) with
    | some cs, some r, some ps, some is =>
      ({ c := mkCfg cs false, s := CS.HCache.init r, paths := ps, ids := is }, "ok")
    | _, _, _, _ => (st, "bad-reset")
  | "q" :: rest =>
    -- quiet: result only (used for the non-final operations of exhaustively enumerated sequences)
    match parseOp rest with
    | none => (st, "bad-op")
    | some op =>
      let (s', r) := CS.HCache.step st.c st.s op
      ({ st with s := s' }, match r with | .ok _ => "ok" | .error e => encErr e)
  | _ =>
    match parseOp toks with
    | none => (st, "bad-op")
    | some op =>
      let safe := opSafe st.c st.s op
      let (s', r) := CS.HCache.step st.c st.s op
      let st' := { st with s := s' }
      let res := match r with | .ok _ => "ok" | .error e => encErr e
      (st', s!"{res} # C={encBool (cohB st.c s')} S={encBool safe} # {dumpTree s' depthFuel "^" none 0} # {dumpIdmap s'} # {getters st'}")

end CS.Driver.HCache
