import Csverif.Model.EngineXfer
import Csverif.Driver.Wire
/- Driver for the transfer leaves (part of layer `engine`; ops start with `x`).

  `<op> <fs> <c> <s> <ign> <prio> <oracle> [<h2> <oracle2>]`
     op     = xmktemp | xdl | xup | xcr | xmk | xclean | xtup | xtcr | xretry
     fs     = <cur T/F><old T/F>:<nextRand>:<file>,<file>…|-      file = <c|o><name><.|+>=<tag>   (+ = the ".tmp" sibling)
     name   = k<p>_<h> | r<n>
     side   = <otype f/d/n>/<oid T/F>/<path>/<hash>/<syncHash>/<syncPath>/<ex>/<saved>/<changed T/F>/<temp>   (~ = None; temp = <c|o><name>)
     oracle = <dl o f p c x t><up o f c e n x t><cr o e c n x t><mk o e c n t>/<newHash>/<infoPath>/<infoAfterFnf T/F>/<splitRet T/F>/
              <atPath ~|n|tag>/<ourHashThere>/<tp>/<dupDirChanged><liveOther><dupDirSynced><fileConflict><alreadyDir>
  → `<out> | <effects or -> | <fs: visible files sorted> | <c> | <s> | <ign> <prio>`   (xretry: two such, joined by ` || `)
     out = T | F | F/P/R/N (codes) | ok | !<exception>                                                                      -/
namespace CS.Driver.EngineXfer
open CS.Engine.Xfer CS.Wire
open CS.Hints (Ex OT Ign)
open CS.Engine (Ret)

def decOptNat (t : String) : Option (Option Nat) := if t == "~" then some none else t.toNat?.map some
def encOptNat : Option Nat → String
  | none => "~"
  | some n => toString n

def decB (t : String) : Option Bool := if t == "T" then some true else if t == "F" then some false else none
def encB (b : Bool) : String := if b then "T" else "F"

def decName (t : String) : Option Name :=
  if t.startsWith "k" then
    match ((t.drop 1).toString.splitOn "_") with
    | [p, h] => do pure (.keyed (← p.toNat?) (← h.toNat?))
    | _ => none
  else if t.startsWith "r" then (t.drop 1).toString.toNat?.map .rand
  else none

def encName : Name → String
  | .keyed p h => s!"k{p}_{h}"
  | .rand n => s!"r{n}"

def decLoc (t : String) : Option Loc :=
  let d := t.take 1 |>.toString
  let rest := (t.drop 1).toString
  if d == "c" then (decName rest).map (⟨.cur, ·⟩) else if d == "o" then (decName rest).map (⟨.old, ·⟩) else none

def encLoc (l : Loc) : String := (match l.dir with | .cur => "c" | .old => "o") ++ encName l.name

def decFile (t : String) : Option File :=
  match t.splitOn "=" with
  | [a, b] =>
    let part := a.endsWith "+"
    if !(part || a.endsWith ".") then none else do
    pure ⟨← decLoc (String.ofList (a.toList.dropLast)), part, ← b.toNat?⟩
  | _ => none

def encFile (f : File) : String := encLoc f.loc ++ (if f.part then "+" else ".") ++ "=" ++ toString f.bytes

def decFS (t : String) : Option FS :=
  match t.splitOn ":" with
  | [d, n, fl] =>
    match d.toList with
    | [a, b] => do
      let files ← if fl == "-" then some [] else (fl.splitOn ",").mapM decFile
      pure ⟨← decB (String.singleton a), ← decB (String.singleton b), files, ← n.toNat?⟩
    | _ => none
  | _ => none

def encFS (fs : FS) : String :=
  let vis := (fs.norm.files.map encFile).mergeSort (fun a b => decide (a ≤ b))
  s!"{encB fs.curExists}{encB fs.oldExists}:{fs.nextRand}:" ++ (if vis.isEmpty then "-" else ",".intercalate vis)

def decEx (t : String) : Option Ex :=
  match t with
  | "u" => some .unknown | "e" => some .present | "t" => some .trashed | "m" => some .missing | "l" => some .likely
  | "c" => some .corrupt | _ => none

def encEx : Ex → String
  | .unknown => "u" | .present => "e" | .trashed => "t" | .missing => "m" | .likely => "l" | .corrupt => "c"

def decOT (t : String) : Option OT :=
  match t with | "f" => some .file | "d" => some .dir | "n" => some .notknown | _ => none
def encOT : OT → String | .file => "f" | .dir => "d" | .notknown => "n"

def decSide (t : String) : Option XSide :=
  match t.splitOn "/" with
  | [ot, oid, p, h, sh, sp, ex, sv, ch, tmp] => do
    let saved ← if sv == "-" then some none else (decEx sv).map some
    let temp ← if tmp == "~" then some none else (decLoc tmp).map some
    pure { otype := ← decOT ot, oid := ← decB oid, path := ← decOptNat p, hash := ← decOptNat h, syncHash := ← decOptNat sh,
           syncPath := ← decOptNat sp, ex := ← decEx ex, saved := saved, changed := ← decB ch, temp := temp }
  | _ => none

def encSide (s : XSide) : String :=
  "/".intercalate [encOT s.otype, encB s.oid, encOptNat s.path, encOptNat s.hash, encOptNat s.syncHash, encOptNat s.syncPath,
    encEx s.ex, (match s.saved with | none => "-" | some x => encEx x), encB s.changed,
    (match s.temp with | none => "~" | some l => encLoc l)]

def decIgn (t : String) : Option Ign :=
  match t with
  | "n" => some .no | "d" => some .discarded | "c" => some .conflict | "t" => some .tempRename | "i" => some .irrelevant | _ => none
def encIgn : Ign → String
  | .no => "n" | .discarded => "d" | .conflict => "c" | .tempRename => "t" | .irrelevant => "i"

def decOracle (t : String) : Option XOracle :=
  match t.splitOn "/" with
  | [a, nh, ip, iaf, sr, ap, oh, tp, fl] =>
    match a.toList, fl.toList with
    | [d, u, c, m], [f1, f2, f3, f4, f5] => do
      let dl ← match d with | 'o' => some DlAns.ok | 'f' => some .fnf | 'p' => some .perm | 'c' => some .cloudFnf | 'x' => some .corrupt | 't' => some .temp | _ => none
      let up ← match u with | 'o' => some UpAns.ok | 'f' => some .fnf | 'c' => some .cloudFnf | 'e' => some .exists_ | 'n' => some .nameErr | 'x' => some .corrupt | 't' => some .temp | _ => none
      let cr ← match c with | 'o' => some CrAns.ok | 'e' => some .exists_ | 'c' => some .cloudFnf | 'n' => some .nameErr | 'x' => some .corrupt | 't' => some .temp | _ => none
      let mk ← match m with | 'o' => some MkAns.ok | 'e' => some .exists_ | 'c' => some .cloudFnf | 'n' => some .nameErr | 't' => some .temp | _ => none
      let atPath ← if ap == "~" then some none else if ap == "n" then some (some none) else ap.toNat?.map (fun n => some (some n))
      pure { dl := dl, up := up, cr := cr, mk_ := mk, newHash := ← decOptNat nh, infoPath := ← decOptNat ip, infoAfterFnf := ← decB iaf,
             splitRet := ← decB sr, atPath := atPath, ourHashThere := ← decOptNat oh, tp := ← tp.toNat?,
             dupDirChanged := ← decB (String.singleton f1), liveOther := ← decB (String.singleton f2),
             dupDirSynced := ← decB (String.singleton f3), fileConflict := ← decB (String.singleton f4),
             alreadyDir := ← decB (String.singleton f5) }
    | _, _ => none
  | _ => none

def encExc : XExc → String
  | .assertion => "!assertion" | .typeError => "!typeError" | .temp => "!temp" | .tooMany => "!tooMany" | .corrupt => "!corrupt"
  | .fileNotFound => "!fileNotFound" | .notImpl => "!notImpl"

def encOut : XOut → String
  | .bool b => encB b
  | .code .finished => "F" | .code .punt => "P" | .code .requeue => "R" | .code .none_ => "N"
  | .unit => "ok"
  | .raised x => encExc x

def encEff : XEff → String
  | .download => "dl" | .sent b => s!"sent{b}" | .created b => s!"created{b}" | .hashData b => s!"hd{b}"
  | .infoPath => "ip" | .infoOid => "io" | .split => "split" | .splitConflict => "hsc" | .nameError => "ne" | .fnfHandler => "fnf"
  | .discardOther => "disc" | .conflictRename => "cf" | .resolve => "resolve" | .mkdirs => "mkdirs"

def encRes (r : XRes) : String :=
  let fx := if r.effs.isEmpty then "-" else ",".intercalate (r.effs.map encEff)
  s!"{encOut r.out} | {fx} | {encFS r.fs} | {encSide r.ent.c} | {encSide r.ent.s} | {encIgn r.ent.ign} {r.ent.prio}"

def step (toks : List String) : String :=
  match toks with
  | op :: fs :: c :: s :: ign :: prio :: orc :: rest =>
    match decFS fs, decSide c, decSide s, decIgn ign, prio.toInt?, decOracle orc with
    | some fs, some c, some s, some ign, some prio, some o =>
      let e : XEntry := ⟨c, s, ign, prio⟩
      match op, rest with
      | "xmktemp", [] =>
        match makeTempFile fs c with
        | .ok (fs', c') => encRes ⟨.unit, [], fs', { e with c := c' }⟩
        | .error x => encRes ⟨.raised x, [], fs, e⟩
      | "xdl", [] => encRes (downloadChanged o fs e)
      | "xup", [] => encRes (uploadSynced o fs e)
      | "xcr", [] => encRes (createSynced o fs e)
      | "xmk", [] => encRes (mkdirSynced o fs e)
      | "xclean", [] => encRes ⟨.unit, [], cleanTemps fs e, e⟩
      | "xtup", [] => encRes (transferUpload o fs e)
      | "xtcr", [] => encRes (transferCreate o fs e)
      | "xretry", [h2, orc2] =>
        match h2.toNat?, decOracle orc2 with
        | some h2, some o2 => let (r1, r2) := retryAfterReedit o o2 fs e h2; encRes r1 ++ " || " ++ encRes r2
        | _, _ => "bad-arg"
      | _, _ => "bad-op"
    | _, _, _, _, _, _ => "bad-arg"
  | _ => "bad-line"

end CS.Driver.EngineXfer
