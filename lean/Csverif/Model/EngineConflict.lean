import Csverif.Model.Engine
import Csverif.Model.Resolver
/-
ENG, part 3 (a) — the conflict path of `sync` closed:

  * `SyncState.split`                          state.py 1326-1365   → `splitFull` (both entries; `splitEntry` of Model/Engine.lean is its
                                                                       first component)
  * `SyncManager.handle_hash_conflict`         manager.py 1614-1633 → `hashConflictHandler` (save six fields per side, split,
                                                                       handle_split_conflict, the `except CloudException` restore)
  * `SyncManager.handle_split_conflict`        manager.py 1635-1658 → `splitConflict` (get_latest, download of the deferring side, the
                                                                       same-hash shortcut, else `resolve_conflict`)
  * `sync` with its hash-conflict branch expanded                   → `syncClosed`
  * the CONTENT level (what ends up at the path and under '.conflicted' names) is Model/Resolver.lean: after `split` the
    deferring side is REMOTE, so `resolve_conflict` gets (REMOTE state, LOCAL state) = `Resolver.episode true`.

Oracle inputs: the download of the deferring side, whether the temp file is still there, whether its bytes hash (in the replaced
side's terms) to the replaced side's hash, and what `resolve_conflict` does (returns / lets a CloudException escape).  No Mathlib.
-/
namespace CS.Engine.Conflict
open CS.Hints (Ex OT Ign)
open CS.Engine

/-- a new `SyncEntry(self, otype)` side -/
def blankSide (ot : OT) : Side :=
  { oid := false, p := .nn, h := .nn, ex := .unknown, saved := none, otype := ot, changed := false, force := false }

structure TwoEntries where
  defer : Entry           -- the entry `sync` was called with: keeps REMOTE, LOCAL cleared
  replace : Entry         -- the new entry that took over LOCAL
  deriving DecidableEq, Repr

/-- `SyncState.split(ent)` (state.py 1326-1365): `defer = REMOTE`, `replace = LOCAL` -/
def splitFull (e : Entry) : Except Exc TwoEntries :=
  match splitEntry e with
  | .error x => .error x                                                          -- `assert ent[replace].oid` (1334)
  | .ok d =>
    -- 1332-1335 `replace_ent[LOCAL] = ent[LOCAL]` (a copy, with its flags); 1350 `mark_changed(LOCAL, replace_ent)`; 1356 sync_path = None
    let l := { e.l with changed := true, p := e.l.p.clearSync }
    .ok { defer := d, replace := { l := l, r := blankSide e.l.otype, lLeR := true, ign := .no, prio := 0 } }

inductive DlAns where
  | ok | fail | failMissing | temp | corrupt
  deriving DecidableEq, Repr

inductive RcAns where
  | ok                    -- `resolve_conflict` returns
  | temp                  -- a CloudTemporaryError escapes (the resolver raised it, or a provider call did)
  | cloud                 -- another CloudException escapes (e.g. CloudFileNotFoundError of an upload)
  deriving DecidableEq, Repr

structure COracle where
  dl : DlAns              -- `download_changed(REMOTE, defer_ent)` (1639)
  tempGone : Bool         -- `open(temp_file)` raises FileNotFoundError (1642, 1653)
  sameHash : Bool         -- `providers[LOCAL].hash_data(f) == replace_ent[LOCAL].hash` (1643-1644)
  rc : RcAns
  deriving DecidableEq, Repr

inductive CEff where
  | split | getLatest | download | hashData | resolve
  deriving DecidableEq, Repr

inductive COut where
  | ret (b : Bool)
  | raised (x : Exc)
  deriving DecidableEq, Repr

structure CRes where
  out : COut
  effs : List CEff
  ents : TwoEntries
  deriving DecidableEq, Repr

/-- 1645-1651: "same hash as remote, discard one side and merge" -/
def mergeSame (t : TwoEntries) : TwoEntries :=
  let l := t.replace.l                                                            -- `defer_ent[LOCAL] = replace_ent[LOCAL]`: the side moves back
  let rep := { t.replace with l := { l with p := l.p.clearCur, oid := false } }   -- state.py 415-416
  let d := { t.defer with l := { l with h := l.h.setSync, p := l.p.setSync },     -- 1647-1650
                          r := { t.defer.r with h := t.defer.r.h.setSync, p := t.defer.r.p.setSync } }
  let d := if l.p.cur then d.setPrio 0 else d                                    -- the path comes back through `_change_path`: priority reset
  { defer := d, replace := rep.setIgn .discarded }                                -- 1651

/-- `handle_split_conflict(defer_ent, REMOTE, replace_ent, LOCAL)` (manager.py 1635-1658) -/
def splitConflict (o : COracle) (t : TwoEntries) : CRes :=
  if t.defer.r.otype == .file then                                                -- 1638
    match o.dl with                                                               -- 1639
    | .fail => ⟨.ret false, [.getLatest, .download], t⟩
    | .failMissing => ⟨.ret false, [.getLatest, .download], { t with defer := { t.defer with r := t.defer.r.setEx .missing } }⟩
    | .temp => ⟨.raised .temp, [.getLatest, .download], t⟩
    | .corrupt => ⟨.raised .corrupt, [.getLatest, .download], t⟩
    | .ok =>
      if o.tempGone then ⟨.ret false, [.getLatest, .download], t⟩                 -- 1653-1654
      else if o.sameHash then ⟨.ret true, [.getLatest, .download, .hashData], mergeSame t⟩   -- 1644-1652
      else
        match o.rc with                                                           -- 1657
        | .ok => ⟨.ret true, [.getLatest, .download, .hashData, .resolve], t⟩
        | .temp => ⟨.raised .temp, [.getLatest, .download, .hashData, .resolve], t⟩
        | .cloud => ⟨.raised .corrupt, [.getLatest, .download, .hashData, .resolve], t⟩
  else
    match o.rc with
    | .ok => ⟨.ret true, [.getLatest, .resolve], t⟩
    | .temp => ⟨.raised .temp, [.getLatest, .resolve], t⟩
    | .cloud => ⟨.raised .corrupt, [.getLatest, .resolve], t⟩

/-- `setattr(defer_ent[side], field, save[side][field])` for the six fields, in the order sync_hash, sync_path, oid, hash, path,
    exists (1629-1631): the values come back; `exists` goes through `__setattr__` (a CORRUPT value re-enters the corrupt state with
    the CURRENT exists as `_saved_exists`) -/
def restoreSide (cur orig : Side) : Side :=
  let s := { cur with h := orig.h, p := orig.p, oid := orig.oid }
  let s := if cur.h.cur != orig.h.cur && cur.isCorrupt then { s with ex := cur.saved.getD .unknown, saved := none } else s
  s.setEx orig.ex

/-- the `except ex.CloudException` branch (manager.py 1626-1632) for the original entry `e` and the two entries `t` after the split -/
def exceptBranch (e : Entry) (t : TwoEntries) (x : Exc) (fx : List CEff) : CRes :=
  let d := { t.defer with l := restoreSide t.defer.l e.l }
  let d := if e.l.p.cur then d.setPrio 0 else d                                   -- LOCAL's path comes back: `_change_path` resets the priority
  -- the id goes back to the deferring entry: the replacement entry is ousted from the index (state.py 905-906)
  let rep := { t.replace with l := { t.replace.l with oid := false } }
  if e.r.p.cur && !e.r.oid then
    -- `_change_path` asserts an id when a path is assigned (state.py 821-822): the restore itself fails on an id-less REMOTE side
    ⟨.raised .assertion, fx, ⟨{ d with r := { d.r with h := e.r.h, p := e.r.p } }, rep⟩⟩
  else ⟨.raised x, fx, ⟨{ d with r := restoreSide d.r e.r }, rep.setIgn .discarded⟩⟩

/-- `handle_hash_conflict(sync)` (manager.py 1614-1633).  (`Exc.corrupt` stands for every CloudException other than the temporary one.) -/
def hashConflictHandler (o : COracle) (e : Entry) : CRes :=
  match splitFull e with
  | .error x => ⟨.raised x, [.split], ⟨e, e⟩⟩                                     -- AssertionError: not a CloudException, no restore
  | .ok t =>
    let r := splitConflict o t
    match r.out with
    | .raised x => exceptBranch e r.ents x (.split :: r.effs)                     -- 1627-1633
    | .ret b => ⟨.ret b, .split :: r.effs, r.ents⟩

/-- `sync` with the hash-conflict branch (377-380) expanded: the handler's result is ignored, `sync` returns True; an escaping
    exception leaves `sync`.  Returns `none` when there is no hash conflict (then `Engine.sync` applies). -/
def syncClosed (o : COracle) (e : Entry) : Option CRes :=
  if hashConflict e then
    let r := hashConflictHandler o e
    some (match r.out with
      | .ret _ => { r with out := .ret true }
      | .raised _ => r)
  else none

/-! ### the content level: Model/Resolver.lean with the orientation `split` fixes -/

/-- `split` makes REMOTE the deferring side, so `resolve_conflict` is entered with `side_states[0]` = REMOTE -/
theorem split_orientation : CS.Resolver.splitSides = (.rem, .loc) := rfl

/-- one visit of an open conflict by `sync` at the content level (`cl`/`cr` = what LOCAL/REMOTE hold at the path) -/
def visit {α : Type} [DecidableEq α] (b : CS.Resolver.Behaviour α) (cl cr : α) : CS.Resolver.St α :=
  CS.Resolver.episode true b (CS.Resolver.initSt cl cr)

end CS.Engine.Conflict
