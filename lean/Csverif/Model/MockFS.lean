import Csverif.Model.Path
import Csverif.Model.Tree
/-
Model of `cloudsync/providers/mock.py` (`MockFS`, `MockFSObject`, `MockEvent`, `MockProvider`),
branch by branch, as the code is.

* `MockFS._objects` is one Python dict keyed by the *normalised path* and by the *oid* of the same
  (shared, mutable) object (mock.py:38-80).  Here: a heap of objects (`heap`, index = handle) and the
  dict as an association list `key ↦ handle` (`dict`).  Mutating an object through one key is visible
  through the other because both keys hold the same handle.
* Deleting sets `exists = False` and keeps the object and its keys (tombstone, mock.py:615).
* `MockFSObject.__init__` (mock.py:88-109): `path.rstrip("/")` unless the path is "/", oid = the
  *raw* constructor argument for path-style providers, `str(id(self))` otherwise.  `id()` is replaced
  by a counter (`nextId`); the harness substitutes the same sequential ids in the real class.
* every event is a snapshot (`copy.copy`) of the object at registration time (mock.py:133-159);
  `_latest_cursor = len(_events) - 1`, `_cursor` starts at -1.  The model stores `_cursor + 1`.
* contents are opaque (`C`); `hashOf : C → H` is `_hash_func`, `sizeOf : C → Nat` is `len`.
* not modelled: quota / `_total_size`, `_locked_for_test`, namespaces, `_unfile`, `_filter_event`
  beyond its first branch (no sync root set ⇒ PROCESS), mtime, the connected flag (see `Conn` below
  for `connect`), thread lock.
-/
namespace CS.MockFS
open CS.Path
open CS.Tree (Kind Err)

inductive Action where
  | create | rename | update | delete
  deriving Repr, DecidableEq

structure Obj (C : Type) where
  path     : Str
  oid      : Str
  live     : Bool               -- `exists`
  kind     : Kind
  contents : Option C           -- `None` for directories
  deriving Repr

/-- `MockEvent`: snapshot of the target object plus `prior_oid` -/
structure MEv where
  action  : Action
  oid     : Str
  kind    : Kind
  path    : Str
  prior   : Option Str
  trashed : Bool                -- `not exists` at registration time
  deriving Repr, DecidableEq

/-- `cloudsync.event.Event` as produced by `_translate_event` (hash is always None, mtime dropped) -/
structure Event where
  kind   : Kind
  oid    : Option Str
  path   : Option Str
  live   : Bool                 -- `exists`
  prior  : Option Str
  cursor : Nat                  -- `new_cursor` (index into the log, Python value)
  deriving Repr, DecidableEq

structure Flavour where
  oip          : Bool           -- oid_is_path
  filterEvents : Bool := false
  oidlessTrash : Bool := false  -- `oidless_folder_trash_events`
  forbidden    : List Char := []

structure St (C : Type) where
  heap    : List (Obj C)
  dict    : List (Str × Nat)
  events  : List MEv
  cursor  : Nat                 -- `_cursor + 1`
  nextId  : Nat

/-! ### the dict -/

def dget (d : List (Str × Nat)) (k : Str) : Option Nat := (d.find? (fun e => e.1 == k)).map (·.2)

def updEntry (k : Str) (v : Nat) (e : Str × Nat) : Str × Nat := if e.1 == k then (k, v) else e

/-- `d[k] = v` (an existing key keeps its position, a new key goes last) -/
def dset (d : List (Str × Nat)) (k : Str) (v : Nat) : List (Str × Nat) :=
  if (dget d k).isSome then d.map (updEntry k v) else d ++ [(k, v)]

def ddel (d : List (Str × Nat)) (k : Str) : List (Str × Nat) := d.filter (fun e => !(e.1 == k))

variable {C : Type}

/-- `MockFS.get` (mock.py:66-67) -/
def getObj (s : St C) (k : Str) : Option (Nat × Obj C) :=
  match dget s.dict k with
  | none => none
  | some h => (s.heap[h]?).map (fun o => (h, o))

def norm (c : Cfg) (p : Str) : Str := normalizePath c p false

/-- `_get_by_path` (mock.py:276-279) -/
def getByPath (c : Cfg) (s : St C) (p : Str) : Option (Nat × Obj C) := getObj s (norm c p)

/-- `MockFS.store` (mock.py:53-56) for the object with handle `h` -/
def store (c : Cfg) (s : St C) (h : Nat) (o : Obj C) : St C :=
  let d1 := dset s.dict (norm c o.path) h
  let d2 := if (dget d1 o.oid).isSome then d1 else dset d1 o.oid h
  { s with dict := d2 }

/-- `MockFS.unstore` (mock.py:58-61); `none` = KeyError (→ CloudFileNotFoundError, mock.py:313-319) -/
def unstore (c : Cfg) (s : St C) (o : Obj C) : Option (St C) :=
  let k := norm c o.path
  match dget s.dict k with
  | none => none
  | some _ =>
    let d1 := ddel s.dict k
    let d2 := if (dget d1 o.oid).isSome then ddel d1 o.oid else d1
    some { s with dict := d2 }

/-- `MockFS.fs_objects` (mock.py:69-72): handles under keys that start with '/' , dict order -/
def fsObjects (s : St C) : List Nat :=
  s.dict.filterMap (fun e => if e.1.head? == some '/' then some e.2 else none)

/-- `register_event` (mock.py:74-80) -/
def registerEvent (s : St C) (a : Action) (o : Obj C) (prior : Option Str) : St C :=
  { s with events := s.events ++
      [{ action := a, oid := o.oid, kind := o.kind, path := o.path, prior := prior, trashed := !o.live }] }

/-- `MockFSObject.__init__` (mock.py:88-109) -/
def newObj (fl : Flavour) (s : St C) (path : Str) (kind : Kind) (contents : Option C) : Obj C × Nat :=
  let p := if path == ['/'] then path else rstrip '/' path
  let oid := if fl.oip then path else (toString s.nextId).toList
  ({ path := p, oid := oid, live := true, kind := kind, contents := contents }, s.nextId + 1)

/-- allocate the object on the heap and `_store_object` it -/
def allocStore (c : Cfg) (fl : Flavour) (s : St C) (path : Str) (kind : Kind) (contents : Option C) :
    St C × Nat × Obj C :=
  let (o, nid) := newObj fl s path kind contents
  let h := s.heap.length
  let s1 := { s with heap := s.heap ++ [o], nextId := nid }
  (store c s1 h o, h, o)

/-! ### results -/

structure Info (H : Type) where
  kind : Kind
  oid  : Str
  hash : Option H
  path : Str
  size : Nat
  name : Str
  deriving Repr, DecidableEq

inductive Res (C H : Type) where
  | info (i : Info H)
  | none
  | oid (o : Str)
  | unit
  | data (c : C)
  | bool (b : Bool)
  | list (l : List (Info H))
  | hash (h : Option H)
  | events (l : List Event)
  | cur (n : Nat)               -- cursor + 1
  | cursorErr                   -- CloudCursorError
  | err (e : Err)
  deriving Repr

variable {H : Type}

structure HashCfg (C H : Type) where
  hashOf : C → H
  sizeOf : C → Nat

/-- `MockFSObject.hash` / `.size` (mock.py:115-125) -/
def objHash (hc : HashCfg C H) (o : Obj C) : Option H :=
  match o.kind with
  | .dir => none
  | .file => o.contents.map hc.hashOf

def objSize (hc : HashCfg C H) (o : Obj C) : Nat :=
  match o.contents with
  | some x => hc.sizeOf x
  | none => 0

/-- the `OInfo(...)` built by create / upload / info_path / info_oid -/
def infoOfObj (c : Cfg) (hc : HashCfg C H) (o : Obj C) : Info H :=
  { kind := o.kind, oid := o.oid, hash := objHash hc o, path := o.path, size := objSize hc o,
    name := (split c o.path).2 }

/-- `info_path` (mock.py:646-653) -/
def infoPath (c : Cfg) (s : St C) (p : Str) : Option (Nat × Obj C) :=
  match getByPath c s p with
  | some (h, o) => if o.live then some (h, o) else none
  | none => none

/-- `_verify_parent_folder_exists` (provider.py:619-628) -/
def verifyParent (c : Cfg) (s : St C) (p : Str) : Option Err :=
  let parent := dirname c p
  if parent == [c.sep] then none
  else match infoPath c s parent with
    | none => some .notFound
    | some (_, o) => if o.kind == .dir then none else some .exists

/-- the test inside `listdir`'s loop (mock.py:447-453): the entry's name if `objPath` is directly
    beneath `folder` -/
def childName (c : Cfg) (folder objPath : Str) : Option Str :=
  match isSubpath c folder objPath true with
  | .no => none
  | .rel r =>
    if r.isEmpty then none
    else
      let r' := lstrip '/' r
      if r'.contains '/' then none else some r'

/-- body of `listdir` once the folder object is known: handles of the live entries, dict order -/
def listHandles (c : Cfg) (s : St C) (folderPath : Str) : List (Nat × Obj C × Str) :=
  (fsObjects s).filterMap (fun h =>
    match s.heap[h]? with
    | none => none
    | some o =>
      if o.live then (childName c folderPath o.path).map (fun nm => (h, o, nm)) else none)

/-- `listdir` (mock.py:441-453): `none` = CloudFileNotFoundError -/
def listdir (c : Cfg) (hc : HashCfg C H) (s : St C) (oid : Str) : Option (List (Info H)) :=
  match getObj s oid with
  | some (_, f) =>
    if f.live && f.kind == .dir then
      some ((listHandles c s f.path).map (fun (_, o, nm) =>
        { kind := o.kind, oid := o.oid, hash := objHash hc o, path := o.path, size := objSize hc o, name := nm }))
    else none
  | none => none

def hasForbidden (fl : Flavour) (p : Str) : Bool := fl.forbidden.any (fun ch => p.contains ch)

/-- `create` (mock.py:455-477) -/
def create (c : Cfg) (fl : Flavour) (hc : HashCfg C H) (s : St C) (p : Str) (data : C) : St C × Res C H :=
  if hasForbidden fl p then (s, .err .name)
  else if (infoPath c s p).isSome then (s, .err .exists)
  else match verifyParent c s p with
    | some e => (s, .err e)
    | none =>
      let (s1, _, o) := allocStore c fl s p .file (some data)
      let s2 := registerEvent s1 .create o none
      (s2, .info (infoOfObj c hc o))

/-- `mkdir` (mock.py:565-583) -/
def mkdir (c : Cfg) (fl : Flavour) (s : St C) (p : Str) : St C × Res C H :=
  match verifyParent c s p with
  | some e => (s, .err e)
  | none =>
    if hasForbidden fl p then (s, .err .name)
    else match infoPath c s p with
      | some (_, o) => if o.kind == .file then (s, .err .exists) else (s, .oid o.oid)
      | none =>
        let (s1, _, o) := allocStore c fl s p .dir none
        (registerEvent s1 .create o none, .oid o.oid)

/-- `upload` (mock.py:423-439) -/
def upload (c : Cfg) (hc : HashCfg C H) (s : St C) (oid : Str) (data : C) : St C × Res C H :=
  match getObj s oid with
  | none => (s, .err .notFound)
  | some (h, o) =>
    if !o.live then (s, .err .notFound)
    else if o.kind != .file then (s, .err .exists)
    else
      let o' := { o with contents := some data }
      let s1 := { s with heap := s.heap.set h o' }
      (registerEvent s1 .update o' none, .info (infoOfObj c hc o'))

/-- `download` (mock.py:479-487) -/
def download (s : St C) (oid : Str) : St C × Res C H :=
  match getObj s oid with
  | none => (s, .err .notFound)
  | some (_, o) =>
    if !o.live then (s, .err .notFound)
    else match o.kind, o.contents with
      | .dir, _ => (s, .err .exists)
      | .file, some x => (s, .data x)
      | .file, none => (s, .err .other)

/-- the emptiness test of `_delete` / `rename` (mock.py:606-612, 510-514):
    `next(self.listdir(oid))`, looked up again through the object's own oid -/
def dirBlocked (c : Cfg) (hc : HashCfg C H) (s : St C) (oid : Str) : Option Err :=
  match listdir c hc s oid with
  | none => some .notFound
  | some [] => none
  | some (_ :: _) => some .exists

/-- `_delete` (mock.py:597-621) -/
def delete (c : Cfg) (hc : HashCfg C H) (s : St C) (oid : Str) : St C × Res C H :=
  match getObj s oid with
  | none => (s, .unit)
  | some (h, o) =>
    if !o.live then (s, .unit)
    else
      match (if o.kind == .dir then dirBlocked c hc s o.oid else none) with
      | some e => (s, .err e)
      | none =>
        let o' := { o with live := false }
        let s1 := { s with heap := s.heap.set h o' }
        (registerEvent s1 .delete o' none, .unit)

/-- `_rename_single_object` (mock.py:548-563); the error is the KeyError of `unstore` -/
def renameSingle (c : Cfg) (fl : Flavour) (s : St C) (h : Nat) (dest : Str) (event : Bool) : St C × Option Err :=
  match s.heap[h]? with
  | none => (s, some .other)
  | some o =>
    let dest := rstrip '/' dest
    let prior := if fl.oip then some o.oid else none
    match unstore c s o with
    | none => (s, some .notFound)
    | some s1 =>
      let o' := { o with path := dest, oid := if fl.oip then dest else o.oid }
      let s2 := { s1 with heap := s1.heap.set h o' }
      let s3 := store c s2 h o'
      (if event then registerEvent s3 .rename o' prior else s3, none)

/-- the loop over `set(self._mock_fs.fs_objects())` in `rename` (mock.py:527-533); the snapshot is
    taken once, duplicates removed, tombstones included -/
def renameChildren (c : Cfg) (fl : Flavour) (s : St C) (oldPath newPath : Str) : St C × Option Err :=
  (fsObjects s).eraseDups.foldl (fun (acc : St C × Option Err) h =>
    match acc with
    | (s, some e) => (s, some e)
    | (s, none) =>
      match s.heap[h]? with
      | none => (s, none)
      | some o =>
        if (isSubpath c oldPath o.path true).truthy then
          match replacePath c o.path oldPath newPath with
          | .error _ => (s, some .other)
          | .ok np => renameSingle c fl s h np false
        else (s, none)) (s, none)

/-- mock.py:499-503: whatever is filed under the destination path, unless it is the object itself -/
def conflictOf (c : Cfg) (s : St C) (oid p : Str) : Option (Nat × Obj C) :=
  match getByPath c s p with
  | some (ch, co) => if co.oid == oid then none else some (ch, co)
  | none => none

/-- mock.py:505-519: a live conflict of another kind, a file, or a non-empty folder refuses; an empty
    folder is secretly deleted.  `some e` = raise -/
def resolveConflict (c : Cfg) (hc : HashCfg C H) (s : St C) (o : Obj C) :
    Option (Nat × Obj C) → St C × Option Err
  | none => (s, none)
  | some (_, co) =>
    if co.live then
      if co.kind != o.kind then (s, some .exists)
      else if co.kind == .dir then
        match dirBlocked c hc s co.oid with
        | some e => (s, some e)
        | none =>
          match delete c hc s co.oid with
          | (s', .err e) => (s', some e)
          | (s', _) => (s', none)
      else (s, some .exists)
    else (s, none)

/-- mock.py:525-535: a file is re-filed; a folder first re-files everything beneath it (no events) -/
def renameMove (c : Cfg) (fl : Flavour) (s : St C) (h : Nat) (o : Obj C) (p : Str) : St C × Option Err :=
  if o.kind == .file then renameSingle c fl s h p true
  else
    match renameChildren c fl s o.path p with
    | (s', some e) => (s', some e)
    | (s', none) => renameSingle c fl s' h p true

/-- mock.py:537-546: the two asserts and the returned oid -/
def renameFinish (fl : Flavour) (s : St C) (h : Nat) (o : Obj C) (oid : Str) : Res C H :=
  match s.heap[h]? with
  | none => .err .other
  | some o2 =>
    if fl.oip && o2.oid == o.oid then .err .other
    else if !fl.oip && o2.oid != oid then .err .other
    else .oid o2.oid

/-- `rename` (mock.py:489-546) -/
def rename (c : Cfg) (fl : Flavour) (hc : HashCfg C H) (s : St C) (oid : Str) (p : Str) : St C × Res C H :=
  match getObj s oid with
  | none => (s, .err .notFound)
  | some (h, o) =>
    if !o.live then (s, .err .notFound)
    else
      match verifyParent c s p with
      | some e => (s, .err e)
      | none =>
        match resolveConflict c hc s o (conflictOf c s oid p) with
        | (s1, some e) => (s1, .err e)
        | (s1, none) =>
          -- `object_to_rename` is the same Python object: read it again after the secret delete
          let o1 := (s1.heap[h]?).getD o
          if o1.path == p then (s1, .oid oid)
          else
            match renameMove c fl s1 h o1 p with
            | (s2, some e) => (s2, .err e)
            | (s2, none) => (s2, renameFinish fl s2 h o1 oid)

/-- `_translate_event` (mock.py:321-340) -/
def translateEvent (fl : Flavour) (pe : MEv) (cursor : Nat) : Event :=
  let path0 := if fl.oip || fl.filterEvents then some pe.path else none
  let (oid, path) :=
    if fl.oidlessTrash && pe.trashed && pe.kind == .dir then (none, some pe.path) else (some pe.oid, path0)
  { kind := pe.kind, oid := oid, path := path, live := !pe.trashed, prior := pe.prior, cursor := cursor }

/-- `events()` drained to exhaustion (mock.py:404-421; no root set ⇒ every event is PROCESS):
    yields log entries `_cursor+1 … _latest_cursor` and leaves `_cursor = _latest_cursor`
    (unchanged when it is already beyond) -/
def drain (fl : Flavour) (s : St C) : St C × List Event :=
  let pending := (s.events.drop s.cursor).zipIdx s.cursor
  ({ s with cursor := max s.cursor s.events.length }, pending.map (fun (pe, i) => translateEvent fl pe i))

/-- the value assigned to `current_cursor`: Python `None`, an `int` (given as `value + 1`, so the
    initial cursor -1 is `int 0` and the cursor after exactly one consumed event, Python 0, is `int 1`),
    or anything that is not an `int` -/
inductive CurVal where
  | none
  | int (n : Nat)
  | other
  deriving Repr, DecidableEq

/-- `current_cursor.setter` (mock.py:394-402), branch by branch:
    `if val is None: val = self.latest_cursor`;
    `if not isinstance(val, int) and val is not None: raise CloudCursorError(val)`; `self._cursor = val` -/
def setCursor (s : St C) : CurVal → St C × Res C H
  | .none => ({ s with cursor := s.events.length }, .unit)
  | .other => (s, .cursorErr)
  | .int v => ({ s with cursor := v }, .unit)

inductive Op (C : Type) where
  | create (p : Str) (data : C)
  | mkdir (p : Str)
  | upload (oid : Str) (data : C)
  | download (oid : Str)
  | rename (oid : Str) (p : Str)
  | delete (oid : Str)
  | infoPath (p : Str)
  | infoOid (oid : Str)
  | existsPath (p : Str)
  | existsOid (oid : Str)
  | listdir (oid : Str)
  | hashOid (oid : Str)
  | hashData (data : C)
  | events
  | latestCursor
  | currentCursor
  | setCursor (v : CurVal)
  deriving Repr

def liveObj (s : St C) (oid : Str) : Option (Obj C) :=
  match getObj s oid with
  | some (_, o) => if o.live then some o else none
  | none => none

def step (c : Cfg) (fl : Flavour) (hc : HashCfg C H) (s : St C) : Op C → St C × Res C H
  | .create p d => create c fl hc s p d
  | .mkdir p => mkdir c fl s p
  | .upload o d => upload c hc s o d
  | .download o => download s o
  | .rename o p => rename c fl hc s o p
  | .delete o => delete c hc s o
  | .infoPath p => (s, match infoPath c s p with | some (_, o) => .info (infoOfObj c hc o) | none => .none)
  | .infoOid o => (s, match liveObj s o with | some ob => .info (infoOfObj c hc ob) | none => .none)
  | .existsPath p => (s, .bool (infoPath c s p).isSome)
  | .existsOid o => (s, .bool (liveObj s o).isSome)
  | .listdir o => (s, match listdir c hc s o with | some l => .list l | none => .err .notFound)
  | .hashOid o => (s, .hash (match liveObj s o with | some ob => objHash hc ob | none => none))
  | .hashData d => (s, .hash (some (hc.hashOf d)))
  | .events => let (s', l) := drain fl s; (s', .events l)
  | .latestCursor => (s, .cur s.events.length)
  | .currentCursor => (s, .cur s.cursor)
  | .setCursor v => setCursor s v

/-- `MockProvider.__init__` (mock.py:212-216): the root directory object -/
def init (c : Cfg) (fl : Flavour) : St C :=
  (allocStore c fl { heap := [], dict := [], events := [], cursor := 0, nextId := 0 } ['/'] .dir none).1

def run (c : Cfg) (fl : Flavour) (hc : HashCfg C H) (s : St C) : List (Op C) → St C × List (Res C H)
  | [] => (s, [])
  | op :: ops =>
    let (s1, r) := step c fl hc s op
    let (s2, rs) := run c fl hc s1 ops
    (s2, r :: rs)

end CS.MockFS

/-
`Provider.connect` / `disconnect` / `reconnect` / `connected` (provider.py:141-156, 206-232) as a
small state machine.  `impl` is `connect_impl`: which identity the credentials log in as
(`none` = it raises CloudTokenError).  Identities are strings; Python truthiness of
`self.connection_id` makes the empty string behave like "not yet set".
-/
namespace CS.Conn

structure St (Cr : Type) where
  connId    : Option String     -- `connection_id`
  connected : Bool              -- `__connected`
  creds     : Option Cr         -- `_creds` (Python None = none)

inductive Res where
  | ok
  | tokenError
  deriving Repr, DecidableEq

def init {Cr} : St Cr := { connId := none, connected := false, creds := none }

/-- `self.connected` (provider.py:225-232) -/
def isConnected {Cr} (s : St Cr) : Bool := s.connId.isSome && s.connected

/-- Python truthiness of `connection_id` -/
def idSet : Option String → Bool
  | none => false
  | some i => i != ""

/-- `connect` (provider.py:141-156) -/
def connect {Cr} (impl : Option Cr → Option String) (s : St Cr) (creds : Option Cr) : St Cr × Res :=
  let s1 := { s with creds := creds }
  match impl creds with
  | none => (s1, .tokenError)                       -- raised inside connect_impl
  | some newId =>
    if idSet s1.connId then
      if s1.connId != some newId then
        ({ s1 with connected := false }, .tokenError) -- disconnect(); raise CloudTokenError
      else ({ s1 with connected := true }, .ok)
    else ({ s1 with connId := some newId, connected := true }, .ok)

def disconnect {Cr} (s : St Cr) : St Cr := { s with connected := false }

/-- `reconnect` (provider.py:206-217) -/
def reconnect {Cr} (impl : Option Cr → Option String) (s : St Cr) : St Cr × Res :=
  if s.connected then (s, .ok) else connect impl s s.creds

inductive Op (Cr : Type) where
  | connect (creds : Option Cr)
  | disconnect
  | reconnect
  deriving Repr

def step {Cr} (impl : Option Cr → Option String) (s : St Cr) : Op Cr → St Cr × Res
  | .connect cr => connect impl s cr
  | .disconnect => (disconnect s, .ok)
  | .reconnect => reconnect impl s

def run {Cr} (impl : Option Cr → Option String) (s : St Cr) : List (Op Cr) → St Cr
  | [] => s
  | op :: ops => run impl (step impl s op).1 ops

end CS.Conn
