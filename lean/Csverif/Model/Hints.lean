/-
C14 — "events are hints".  Model of ONE side of a sync entry as the event layer and `get_latest` see it.

Sources (cloudsync, line numbers as of /repo HEAD 03a413e with fixA.diff applied):
  * `SideState.__setattr__` / `_set_exists` / `uncorrupt`            state.py 109-133, 152-155, 219-222
  * `SyncState.update` (existing / fresh entry, no `prior_oid`)      state.py 1125-1178
  * `SyncState.update_entry` (the LIKELY_TRASHED rule at 1014-1021)  state.py 983-1030
  * `SyncEntry.get_latest`, `_last_gotten`                           state.py 638-657
  * `SyncState.unconditionally_get_no_info`                          state.py 1360-1379
  * `SyncState.unconditionally_get_latest`                           state.py 1381-1419
  * `SyncEntry.is_creation`, `SideState.needs_sync`                  state.py 450-455, 185-191
  * `EventManager._process_event`, `_fill_event_path`                event.py 261-314, 333-340

Hand-written, branch by branch; Python `None` is `Option.none`; truthiness of a path is `truthy`.
Times are natural numbers (0 = "not changed", as Python's falsy 0 / None / False).
Not modelled: size / mtime, the path and oid indexes of `SyncState` (one entry only), `prior_oid`,
`_notify_on_root_change_event` (events for the root object), priorities.  No Mathlib.
-/
namespace CS.Hints

abbrev Oid := String
abbrev Path := String
abbrev Hash := String

/-- `cloudsync.sync.state.Exists` (state.py 42-51) -/
inductive Ex where
  | unknown | present | trashed | missing | likely | corrupt
  deriving DecidableEq, Repr

/-- `cloudsync.types.OType` -/
inductive OT where
  | file | dir | notknown
  deriving DecidableEq, Repr

/-- `cloudsync.types.IgnoreReason` -/
inductive Ign where
  | no | discarded | conflict | tempRename | irrelevant
  deriving DecidableEq, Repr

/-- `SyncEntry.is_discarded` (state.py 470-472) -/
def Ign.isDiscarded : Ign → Bool
  | .discarded | .irrelevant => true
  | _ => false

def Ign.isConflicted : Ign → Bool
  | .conflict => true
  | _ => false

/-- one `SideState` (+ the entry's `ignored`) -/
structure Side where
  oid : Option Oid
  path : Option Path
  hash : Option Hash
  ex : Ex
  saved : Option Ex          -- `_saved_exists`
  otype : OT
  changed : Nat              -- `_changed`; 0 = falsy
  lastGotten : Nat           -- `_last_gotten`
  ign : Ign                  -- the entry's `ignored`
  deriving DecidableEq, Repr

/-- what the provider answers for an id right now: `info_oid` (None = the object is not there) and `hash_oid` -/
structure Info where
  path : Path
  hash : Option Hash
  otype : OT
  deriving DecidableEq, Repr

structure Truth where
  info : Oid → Option Info
  hashOid : Oid → Option Hash

/-- an `Event` as `state.update` receives it -/
structure Event where
  otype : OT
  oid : Option Oid
  path : Option Path
  hash : Option Hash
  ex : Option Bool           -- `exists`: True / False / None
  accurate : Bool := false
  deriving DecidableEq, Repr

/-- Python truthiness of an optional string -/
def truthy : Option String → Bool
  | some s => s != ""
  | none => false

/-- `SideState._translate_exists` on what an event can carry (state.py 136-150) -/
def translate : Option Bool → Ex
  | some false => .trashed
  | some true => .present
  | none => .unknown

/-- `SideState.__setattr__("exists", v)` (state.py 114-127): the corrupt state shadows assignments -/
def setEx (s : Side) (v : Ex) : Side :=
  if v = .corrupt ∧ s.ex ≠ .corrupt then { s with saved := some s.ex, ex := .corrupt }
  else if v ≠ .corrupt ∧ s.ex = .corrupt then { s with saved := some v }
  else { s with ex := v }

/-- `SideState.uncorrupt` (state.py 219-222); `_translate_exists(None)` is UNKNOWN -/
def uncorrupt (s : Side) : Side :=
  if s.ex = .corrupt then { s with ex := s.saved.getD .unknown, saved := none } else s

/-- `SideState.__setattr__("hash", v)` (state.py 131-133): a new hash un-corrupts -/
def setHash (s : Side) (h : Option Hash) : Side :=
  let s := if s.hash ≠ h ∧ s.ex = .corrupt then uncorrupt s else s
  { s with hash := h }

/-- a new `SyncEntry(self, otype)` seen from one side (state.py 77-95, 331-341) -/
def fresh (ot : OT) : Side :=
  { oid := none, path := none, hash := none, ex := .unknown, saved := none, otype := ot,
    changed := 0, lastGotten := 0, ign := .no }

/-- `assert otype is not NOTKNOWN or not exists` (state.py 1004) fails -/
def Event.raises (e : Event) : Bool := e.otype = .notknown ∧ e.ex = some true

/-! `SyncState.update_entry(ent, side, oid, path=…, file_hash=…, exists=…, changed=t, otype=…, accurate=…)` as called
    from `update` (state.py 983-1030), statement group by statement group.  `t` is the change time `mark_changed`
    assigns; `oidIsPath` is `providers[side].oid_is_path`; `norm` is `normalize_path_separators`. -/

/-- 986-993: a discarded entry of a path-id provider is dropped for a new one; the id is assigned -/
def aOid (oidIsPath : Bool) (s : Side) (e : Event) : Side :=
  match e.oid with
  | none => s
  | some o =>
    let s := if s.ign.isDiscarded && oidIsPath && truthy e.path then fresh e.otype else s
    { s with oid := some o }

/-- 995-996 -/
def aType (s : Side) (e : Event) : Side :=
  if e.otype ≠ s.otype then { s with otype := e.otype } else s

/-- 1006-1009 -/
def aPath (norm : Path → Path) (s : Side) (e : Event) : Side :=
  match e.path with
  | none => s
  | some p => if some (norm p) ≠ s.path then { s with path := some (norm p) } else s

/-- 1011-1012 -/
def aHash (s : Side) (e : Event) : Side :=
  match e.hash with
  | none => s
  | some h => if some h ≠ s.hash then setHash s (some h) else s

/-- 1014-1021: the LIKELY_TRASHED rule: a tombstone (TRASHED or LIKELY_TRASHED) is only ever replaced by another
    "deleted" event; "exists" and "unknown" events leave it LIKELY_TRASHED until the truth is re-read -/
def aEx (s : Side) (e : Event) : Side :=
  if (s.ex = .trashed ∨ s.ex = .likely) ∧ e.ex ≠ some false then setEx s .likely else setEx s (translate e.ex)

/-- 1023-1029 (`changed` is always truthy here) -/
def aChanged (s : Side) (e : Event) (t : Nat) : Side :=
  let s := { s with changed := t }
  if e.accurate then { s with lastGotten := t } else s

/-- If the assertion at 1004 fails the entry keeps what was assigned before it (oid, otype). -/
def applyEvent (oidIsPath : Bool) (norm : Path → Path) (s : Side) (e : Event) (t : Nat) : Side :=
  let s := aType (aOid oidIsPath s e) e
  if e.raises then s else aChanged (aEx (aHash (aPath norm s e) e) e) e t

/-- `SyncState.update` for an id-stable id (no `prior_oid`): the entry indexed under the id, or a new one
    (state.py 1129, 1173-1178) -/
def update (oidIsPath : Bool) (norm : Path → Path) (found : Option Side) (e : Event) (t : Nat) : Side :=
  applyEvent oidIsPath norm (found.getD (fresh e.otype)) e t

/-- `SyncState.unconditionally_get_no_info` (state.py 1360-1379) -/
def noInfo (oidIsPath : Bool) (s : Side) : Side :=
  let s := if s.ex = .unknown then (if !oidIsPath then setEx s .trashed else s) else s
  let s := if s.ex = .likely then setEx s .trashed else s
  if s.ex ≠ .trashed then setEx s (if oidIsPath then .missing else .trashed) else s

/-- `if ent.ignored == IgnoreReason.NONE and not ent[side].changed: ent[side].changed = time.time()` -/
def touch (s : Side) (now : Nat) : Side :=
  if s.ign = .no ∧ s.changed = 0 then { s with changed := now } else s

/-! the branch of `unconditionally_get_latest` with a provider answer (state.py 1393-1419) -/

/-- 1393-1396 -/
def kHash (info : Info) (now : Nat) (s : Side) : Side :=
  if s.hash ≠ info.hash then touch (setHash s info.hash) now else s

/-- 1400-1402 -/
def kType (info : Info) (s : Side) : Side := { setEx s .present with otype := info.otype }

/-- 1404-1406 -/
def kFile (T : Truth) (o : Oid) (s : Side) : Side :=
  if s.otype = .file then (if s.hash = none then setHash s (T.hashOid o) else s) else s

/-- 1412-1416 -/
def kPath (norm : Path → Path) (info : Info) (now : Nat) (s : Side) : Side :=
  if s.path ≠ some (norm info.path) then touch { s with path := some (norm info.path) } now else s

def known (norm : Path → Path) (T : Truth) (now : Nat) (o : Oid) (info : Info) (s : Side) : Side :=
  kPath norm info now (kFile T o (kType info (kHash info now s)))

/-- `SyncState.unconditionally_get_latest(ent, side)` (state.py 1381-1419) -/
def getLatest (oidIsPath : Bool) (norm : Path → Path) (T : Truth) (now : Nat) (s : Side) : Side :=
  match s.oid with
  | none => if s.ex ≠ .trashed ∧ s.ex ≠ .missing then setEx s .unknown else s
  | some o =>
    match T.info o with
    | none => noInfo oidIsPath s
    | some info => known norm T now o info s

/-- `SyncEntry.get_latest(force, sides)` for this side (state.py 638-643); `otherChanged` is the other
    side's `changed` (0 when falsy) -/
def getLatestMaybe (oidIsPath : Bool) (norm : Path → Path) (T : Truth) (now : Nat) (force : Bool)
    (otherChanged : Nat) (s : Side) : Side :=
  let m := max s.changed otherChanged
  if force ∨ m > s.lastGotten then { getLatest oidIsPath norm T now s with lastGotten := m } else s

/-- apply a list of (event, time) deliveries in order -/
def applyEvents (oidIsPath : Bool) (norm : Path → Path) (s : Side) : List (Event × Nat) → Side
  | [] => s
  | (e, t) :: es => applyEvents oidIsPath norm (applyEvent oidIsPath norm s e t) es

/-- `SideState.needs_sync` without `force_sync` (state.py 185-191); `pathsDiffer` is `parent.paths_differ(side)` -/
def needsSync (s : Side) (syncHash : Option Hash) (pathsDiffer : Bool) : Bool :=
  s.changed != 0 && s.oid.isSome &&
    (s.hash != syncHash || pathsDiffer || s.ex == .trashed || s.ex == .likely || s.ex == .missing)

/-- `SyncEntry.is_creation(side)` (state.py 450-455); `otherGone` is the disjunction about the other side -/
def isCreation (s : Side) (syncHash : Option Hash) (pathsDiffer : Bool) (otherGone : Bool) : Bool :=
  if truthy s.path && s.ex == .present then
    (if needsSync s syncHash pathsDiffer then otherGone else false)
  else false

/-- TRASHED and MISSING are both "gone" for every consumer of a tombstone (`is_deletion`, `needs_sync`) -/
def Ex.tomb : Ex → Ex
  | .missing => .trashed
  | x => x

/-! ### the event layer: `EventManager._process_event` (event.py 283-313) -/

/-- what `_process_event` does with an event -/
inductive Verdict where
  | dropped                  -- `return` at 296: no id
  | walkNoop                 -- `return` at 307: walk event and nothing differs
  | update (e : Event)       -- `state.update(...)` is called with these fields
  deriving DecidableEq, Repr

/-- `state.lookup_path(side, path)` (state.py 949-956) over the entries of this side, in index order -/
def lookupPath (idx : List Side) (p : Path) : List Side :=
  idx.filter (fun s => s.path == some p && !s.ign.isDiscarded && !s.ign.isConflicted)

/-- `state.lookup_oid(side, oid)` -/
def lookupOid (idx : List Side) (o : Oid) : Option Side := idx.find? (fun s => s.oid == some o)

/-- event.py 285-292: an id-less delete of a folder takes the id of the first live entry at its path -/
def fillOid (idx : List Side) (e : Event) : Event :=
  match e.oid with
  | some _ => e
  | none =>
    if e.ex = some false ∧ truthy e.path = true ∧ e.otype = OT.dir then
      match lookupPath idx (e.path.getD "") with
      | k :: _ => { e with oid := k.oid }
      | [] => e
    else e

/-- event.py 298-307: a walk event for a known id that carries the hash and path the state already has -/
def walkNoop (idx : List Side) (e : Event) (o : Oid) (fromWalk : Bool) : Bool :=
  fromWalk && (match lookupOid idx o with
    | some a => !(a.hash != e.hash || a.path != e.path)
    | none => false)

/-- event.py 309, 333-340 `_fill_event_path` -/
def fillPath (idx : List Side) (e : Event) (o : Oid) : Event :=
  if truthy e.path then e else
    match lookupOid idx o with
    | some a => { e with path := a.path }
    | none => e

def processEvent (idx : List Side) (e : Event) (fromWalk : Bool) : Verdict :=
  let e := fillOid idx e
  -- 294-296
  match e.oid with
  | none => .dropped
  | some o => if walkNoop idx e o fromWalk then .walkNoop else .update (fillPath idx e o)

/-! ### tombstones and the missing-parent recovery (manager.py `handle_cloud_file_not_found_error`, first decision)

A discarded entry (the tombstone of a deleted and synced object) stays indexed under its path: `lookup_path(…, stale=True)`
returns it, the live lookup (`stale=False`, the default) filters it out (state.py `lookup_path`). -/

/-- `state.lookup_path(side, path, stale)` -/
def lookupPathS (idx : List Side) (p : Path) (stale : Bool) : List Side :=
  idx.filter (fun s => s.path == some p && (stale || (!s.ign.isDiscarded && !s.ign.isConflicted)))

/-- an entry a live lookup may return -/
def Side.live (s : Side) : Bool := !s.ign.isDiscarded && !s.ign.isConflicted

/-- what the handler does first -/
inductive FnfStep where
  | tooManyRetries            -- `sync.priority > 5`: CloudTooManyRetriesError (the child is marked finished by `sync`)
  | injectParent              -- no entry for the parent path, the provider has the folder: `state.update(changed, DIRECTORY, info.oid, path=parent)`
  | noInfo                    -- no entry, no folder: "no info and no dir, ignoring"
  | useEntry (parent : Side)  -- the first entry found is taken for the parent (punt / re-mark it)
  deriving DecidableEq, Repr

/-- manager.py 811-827 with the lookup mode as a parameter; the code is `fnfParent false` -/
def fnfParent (stale : Bool) (idx : List Side) (parent : Path) (priority : Nat) (providerHasParent : Bool) : FnfStep :=
  if priority > 5 then .tooManyRetries else
  match lookupPathS idx parent stale with
  | [] => if providerHasParent then .injectParent else .noInfo
  | k :: _ => .useEntry k

end CS.Hints

