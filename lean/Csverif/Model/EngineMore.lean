import Csverif.Model.Engine
import Csverif.Model.Path
/-
ENG, part 3 — the remaining decision logic around the engine's handlers (manager.py, line numbers of /repo HEAD 14784bb):

  (b) `conflict_rename` 1385-1416, `rename_to_fix_conflict` 1366-1383, `_resolve_rename` 1348-1364   → `splitExt`, `conflictBase`,
      `conflictName`, `conflictRename`, `renameToFix`, `resolveRename`
  (c) `handle_cloud_file_not_found_error` 784-833 with the parent entry                                → `fnfHandler`
  (d) `_get_untrashed_peers` 1112-1138, `check_disjoint_create` 1140-1180                               → `untrashedPeers`, `checkDisjoint`
  (e) `get_folder_file_conflict` 544-558, the other-entry loops of `mkdir_synced` 606-628 and
      `unsafe_mkdir_synced` 566-572                                                                     → `folderFileConflict`, `mkdirHead`

Strings are `List Char` (Model/Path.lean: `split`, `join` are the tied models of `Provider.split` / `Provider.join`).
Other entries of the state table are lists of small records (what the code reads of them).  No Mathlib.
-/
namespace CS.Engine.More
open CS.Hints (Ex OT Ign)
open CS.Engine
open CS.Path (Str Cfg)

/-! ### (b) conflict names -/

/-- 1390-1396: `index = base.find(".")`: the extension starts at the FIRST dot -/
def splitExt (base : Str) : Str × Str := base.span (· != '.')

def numStr (i : Nat) : Str := (Nat.repr i).toList

def conflictedTag : Str := ".conflicted".toList

/-- 1405, 1413: the i-th candidate — `base.conflicted.ext`, then `base.conflicted2.ext`, `base.conflicted3.ext`, … -/
def conflictBase (stem ext : Str) (i : Nat) : Str :=
  stem ++ conflictedTag ++ (if i ≤ 1 then [] else numStr i) ++ ext

/-- the loop 1406-1413 against the set of names for which the provider's rename raises CloudFileExistsError.  The Python loop has
    no bound; `taken.length + 1` candidates always suffice (Props: `conflict_name_fresh`).  Returns the name and the number of
    renames tried. -/
def conflictName (stem ext : Str) (taken : List Str) : Option (Str × Nat) :=
  ((List.range (taken.length + 1)).find? (fun k => !taken.contains (conflictBase stem ext (k + 1)))).map
    (fun k => (conflictBase stem ext (k + 1), k + 1))

inductive CRen where
  | valueError                       -- 1387-1388: "bad path"
  | absent                           -- 1400-1401: `(None, None, None)`
  | renamed (path : Str) (tries : Nat)
  | stuck                            -- never (Props)
  deriving DecidableEq, Repr

/-- `conflict_rename(side, path)`; `present` = `info_path(path)` finds the object; `taken` = names (in the object's folder) that
    are in use -/
def conflictRename (c : Cfg) (path : Str) (present : Bool) (taken : List Str) : CRen :=
  let (folder, base) := CS.Path.split c path                                      -- 1386
  if base.isEmpty then .valueError                                                -- 1387-1388
  else if !present then .absent                                                   -- 1398-1401
  else
    let (stem, ext) := splitExt base                                              -- 1390-1396
    match conflictName stem ext taken with
    | some (n, k) => .renamed (CS.Path.join c [folder, n]) k                      -- 1408-1409, 1416
    | none => .stuck

/-- which entry `rename_to_fix_conflict` re-identifies (1371-1381) -/
inductive FixTarget where
  | nothing                          -- `new_name is None` (→ False), or no entry holds the old id
  | thisEntry (tempRename : Bool)    -- `old_oid == sync[side].oid`: `update_entry(sync, side, new_oid)` (+ TEMP_RENAME)
  | otherEntry (tempRename : Bool)   -- `state.lookup_oid(side, old_oid)` found another entry
  deriving DecidableEq, Repr

/-- returns (result, target) -/
def renameToFix (r : CRen) (oldIsMine : Bool) (otherHolds : Bool) (tempRename : Bool) : Bool × FixTarget :=
  match r with
  | .renamed _ _ =>
    if oldIsMine then (true, .thisEntry tempRename)
    else if otherHolds then (true, .otherEntry tempRename) else (true, .nothing)
  | _ => (false, .nothing)

/-- `_resolve_rename(replace)` (1348-1364): the loser of a keep-both resolution gets the new id and a fresh change stamp; its
    `path` is deliberately NOT updated (comment 1352-1360) -/
def resolveRename (r : CRen) (s : Side) : Bool × Side :=
  match r with
  | .renamed _ _ => (true, { s with oid := true, changed := true })
  | _ => (false, s)

/-! ### (c) `handle_cloud_file_not_found_error` (784-833) -/

inductive FnfEff where
  | infoParent            -- `providers[changed].info_path(parent)` (793)
  | adoptParent           -- `state.update(changed, DIRECTORY, info.oid, path=parent)` (795)
  | infoParentOid         -- `providers[synced].info_oid(parent_ent[synced].oid)` (815)
  deriving DecidableEq, Repr

structure FnfRes where
  out : Out
  effs : List FnfEff
  parent : Option Entry
  deriving DecidableEq, Repr

/-- `parent` = the first live entry at `dirname(sync[changed].path)` on the changed side (`lookup_path` hides discarded and
    conflicted entries); `parentThere` = the changed provider has an object at that path (793); `parentSynced` = the synced
    provider reports the parent entry's object at the translated parent path (815-817) -/
def fnfHandler (e : Entry) (c : Sd) (parent : Option Entry) (parentThere parentSynced : Bool) : FnfRes :=
  let s := c.other
  if e.prio > 50 then ⟨.raised .tooMany, [], parent⟩                              -- 785-786
  else
    match parent with
    | none =>                                                                     -- 792-797
      if parentThere then ⟨.ret .punt, [.infoParent, .adoptParent], none⟩ else ⟨.ret .punt, [.infoParent], none⟩
    | some pe =>
      if !(pe.get c).changed || !isCreation pe c then                             -- 802
        if e.prio ≤ 20 then ⟨.ret .punt, [], some pe⟩                             -- 803-805
        else if (pe.get c).ex == .present then                                    -- 806
          if parentSynced then ⟨.ret .punt, [.infoParentOid], some pe⟩            -- 815-819
          else
            -- 825-830: "updated entry as missing": the parent folder will be re-created
            let x := pe.get c
            let pe := pe.set c { x with p := x.p.clearSync }
            let pe := pe.setChanged c .now
            let pe := pe.set s ((pe.get s).setEx .missing)
            if !isCreation pe c || !(pe.get c).needsSync then ⟨.raised .assertion, [.infoParentOid], some pe⟩   -- 828-829
            else ⟨.ret .punt, [.infoParentOid], some pe⟩
        else ⟨.ret .punt, [], some pe⟩
      else ⟨.ret .punt, [], some pe⟩                                              -- 832-833

/-! ### (d) `_get_untrashed_peers` (1112-1138), `check_disjoint_create` (1140-1180) -/

/-- what the code reads of another entry at the translated path: its SYNCED side -/
structure Peer where
  ex : Ex
  oidMatch : Bool         -- `e[synced].oid == info.oid`
  hashSynced : Bool       -- `e[synced].sync_hash == e[synced].hash`
  changed : Bool
  otype : OT
  deriving DecidableEq, Repr

inductive DjEff where
  | discard (i : Nat)     -- `ent.ignore(DISCARDED)` of peer i (1129-1132)
  | infoPath              -- `providers[synced].info_path(translated_path)` (1149)
  | merge (i : Nat)       -- `sync[synced] = e[synced]` (1160-1161)
  | splitConflict (i : Nat)   -- `handle_split_conflict(found, synced, sync, changed)` (1175-1176)
  deriving DecidableEq, Repr

def enum {α : Type} (l : List α) : List (Nat × α) := (List.range l.length).zip l

/-- returns the live peers (with their index) or none, and the discards -/
def untrashedPeers (cOtype : OT) (peers : List Peer) : Option (List (Nat × Peer)) × List DjEff :=
  if cOtype != .file then (none, [])                                              -- 1114-1115
  else if peers.isEmpty then (none, [])                                           -- 1121-1122
  else if peers.all (fun p => p.ex != .present) then                              -- 1128-1133
    (none, ((enum peers).filter (fun ip => ip.2.ex == .trashed || ip.2.ex == .missing)).map (fun ip => .discard ip.1))
  else (some ((enum peers).filter (fun ip => ip.2.ex == .present)), [])           -- 1136-1138

/-- the loop 1154-1169: (found: none = `None`, some none = `False`, some (some i) = peer i; the synced side's type; effects) -/
def djLoop : List (Nat × Peer) → Option (Option Nat) → OT → List DjEff → Option (Option Nat) × OT × List DjEff
  | [], found, st, fx => (found, st, fx)
  | (i, p) :: rest, found, st, fx =>
    if p.oidMatch then
      if !p.hashSynced then djLoop rest (some (some i)) st fx                     -- 1157-1158
      else if !p.changed then djLoop rest found p.otype (fx ++ [.merge i])        -- 1159-1161: the synced side is now the peer's
      else if p.otype == .dir && st == .file then djLoop rest (some (some i)) st fx   -- 1162-1164
      else if p.otype == .file && st == .dir then djLoop rest (some (some i)) st fx   -- 1165-1167
      else djLoop rest (some none) st fx                                          -- 1168-1169
    else djLoop rest found st fx

/-- `check_disjoint_create`; `sOtype` = `sync[synced].otype`, `infoThere` = `info_path(translated_path)` finds an object -/
def checkDisjoint (cOtype sOtype : OT) (peers : List Peer) (infoThere : Bool) : Bool × List DjEff :=
  match untrashedPeers cOtype peers with
  | (none, fx) => (false, fx)                                                     -- 1143-1144
  | (some live, fx) =>
    if live.isEmpty then (false, fx)
    else if !infoThere then (false, fx ++ [.infoPath])                            -- 1149-1151
    else
      match djLoop live none sOtype (fx ++ [.infoPath]) with
      | (some (some i), _, fx) => (true, fx ++ [.splitConflict i])                -- 1175-1180
      | (_, _, fx) => (true, fx)                                                  -- 1171-1173: "something I don't understand"

/-! ### (e) `get_folder_file_conflict` (544-558), the other-entry loops of `mkdir_synced` / `unsafe_mkdir_synced` -/

/-- an entry at the translated path, synced side: (exists, type, `info_oid` still finds it) -/
structure FfPeer where
  ex : Ex
  otype : OT
  infoThere : Bool
  deriving DecidableEq, Repr

/-- returns the index of the conflicting entry (or none) and the entries marked MISSING on the way (553-554) -/
def folderFileConflict (peers : List FfPeer) : Option Nat × List Nat :=
  let conflicts := (enum peers).filter (fun ip => ip.2.ex == .present && ip.2.otype != .dir)   -- 547
  let kept := conflicts.filter (fun ip => ip.2.infoThere)                                      -- 551-556
  let gone := (conflicts.filter (fun ip => !ip.2.infoThere)).map (·.1)
  (kept.head?.map (·.1), gone)

/-- another entry at `sync[changed].path`: (type on the changed side, type on the synced side, exists on both sides) -/
structure MkOther where
  cOtype : OT
  sOtype : OT
  cEx : Ex
  sEx : Ex
  deriving DecidableEq, Repr

inductive MkHead where
  | punt                  -- 623-625
  | proceed (renamed : Bool)
  deriving DecidableEq, Repr

/-- 606-628 and 566-572: which other entries are discarded by `mkdir_synced` (their CHANGED side is a folder), whether a live
    one makes it punt / rename, and which are discarded by `unsafe_mkdir_synced` (their SYNCED side is a folder) -/
def mkdirHead (others : List MkOther) (prio : Int) : List Nat × MkHead × List Nat :=
  let d1 := ((enum others).filter (fun io => io.2.cOtype == .dir)).map (·.1)     -- 610-615
  let gone (x : Ex) : Bool := x == .trashed || x == .missing
  let live := others.any (fun o => !gone o.cEx && !gone o.sEx)                    -- 617-620
  if live && prio ≤ 0 then (d1, .punt, [])
  else (d1, .proceed live, ((enum others).filter (fun io => io.2.sOtype == .dir && io.2.cOtype != .dir)).map (·.1))   -- 566-572 (`lookup_path` no longer shows the entries discarded above)

end CS.Engine.More
